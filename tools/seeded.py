#!/venv/bin/python
"""Verify seeded changes and run the checks against them.

usage: tools/seeded.py verify <dir>       demo passes on /repo, fails with patch
       tools/seeded.py detect <dir> [ID]  run ./check ID (default: meta.property)
                                          against a scratch copy with the patch
       tools/seeded.py all                both for every seeded/*/*, table
A seeded change lives in seeded/<ID>/<name>/ with patch.diff, demo.py,
meta.json. Scratch copies live under /tmp and are removed afterwards; /repo is
never modified.
"""
import json, os, shutil, subprocess, sys, tempfile

ROOT = os.path.dirname(os.path.dirname(os.path.abspath(__file__)))


def scratch(patch=None):
    tmp = tempfile.mkdtemp(prefix='seeded_')
    shutil.copytree('/repo/sc3', os.path.join(tmp, 'sc3'),
                    ignore=shutil.ignore_patterns('__pycache__'))
    if patch:
        r = subprocess.run(['patch', '-p1', '-s', '-d', tmp, '-i',
                            os.path.abspath(patch)], capture_output=True,
                           text=True)
        if r.returncode:
            shutil.rmtree(tmp, ignore_errors=True)
            raise RuntimeError('patch does not apply: ' + r.stdout + r.stderr)
    return tmp


def demo(tree, d):
    r = subprocess.run(['/venv/bin/python',
                        os.path.abspath(os.path.join(d, 'demo.py'))],
                       env=dict(os.environ, PYTHONPATH=tree),
                       capture_output=True, text=True, timeout=300, cwd=tree)
    return r.returncode, (r.stdout + r.stderr)[-300:]


def verify(d):
    clean = scratch()
    try:
        rc0, o0 = demo(clean, d)
    finally:
        shutil.rmtree(clean, ignore_errors=True)
    bad = scratch(os.path.join(d, 'patch.diff'))
    try:
        rc1, o1 = demo(bad, d)
    finally:
        shutil.rmtree(bad, ignore_errors=True)
    ok = rc0 == 0 and rc1 != 0
    return ok, f'clean rc={rc0} patched rc={rc1}' + (
        '' if ok else f' | clean: {o0!r} patched: {o1!r}')


def detect(d, pid=None, tier='quick'):
    meta = json.load(open(os.path.join(d, 'meta.json')))
    pid = pid or meta['property']
    bad = scratch(os.path.join(d, 'patch.diff'))
    try:
        env = dict(os.environ, VERIF_SC3_PATH=bad,
                   VERIF_OUT=os.path.join(bad, 'out'))
        os.makedirs(env['VERIF_OUT'])
        r = subprocess.run([os.path.join(ROOT, 'check'), pid, '--tier', tier],
                           env=env, capture_output=True, text=True)
        lines = [l for l in r.stdout.splitlines() if l.startswith('VIOLATION')]
        status = {0: 'MISSED', 1: 'DETECTED'}.get(r.returncode,
                                                   f'ERROR rc={r.returncode}')
        info = lines[0][:220] if lines else (r.stdout + r.stderr)[-300:] \
            if r.returncode not in (0, 1) else ''
        return status, info
    finally:
        shutil.rmtree(bad, ignore_errors=True)


def main():
    cmd = sys.argv[1]
    if cmd == 'verify':
        print(*verify(sys.argv[2]))
    elif cmd == 'detect':
        print(*detect(sys.argv[2], sys.argv[3] if len(sys.argv) > 3 else None,
                      os.environ.get('VERIF_TIER', 'quick')))
    elif cmd == 'all':
        from multiprocessing.pool import ThreadPool
        base = os.path.join(ROOT, 'seeded')
        dirs = []
        for pid in sorted(os.listdir(base)):
            pd = os.path.join(base, pid)
            if not os.path.isdir(pd):
                continue
            for name in sorted(os.listdir(pd)):
                d = os.path.join(pd, name)
                if os.path.exists(os.path.join(d, 'patch.diff')):
                    dirs.append((pid, name, d))

        def one(item):
            pid, name, d = item
            try:
                ok, vi = verify(d)
                st, info = detect(d)
            except Exception as e:
                ok, vi, st, info = False, str(e), 'ERROR', ''
            print(pid, name, 'valid' if ok else 'INVALID ' + vi, st,
                  info[:160], flush=True)
            kind = info[info.index('['):][:120] if '[' in info else ''
            return {'property': pid, 'seed': name,
                    'demo': 'valid' if ok else 'INVALID', 'check': st,
                    'violation': kind}
        rows = ThreadPool(int(os.environ.get('SEEDED_JOBS', '5'))).map(
            one, dirs)
        json.dump(rows, open(os.path.join(base, 'results.json'), 'w'),
                  indent=1)


if __name__ == '__main__':
    main()
