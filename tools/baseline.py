#!/usr/bin/env python3
"""Run /repo's pinned test suite and check that every stable_pass test of
/root/.vp/BASELINE.json passes. Exit 0 iff all 60 pass."""
import json, subprocess, sys, tempfile, os
import xml.etree.ElementTree as ET
base = json.load(open('/root/.vp/BASELINE.json'))
out = tempfile.mktemp(suffix='.xml')
cmd = ['/venv/bin/python', '-m', 'pytest', '-ra', '-q', '-p', 'no:cacheprovider',
       '--timeout=900', '--continue-on-collection-errors', f'--junitxml={out}']
r = subprocess.run(cmd, cwd='/repo', capture_output=True, text=True)
passed = set()
for tc in ET.parse(out).getroot().iter('testcase'):
    if not any(c.tag in ('failure', 'error', 'skipped') for c in tc):
        passed.add(f"{tc.get('classname')}::{tc.get('name')}")
os.unlink(out)
missing = [t for t in base['stable_pass'] if t not in passed]
print(f'{len(base["stable_pass"]) - len(missing)}/{len(base["stable_pass"])} stable tests pass')
for m in missing:
    print('MISSING', m)
sys.exit(1 if missing else 0)
