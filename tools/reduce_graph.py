#!/venv/bin/python
"""Spec-level reducer for C01-style graph specs (used when Hypothesis' own
shrinker runs out of budget): repeatedly drops nodes nothing refers to and
sinks, keeping the violation kind. usage: tools/reduce_graph.py replay.json"""
import copy, json, sys, os
sys.path.insert(0, os.path.dirname(os.path.dirname(os.path.abspath(__file__))))
from vlib import core
core.init_sc3('nrt')
import checks.c01 as c01

rec = json.load(open(sys.argv[1]))
kind = rec['kind']

def fails(spec):
    v = core.V()
    try:
        c01.run_case(spec, v)
    except Exception:
        return False
    return any(x.kind == kind for x in v.items)

def refs_of(n):
    out = []
    for k in ('a', 'b', 'm', 'd'):
        if isinstance(n.get(k), int) and not (n['k'] == 'ch' and k == 'i'):
            out.append(n[k])
    out += [x for x in n.get('xs', []) if isinstance(x, int)]
    out += [x for x in n.get('args', []) if isinstance(x, int)]
    return out

def drop(spec, i):
    s = copy.deepcopy(spec)
    for n in s['nodes'] + s['sinks']:
        if i in refs_of(n):
            return None
    del s['nodes'][i]
    def fix(x):
        return x - 1 if isinstance(x, int) and x > i else x
    for n in s['nodes'] + s['sinks']:
        for k in ('a', 'b', 'm', 'd'):
            if k in n and isinstance(n[k], int):
                n[k] = fix(n[k])
        if 'xs' in n:
            n['xs'] = [fix(x) for x in n['xs']]
        if 'args' in n:
            n['args'] = [fix(x) for x in n['args']]
    return s

spec = rec['case']
assert fails(spec), 'does not fail'
changed = True
while changed:
    changed = False
    for j in range(len(spec['sinks']) - 1, -1, -1):
        if len(spec['sinks']) > 1:
            s = copy.deepcopy(spec); del s['sinks'][j]
            if fails(s):
                spec = s; changed = True
    for i in range(len(spec['nodes']) - 1, -1, -1):
        if spec['nodes'][i]['k'] == 'p':
            continue
        s = drop(spec, i)
        if s is not None and fails(s):
            spec = s; changed = True
for i, n in enumerate(spec['nodes']):
    print(i, n)
print(spec['sinks'], spec['params'])
rec['case'] = spec
out = sys.argv[1].replace('.json', '.min.json')
json.dump(rec, open(out, 'w'), indent=1)
print('written', out)
