#!/venv/bin/python
"""Run a command against a scratch copy of /repo/sc3 with a patch applied.

usage: tools/with_patch.py <patch.diff> [<patch2.diff> ...] -- ./check C06
The copy lives under /tmp and is removed afterwards; evidence/replays of the
run go to a scratch VERIF_OUT as well (printed), so /verif/evidence is not
touched.
"""
import os, shutil, subprocess, sys, tempfile
i = sys.argv.index('--')
patches, cmd = sys.argv[1:i], sys.argv[i + 1:]
tmp = tempfile.mkdtemp(prefix='patched_')
try:
    shutil.copytree('/repo/sc3', os.path.join(tmp, 'sc3'),
                    ignore=shutil.ignore_patterns('__pycache__'))
    for p in patches:
        subprocess.run(['patch', '-p1', '-d', tmp, '-i', os.path.abspath(p)],
                       check=True)
    env = dict(os.environ, VERIF_SC3_PATH=tmp,
               VERIF_OUT=os.path.join(tmp, 'out'))
    os.makedirs(env['VERIF_OUT'])
    r = subprocess.run(cmd, env=env)
    sys.exit(r.returncode)
finally:
    shutil.rmtree(tmp, ignore_errors=True)
