#!/usr/bin/env python3
"""Generate MANIFEST.json from checks/*.py (MANIFEST_ENTRY dicts) so that the
manifest always lists exactly the checks that exist."""
import importlib, json, os, sys
ROOT = os.path.dirname(os.path.dirname(os.path.abspath(__file__)))
sys.path.insert(0, ROOT)
props = [json.loads(l) for l in open(os.path.join(ROOT, 'properties.jsonl'))]
checks, na = [], []
ready = set(open(os.path.join(ROOT, 'tools', 'ready.txt')).read().split())
for p in props:
    pid = p['id']
    path = os.path.join(ROOT, 'checks', pid.lower() + '.py')
    entry = None
    if os.path.exists(path) and pid in ready:
        src = open(path).read()
        ns = {}
        # MANIFEST block is a plain dict literal assigned at module level
        import ast
        tree = ast.parse(src)
        for node in tree.body:
            if isinstance(node, ast.Assign) and any(
                    getattr(t, 'id', None) == 'MANIFEST' for t in node.targets):
                entry = ast.literal_eval(node.value)
    if entry is None:
        na.append({'property_id': pid, 'reason':
                   'check not built yet (work in progress; the technique applies, see DESIGN.md section 3)'})
        continue
    checks.append({
        'property_id': pid,
        'quick_cmd': f'./check {pid} --tier quick',
        'thorough_cmd': f'./check {pid} --tier thorough',
        'evidence_file': f'/verif/evidence/{pid}.json',
        'replay_cmd_template': f'./check {pid} --replay {{path}}',
        'engine': entry.get('engine', 'hypothesis'),
        'level_claimed': {'category': entry.get('category', 'exploration'),
                          'text': entry['text'],
                          'design_ref': f'DESIGN.md section 3, {pid}'},
        'level_note': entry['note'],
        'technique': entry['technique'],
    })
man = {
    'version': 1,
    'setup_cmd': './setup.sh',
    'hooks': {
        'guard': 'SC3_VERIF',
        'enable': 'no source hooks: checks import /repo/sc3 from the working tree (sys.path[0]=/repo) and replace module attributes at run time',
        'baseline_off_cmd': 'cd /repo && /venv/bin/python -m pytest -ra -q -p no:cacheprovider --timeout=900 --continue-on-collection-errors',
        'source_commits': [],
        'add_only': True,
    },
    'engines': [
        {'name': 'runner', 'path': 'vlib/core.py', 'serves_properties': [c['property_id'] for c in checks],
         'kind_free_text': 'Hypothesis-driven case generation (JSON specs) + executors with independent oracles; sharded fresh processes; collect-then-continue; known-findings; replay files'},
    ],
    'checks': checks,
    'not_applicable': na,
    'notes': 'VERIF_SEED selects the Hypothesis seed; VERIF_SC3_PATH (default /repo) selects the tree under test; exit 0 held / 1 VIOLATION / 2 harness error.',
}
extra = os.path.join(ROOT, 'tools', 'engines.json')
if os.path.exists(extra):
    man['engines'] += json.load(open(extra))
json.dump(man, open(os.path.join(ROOT, 'MANIFEST.json'), 'w'), indent=1)
print(len(checks), 'checks;', len(na), 'not applicable')
