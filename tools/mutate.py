#!/venv/bin/python
"""Sensitivity self-test (DESIGN.md 1.4): apply named source mutations to a
scratch copy of /repo/sc3 and confirm the quick check of the property exits 1.

usage: tools/mutate.py C09 [name ...]     (mutations/<ID>.json lists them)
Each mutation: {"name", "file", "find", "replace"[, "count"]}; `find` must
occur exactly `count` (default 1) times. Scratch copies live under /tmp and are
removed when done. Results are appended to stdout as a table.
"""
import json, os, shutil, subprocess, sys, tempfile
from concurrent.futures import ThreadPoolExecutor

ROOT = os.path.dirname(os.path.dirname(os.path.abspath(__file__)))


def run_one(pid, m, tier):
    tmp = tempfile.mkdtemp(prefix=f'mut_{pid}_')
    try:
        shutil.copytree('/repo/sc3', os.path.join(tmp, 'sc3'),
                        ignore=shutil.ignore_patterns('__pycache__'))
        path = os.path.join(tmp, m['file'])
        src = open(path).read()
        cnt = src.count(m['find'])
        if cnt != m.get('count', 1):
            return m['name'], 'BAD-MUTATION', f"find occurs {cnt}x"
        open(path, 'w').write(src.replace(m['find'], m['replace']))
        env = dict(os.environ, VERIF_SC3_PATH=tmp,
                   VERIF_OUT=os.path.join(tmp, 'out'))
        os.makedirs(env['VERIF_OUT'])
        r = subprocess.run([os.path.join(ROOT, 'check'), pid, '--tier', tier],
                           env=env, capture_output=True, text=True)
        lines = [l for l in r.stdout.splitlines() if l.startswith('VIOLATION')]
        if r.returncode == 1:
            return m['name'], 'KILLED', lines[0][:200] if lines else ''
        if r.returncode == 0:
            return m['name'], 'SURVIVED', ''
        return m['name'], f'ERROR rc={r.returncode}', (r.stdout + r.stderr)[-600:]
    finally:
        shutil.rmtree(tmp, ignore_errors=True)


def main():
    pid = sys.argv[1].upper()
    names = set(sys.argv[2:])
    tier = os.environ.get('VERIF_TIER', 'quick')
    muts = json.load(open(os.path.join(ROOT, 'mutations', pid + '.json')))
    muts = [m for m in muts if not names or m['name'] in names]
    with ThreadPoolExecutor(4) as ex:
        res = list(ex.map(lambda m: run_one(pid, m, tier), muts))
    bad = 0
    for name, status, info in res:
        print(f'{pid} {name:40s} {status} {info}')
        bad += status != 'KILLED'
    sys.exit(1 if bad else 0)


if __name__ == '__main__':
    main()
