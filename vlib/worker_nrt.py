"""NRT worker: a separate interpreter running programs of the DSL in
non-real-time mode (used for the determinism clause of C10).
stdin: {'prog': {...}} per line; stdout: {'trace', 'score', 'raw' hex}."""
import json
import os
import sys


def main():
    sc3_path = sys.argv[1]
    root = os.path.dirname(os.path.dirname(os.path.abspath(__file__)))
    sys.path.insert(0, root)
    sys.path.insert(0, sc3_path)
    out = os.fdopen(os.dup(1), 'w')
    os.dup2(2, 1)
    import logging
    import sc3
    sc3.init('nrt', verbosity='CRITICAL', blocking=True)
    logging.getLogger().setLevel(logging.CRITICAL + 10)
    from vlib import prog
    out.write(json.dumps({'ready': os.path.dirname(sc3.__file__)}) + '\n')
    out.flush()
    for line in sys.stdin:
        req = json.loads(line)
        try:
            r = prog.run_nrt(req['prog'])
            rep = {'trace': r['trace'], 'score': r['score'],
                   'raw': r['raw'].hex(), 'elapsed': r['elapsed']}
        except Exception as e:
            import traceback
            rep = {'error': f'{type(e).__name__}: {e}',
                   'tb': traceback.format_exc()[-1500:]}
        out.write(json.dumps(rep, default=repr) + '\n')
        out.flush()
    os._exit(0)


if __name__ == '__main__':
    main()
