"""E2 - independent reference OSC 1.0 codec (DESIGN.md section 2, E2).

Written from the text of "The Open Sound Control 1.0 Specification"
(M. Wright, 2002), not from sc3/python-osc.  Shared by C06 C07 C14 C17 C18.
No sc3 import, no third party import; pure functions only.

Wire format (spec, "Atomic Data Types", "OSC Packets", "OSC Messages",
"OSC Bundles"):

* int32      32-bit big-endian two's complement
* timetag    64-bit big-endian fixed point (32 bit seconds since 1900-01-01,
             32 bit fraction); the value 1 means "immediately"
* float32    32-bit big-endian IEEE 754
* OSC-string non-null ASCII characters, one null, then 0-3 further nulls so
             that the total length is a multiple of 4
* OSC-blob   int32 byte count, that many bytes, 0-3 zero bytes of padding
* message    address pattern (OSC-string starting with '/'), type tag string
             (OSC-string starting with ','), then the arguments in tag order
* bundle     OSC-string "#bundle", timetag, then zero or more elements, each
             an int32 size (a multiple of 4) followed by that many bytes that
             are themselves a message or a bundle
* a packet is a message or a bundle; its size is a multiple of 4

Type tags understood: i f s b (standard) and h t d S c r m T F N I [ ]
(the spec's table of non-standard tags).

Decoded structure
-----------------
    Message(address: str, tags: str, args: list)     tags without the comma
    Bundle(timetag: int, elements: list[Message | Bundle])

Argument values by tag: i,h,r,t -> int; f,d -> float; s,S,c -> str;
b -> bytes; m -> tuple of 4 ints; T -> True; F -> False; N -> None;
I -> IMPULSE; [ ... ] -> list (nested).  `tags` keeps the exact type tag
string, so 1 / 1.0 / True / a timetag are never confused.

Strings are decoded as UTF-8 (a superset of the spec's ASCII; SuperCollider
sends UTF-8); `decode_packet(..., ascii_only=True)` enforces the letter of the
spec.

Public API
----------
    encode_message(address, args=(), tags=None) -> bytes
    encode_bundle(timetag, elements) -> bytes
    encode_packet(Message | Bundle) -> bytes
    decode_packet(data, ...) -> Message | Bundle        (strict)
    decode_message(data, ...), decode_bundle(data, ...)
    message_size(address, args, tags=None), bundle_size(elements)
    pad4, string_size, blob_size                         (size arithmetic)
    flatten(packet) -> [(timetag | None, Message)]
    to_plain(packet) -> JSON-able nested lists
    same_value(a, b), same_packet(a, b)                  (NaN/-0.0/type aware)
    split_size_prefixed(data) -> [bytes]                 (TCP / NRT score files)
    seconds_to_timetag, timetag_to_seconds, IMMEDIATELY
"""

import struct
from collections import namedtuple
from fractions import Fraction

__all__ = [
    'OscError', 'OscEncodeError', 'OscDecodeError', 'Message', 'Bundle',
    'Typed', 'IMPULSE', 'IMMEDIATELY', 'BUNDLE_TAG', 'pad4', 'string_size',
    'blob_size', 'encode_string', 'encode_blob', 'encode_int32',
    'encode_float32', 'encode_timetag', 'encode_message', 'encode_bundle',
    'encode_packet', 'decode_packet', 'decode_message', 'decode_bundle',
    'message_size', 'bundle_size', 'packet_size', 'flatten', 'to_plain',
    'same_value', 'same_packet', 'split_size_prefixed', 'join_size_prefixed',
    'seconds_to_timetag', 'timetag_to_seconds', 'f32', 'infer_tag',
    'INT32_MIN', 'INT32_MAX',
]

IMMEDIATELY = 1
BUNDLE_TAG = b'#bundle\x00'
INT32_MIN, INT32_MAX = -2 ** 31, 2 ** 31 - 1
INT64_MIN, INT64_MAX = -2 ** 63, 2 ** 63 - 1
UINT64_MAX = 2 ** 64 - 1
NTP_1970 = 2208988800          # seconds from 1900-01-01 to 1970-01-01


class OscError(ValueError):
    pass


class OscEncodeError(OscError):
    """The value has no OSC 1.0 representation."""


class OscDecodeError(OscError):
    """The bytes are not a well-formed OSC 1.0 packet."""


Message = namedtuple('Message', 'address tags args')
Bundle = namedtuple('Bundle', 'timetag elements')
Typed = namedtuple('Typed', 'tag value')   # explicit tag for the encoder


class _Impulse:
    __slots__ = ()

    def __repr__(self):
        return 'IMPULSE'


IMPULSE = _Impulse()


# --- sizes -------------------------------------------------------------------

def pad4(n):
    """Smallest multiple of 4 that is >= n."""
    return (n + 3) & ~3


def string_size(s):
    """Encoded size of an OSC-string: bytes + at least one null, to 4."""
    n = len(s.encode('utf-8')) if isinstance(s, str) else len(s)
    return pad4(n + 1)


def blob_size(b):
    """Encoded size of an OSC-blob (count + data + padding); b: bytes | int."""
    n = b if isinstance(b, int) else len(b)
    return 4 + pad4(n)


# --- atomic encoders -----------------------------------------------------------

def encode_string(s):
    raw = s.encode('utf-8') if isinstance(s, str) else bytes(s)
    if b'\x00' in raw:
        raise OscEncodeError('OSC-string cannot contain a null character')
    return raw + b'\x00' * (pad4(len(raw) + 1) - len(raw))


def encode_blob(b):
    raw = bytes(b)
    if len(raw) > INT32_MAX:
        raise OscEncodeError('blob too long')
    return struct.pack('>i', len(raw)) + raw + b'\x00' * (pad4(len(raw))
                                                          - len(raw))


def encode_int32(v):
    if isinstance(v, bool) or not isinstance(v, int):
        raise OscEncodeError(f'not an int: {v!r}')
    if not INT32_MIN <= v <= INT32_MAX:
        raise OscEncodeError(f'int out of int32 range: {v}')
    return struct.pack('>i', v)


def f32(x):
    """x rounded to the nearest IEEE 754 binary32 (as a Python float);
    finite values beyond the binary32 range raise OscEncodeError."""
    try:
        return struct.unpack('>f', struct.pack('>f', x))[0]
    except (OverflowError, struct.error) as e:
        raise OscEncodeError(f'float not representable in 32 bits: {x!r}') \
            from e


def encode_float32(x):
    if isinstance(x, bool) or not isinstance(x, (int, float)):
        raise OscEncodeError(f'not a number: {x!r}')
    try:
        return struct.pack('>f', x)
    except (OverflowError, struct.error) as e:
        raise OscEncodeError(f'float not representable in 32 bits: {x!r}') \
            from e


def encode_timetag(t):
    if isinstance(t, bool) or not isinstance(t, int) \
            or not 0 <= t <= UINT64_MAX:
        raise OscEncodeError(f'timetag must be an unsigned 64 bit int: {t!r}')
    return struct.pack('>Q', t)


def seconds_to_timetag(unix_seconds):
    """Exact (floor) NTP timetag of a time given in seconds since 1970."""
    return int((Fraction(unix_seconds) + NTP_1970) * 2 ** 32)


def timetag_to_seconds(tt):
    """Seconds since 1970 as an exact Fraction."""
    return Fraction(tt, 2 ** 32) - NTP_1970


# --- message -------------------------------------------------------------------

def infer_tag(v):
    """OSC 1.0 tag for a plain Python value (lists become arrays)."""
    if isinstance(v, Typed):
        return v.tag
    if v is True:
        return 'T'
    if v is False:
        return 'F'
    if v is None:
        return 'N'
    if v is IMPULSE:
        return 'I'
    if isinstance(v, int):
        return 'i'
    if isinstance(v, float):
        return 'f'
    if isinstance(v, str):
        return 's'
    if isinstance(v, (bytes, bytearray, memoryview)):
        return 'b'
    if isinstance(v, (list, tuple)):
        return '[' + ''.join(infer_tag(x) for x in v) + ']'
    raise OscEncodeError(f'no OSC type for {type(v).__name__}')


def _encode_arg(tag, v):
    if tag == 'i':
        return encode_int32(v)
    if tag == 'f':
        return encode_float32(v)
    if tag in 'sS':
        if not isinstance(v, (str, bytes)):
            raise OscEncodeError(f'not a string: {v!r}')
        return encode_string(v)
    if tag == 'b':
        if not isinstance(v, (bytes, bytearray, memoryview)):
            raise OscEncodeError(f'not bytes: {v!r}')
        return encode_blob(v)
    if tag == 'h':
        if isinstance(v, bool) or not isinstance(v, int) \
                or not INT64_MIN <= v <= INT64_MAX:
            raise OscEncodeError(f'not an int64: {v!r}')
        return struct.pack('>q', v)
    if tag == 't':
        return encode_timetag(v)
    if tag in 'dcrm':
        try:
            if tag == 'd':
                return struct.pack('>d', v)
            if tag == 'c':
                return struct.pack('>I', ord(v))
            if tag == 'r':
                return struct.pack('>I', v)
            if len(v) != 4 or any(not 0 <= x <= 255 for x in v):
                raise OscEncodeError(f'not a MIDI message: {v!r}')
            return bytes(v)
        except (struct.error, TypeError, ValueError, OverflowError) as e:
            if isinstance(e, OscEncodeError):
                raise
            raise OscEncodeError(f'bad value for tag {tag!r}: {v!r}') from e
    if tag in 'TFNI':
        return b''
    raise OscEncodeError(f'unknown type tag {tag!r}')


def _flatten_args(args, tags_out, data_out, tagiter=None):
    for v in args:
        if isinstance(v, Typed):
            tags_out.append(v.tag)
            data_out.append(_encode_arg(v.tag, v.value))
        elif isinstance(v, (list, tuple)):
            tags_out.append('[')
            _flatten_args(v, tags_out, data_out)
            tags_out.append(']')
        else:
            t = infer_tag(v)
            tags_out.append(t)
            data_out.append(_encode_arg(t, v))


def _check_address(address):
    if not isinstance(address, str) or not address.startswith('/'):
        raise OscEncodeError(f'address must start with "/": {address!r}')


def encode_message(address, args=(), tags=None):
    """Encode one message.

    args: Python values typed by `infer_tag` (int->i, float->f, str->s,
    bytes->b, True/False/None->T/F/N, list->array) or `Typed(tag, value)`.
    tags: optional explicit type tag string (without comma, may contain
    brackets); args is then the flat list of values of the data-carrying and
    T/F/N/I tags in order (value ignored for the latter).
    """
    _check_address(address)
    if tags is None:
        tl, dl = [], []
        _flatten_args(list(args), tl, dl)
        tagstr = ''.join(tl)
        data = b''.join(dl)
    else:
        tagstr = tags
        depth = 0
        it = iter(args)
        dl = []
        for t in tags:
            if t == '[':
                depth += 1
            elif t == ']':
                depth -= 1
                if depth < 0:
                    raise OscEncodeError('unbalanced ] in type tags')
            else:
                try:
                    dl.append(_encode_arg(t, next(it)))
                except StopIteration:
                    raise OscEncodeError('fewer args than type tags')
        if depth:
            raise OscEncodeError('unbalanced [ in type tags')
        if next(it, it) is not it:
            raise OscEncodeError('more args than type tags')
        data = b''.join(dl)
    return encode_string(address) + encode_string(',' + tagstr) + data


def encode_packet(p):
    """Message | Bundle | bytes -> bytes."""
    if isinstance(p, (bytes, bytearray, memoryview)):
        return bytes(p)
    if isinstance(p, Message):
        return encode_message(p.address, _retag(p.tags, p.args), None)
    if isinstance(p, Bundle):
        return encode_bundle(p.timetag, p.elements)
    raise OscEncodeError(f'not a packet: {type(p).__name__}')


def _retag(tags, args):
    """Rebuild Typed args (nested) from a decoded Message's tags + args."""
    pos = 0

    def walk(values):
        nonlocal pos
        out = []
        for v in values:
            t = tags[pos]
            pos += 1
            if t == '[':
                out.append(walk(v))
                if tags[pos] != ']':
                    raise OscEncodeError('tags/args mismatch')
                pos += 1
            else:
                out.append(Typed(t, v))
        return out
    res = walk(args)
    if pos != len(tags):
        raise OscEncodeError('tags/args mismatch')
    return res


def encode_bundle(timetag, elements):
    """elements: already encoded bytes, Message or Bundle objects."""
    out = [BUNDLE_TAG, encode_timetag(timetag)]
    for e in elements:
        raw = encode_packet(e)
        if len(raw) % 4:
            raise OscEncodeError('bundle element size not a multiple of 4')
        out.append(struct.pack('>i', len(raw)))
        out.append(raw)
    return b''.join(out)


def message_size(address, args=(), tags=None):
    """Size in bytes of the encoded message, by arithmetic (no encoding)."""
    if tags is None:
        tl = []

        def count(values):
            n = 0
            for v in values:
                if isinstance(v, (list, tuple)) and not isinstance(v, Typed):
                    tl.append('[')
                    n += count(v)
                    tl.append(']')
                else:
                    t = infer_tag(v)
                    tl.append(t)
                    n += _arg_size(t, v.value if isinstance(v, Typed) else v)
            return n
        data = count(list(args))
        ntags = len(tl)
    else:
        it = iter(args)
        data = sum(_arg_size(t, next(it)) for t in tags if t not in '[]')
        ntags = len(tags)
    return string_size(address) + pad4(1 + ntags + 1) + data


def _arg_size(tag, v):
    if tag in 'ifcrm':
        return 4
    if tag in 'htd':
        return 8
    if tag in 'sS':
        return string_size(v)
    if tag == 'b':
        return blob_size(v)
    if tag in 'TFNI':
        return 0
    raise OscEncodeError(f'unknown type tag {tag!r}')


def packet_size(p):
    if isinstance(p, (bytes, bytearray, memoryview)):
        return len(p)
    if isinstance(p, Message):
        return message_size(p.address, _retag(p.tags, p.args))
    if isinstance(p, Bundle):
        return bundle_size(p.elements)
    raise OscEncodeError(f'not a packet: {type(p).__name__}')


def bundle_size(elements):
    """Size of a bundle datagram: 8 ("#bundle") + 8 (timetag) + per element
    4 (size prefix) + element size. elements: bytes | Message | Bundle | int
    (an int is taken as the element's encoded size)."""
    return 16 + sum(4 + (e if isinstance(e, int) else packet_size(e))
                    for e in elements)


# --- decoder (strict) ------------------------------------------------------------

class _Reader:
    def __init__(self, data, ascii_only):
        self.d = data
        self.i = 0
        self.ascii_only = ascii_only

    def take(self, n, what):
        if n < 0 or self.i + n > len(self.d):
            raise OscDecodeError(f'truncated {what} at offset {self.i}')
        b = self.d[self.i:self.i + n]
        self.i += n
        return b

    def string(self, what='string'):
        start = self.i
        end = self.d.find(b'\x00', start)
        if end < 0:
            raise OscDecodeError(f'unterminated {what} at offset {start}')
        raw = self.d[start:end]
        total = pad4(len(raw) + 1)
        chunk = self.take(total, what)
        if any(chunk[len(raw):]):
            raise OscDecodeError(f'non-zero padding in {what} at {start}')
        try:
            return raw.decode('ascii' if self.ascii_only else 'utf-8')
        except UnicodeDecodeError as e:
            raise OscDecodeError(f'bad characters in {what} at {start}') \
                from e

    def blob(self):
        start = self.i
        n = struct.unpack('>i', self.take(4, 'blob size'))[0]
        if n < 0:
            raise OscDecodeError(f'negative blob size at offset {start}')
        chunk = self.take(pad4(n), 'blob')
        if any(chunk[n:]):
            raise OscDecodeError(f'non-zero blob padding at offset {start}')
        return bytes(chunk[:n])


def decode_message(data, ascii_only=False, allow_missing_tags=False):
    data = bytes(data)
    if len(data) % 4:
        raise OscDecodeError('message size is not a multiple of 4')
    r = _Reader(data, ascii_only)
    address = r.string('address')
    if not address.startswith('/'):
        raise OscDecodeError('address does not start with "/"')
    if r.i == len(data):
        if allow_missing_tags:
            return Message(address, '', [])
        raise OscDecodeError('missing type tag string')
    tags = r.string('type tag string')
    if not tags.startswith(','):
        raise OscDecodeError('type tag string does not start with ","')
    tags = tags[1:]
    stack = [[]]
    for t in tags:
        if t == 'i':
            v = struct.unpack('>i', r.take(4, 'int32'))[0]
        elif t == 'f':
            v = struct.unpack('>f', r.take(4, 'float32'))[0]
        elif t in 'sS':
            v = r.string()
        elif t == 'b':
            v = r.blob()
        elif t == 'h':
            v = struct.unpack('>q', r.take(8, 'int64'))[0]
        elif t == 't':
            v = struct.unpack('>Q', r.take(8, 'timetag'))[0]
        elif t == 'd':
            v = struct.unpack('>d', r.take(8, 'float64'))[0]
        elif t == 'c':
            code = struct.unpack('>I', r.take(4, 'char'))[0]
            if code > 0x10FFFF:
                raise OscDecodeError(f'char argument out of range: {code}')
            v = chr(code)
        elif t == 'r':
            v = struct.unpack('>I', r.take(4, 'rgba'))[0]
        elif t == 'm':
            v = tuple(r.take(4, 'midi'))
        elif t == 'T':
            v = True
        elif t == 'F':
            v = False
        elif t == 'N':
            v = None
        elif t == 'I':
            v = IMPULSE
        elif t == '[':
            new = []
            stack[-1].append(new)
            stack.append(new)
            continue
        elif t == ']':
            if len(stack) < 2:
                raise OscDecodeError('unbalanced ] in type tag string')
            stack.pop()
            continue
        else:
            raise OscDecodeError(f'unknown type tag {t!r}')
        stack[-1].append(v)
    if len(stack) != 1:
        raise OscDecodeError('unbalanced [ in type tag string')
    if r.i != len(data):
        raise OscDecodeError(
            f'{len(data) - r.i} trailing bytes after the last argument')
    return Message(address, tags, stack[0])


def decode_bundle(data, ascii_only=False, allow_missing_tags=False,
                  check_nested_time=False, _outer=None):
    data = bytes(data)
    if len(data) % 4:
        raise OscDecodeError('bundle size is not a multiple of 4')
    if data[:8] != BUNDLE_TAG:
        raise OscDecodeError('bundle does not start with "#bundle\\0"')
    if len(data) < 16:
        raise OscDecodeError('truncated bundle header')
    timetag = struct.unpack('>Q', data[8:16])[0]
    if check_nested_time and _outer is not None and timetag < _outer:
        raise OscDecodeError('nested bundle timetag earlier than enclosing')
    i = 16
    elements = []
    while i < len(data):
        if i + 4 > len(data):
            raise OscDecodeError('truncated bundle element size')
        n = struct.unpack('>i', data[i:i + 4])[0]
        i += 4
        if n < 0 or n % 4:
            raise OscDecodeError(f'bad bundle element size {n}')
        if i + n > len(data):
            raise OscDecodeError('bundle element runs past the bundle')
        if n == 0:
            raise OscDecodeError('empty bundle element')
        elements.append(decode_packet(
            data[i:i + n], ascii_only, allow_missing_tags,
            check_nested_time, _outer=timetag))
        i += n
    return Bundle(timetag, elements)


def decode_packet(data, ascii_only=False, allow_missing_tags=False,
                  check_nested_time=False, _outer=None):
    """Strictly decode one OSC packet (a message or a bundle) occupying
    exactly `data`; raises OscDecodeError on any deviation from OSC 1.0
    (alignment, padding, sizes, trailing bytes, unbalanced arrays...)."""
    data = bytes(data)
    if not data:
        raise OscDecodeError('empty packet')
    if data[:1] == b'#':
        return decode_bundle(data, ascii_only, allow_missing_tags,
                             check_nested_time, _outer)
    if data[:1] == b'/':
        return decode_message(data, ascii_only, allow_missing_tags)
    raise OscDecodeError('packet is neither a message nor a bundle')


# --- stream framing (OSC over TCP, scsynth NRT score files) -----------------------

def split_size_prefixed(data):
    """[int32 size][packet]... -> list of packet bytes (strict)."""
    data = bytes(data)
    out = []
    i = 0
    while i < len(data):
        if i + 4 > len(data):
            raise OscDecodeError('truncated size prefix')
        n = struct.unpack('>i', data[i:i + 4])[0]
        i += 4
        if n <= 0 or i + n > len(data):
            raise OscDecodeError(f'bad packet size {n} at offset {i - 4}')
        out.append(data[i:i + n])
        i += n
    return out


def join_size_prefixed(packets):
    return b''.join(struct.pack('>i', len(p)) + bytes(p) for p in packets)


# --- views and comparison ---------------------------------------------------------

def flatten(p, _time=None):
    """Depth-first list of (timetag of the innermost enclosing bundle or
    None, Message)."""
    if isinstance(p, Message):
        return [(_time, p)]
    out = []
    for e in p.elements:
        out.extend(flatten(e, p.timetag))
    return out


def _plain_value(v):
    if isinstance(v, bytes):
        return {'blob': v.hex()}
    if isinstance(v, float):
        return {'float': v.hex()} if v != v or v in (
            float('inf'), float('-inf')) else v
    if isinstance(v, (list, tuple)):
        return [_plain_value(x) for x in v]
    if v is IMPULSE:
        return {'impulse': True}
    return v


def to_plain(p):
    """JSON-able view: ['msg', addr, tags, args] | ['bundle', tt, [elems]]."""
    if isinstance(p, Message):
        return ['msg', p.address, p.tags, _plain_value(p.args)]
    return ['bundle', p.timetag, [to_plain(e) for e in p.elements]]


def same_value(a, b):
    """Equality of decoded argument values: same type, floats compared by
    bit pattern of the double (so NaN == NaN, 0.0 != -0.0), lists
    recursively."""
    if isinstance(a, (list, tuple)) and isinstance(b, (list, tuple)):
        return len(a) == len(b) and all(same_value(x, y)
                                        for x, y in zip(a, b))
    if type(a) is not type(b):
        return False
    if isinstance(a, float):
        return struct.pack('>d', a) == struct.pack('>d', b)
    return a == b


def same_packet(a, b):
    if isinstance(a, Message) and isinstance(b, Message):
        return (a.address == b.address and a.tags == b.tags
                and same_value(a.args, b.args))
    if isinstance(a, Bundle) and isinstance(b, Bundle):
        return (a.timetag == b.timetag
                and len(a.elements) == len(b.elements)
                and all(same_packet(x, y)
                        for x, y in zip(a.elements, b.elements)))
    return False
