"""Reference semantics of the program DSL (see vlib/prog.py): a discrete-event
simulation over exact rationals, written from the documented behaviour of
routines, clocks, conditions and flow variables (docs/guides, docstrings of
sc3.base.clock / sc3.base.stream). It is the oracle for C05 C07 C10.

Time-ordered semantics: every clock keeps its pending wake-ups ordered by
its own time unit (seconds for SystemClock/AppClock, beats for TempoClocks)
with first-in-first-out order among equal times; a tempo/beats change
re-maps beats to seconds from the current instant on; the routine
re-scheduled by a numeric yield wakes `delta` units after its *scheduled*
time; a routine re-played while it still has a pending wake-up on that clock
is moved, not duplicated.
"""

from fractions import Fraction as F
import math


def fr(x):
    return x if isinstance(x, F) else F(x)


class Ambiguous(Exception):
    """The program's outcome depends on the order of simultaneous events on
    different clocks or on float rounding at a grid point; the generator
    avoids this, the model detects it."""


class TClock:
    def __init__(self, tempo, beats, now):
        self.tempo = fr(tempo)
        self.base_secs = fr(now)
        self.base_beats = fr(beats) if beats is not None else F(0)
        self.bpb = F(4)
        self.base_bar_beat = F(0)
        self.base_bar = F(0)

    def secs2beats(self, s):
        return (fr(s) - self.base_secs) * self.tempo + self.base_beats

    def beats2secs(self, b):
        return (fr(b) - self.base_beats) / self.tempo + self.base_secs

    def next_time_on_grid(self, quant, phase, ref):
        quant, phase, ref = fr(quant), fr(phase), fr(ref)
        if quant == 0:
            return ref + phase
        # earliest beat r >= ref with r - base_bar_beat == phase (mod quant)
        x = ref - self.base_bar_beat - phase
        ratio = x / quant
        if ratio != round(ratio) and abs(ratio - round(ratio)) < F(1, 10**7):
            # only with inexact (non-dyadic) tempos: a beat that is on the
            # grid up to rounding error; which side ceil() falls on is not
            # defined by the property
            raise Ambiguous('reference beat on the grid up to rounding')
        t = self.tempo
        pow2 = lambda n: n & (n - 1) == 0
        if ratio == round(ratio) and ref != self.base_beats and not (
                pow2(t.numerator) and pow2(t.denominator)):
            # exactly on the grid in rational arithmetic, but the library
            # converts seconds to beats in floats with a tempo (or beat
            # duration) that has no exact double: the reference beat may
            # come out one ulp above the grid point (then the next grid
            # point is taken) or not
            raise Ambiguous('grid point through an inexact tempo')
        k = math.ceil(ratio)
        return k * quant + self.base_bar_beat + phase


class R:
    def __init__(self, name, body):
        self.name = name
        self.body = body
        self.pc = 0
        self.state = 'init'
        self.clock = 'sys'
        self.waiting = None      # ('c', k) | ('f', k)
        self.resume_value = None


class Model:
    def __init__(self, prog, until=None, interacting=None, hand_times=()):
        if interacting is not None:
            self.INTERACTING = set(interacting)
        self.recent = []      # (time, clock, interacted, no) of recent steps
        self.step_no = 0
        self.current_step = None   # the step that is being performed
        self.hand_times = list(hand_times)
        self.hand_calls = 0
        self.prog = prog
        self.now = F(0)
        self.trace = []
        self.bundles = []
        self.seq = 0
        self.queue = []      # dict(clock, key, seq, r)
        self.clocks = [TClock(c['tempo'], c.get('beats'), 0)
                       for c in prog.get('clocks', [])]
        self.routines = {n: R(n, r['body'])
                         for n, r in prog['routines'].items()}
        self.cond_test = [False] * 4
        self.cond_wait = [[] for _ in range(4)]
        self.flow_val = [None] * 4
        self.flow_set = [False] * 4
        self.flow_wait = [[] for _ in range(4)]
        self.errors = []
        self.until = until
        self.last_event = F(0)
        self.steps = 0

    # -- clocks ------------------------------------------------------------------
    def key_to_secs(self, clock, key):
        if clock in ('sys', 'app'):
            return key
        return self.clocks[clock].beats2secs(key)

    def secs_to_key(self, clock, secs):
        if clock in ('sys', 'app'):
            return secs
        return self.clocks[clock].secs2beats(secs)

    def sched(self, clock, key, rname):
        # a task already pending on this clock is moved (TaskQueue.add)
        self.queue = [e for e in self.queue
                      if not (e['r'] == rname and e['clock'] == clock)]
        self.queue.append({'clock': clock, 'key': key, 'seq': self.seq,
                           'r': rname, 'by': self.current_step})
        self.seq += 1

    def play_on(self, rname, clock, quant, now):
        """clock.play(routine, quant) at logical time `now`."""
        if clock in ('sys', 'app'):
            self.sched(clock, now, rname)
            return
        c = self.clocks[clock]
        if quant is None:
            q, ph = 1, 0
        elif isinstance(quant, (list, tuple)):
            q, ph = (list(quant) + [0])[:2]
        else:
            q, ph = quant, 0
        key = c.next_time_on_grid(q, ph, c.secs2beats(now))
        self.sched(clock, key, rname)

    # -- ops -----------------------------------------------------------------------
    def do(self, who, op, now):
        """Returns None | ('yield', v) | ('hang',) ."""
        k = op[0]
        wclock = self.routines[who].clock if who else 'sys'
        if k == 'log':
            beats = None if wclock in ('sys', 'app') else \
                self.clocks[wclock].secs2beats(now)
            self.trace.append({'kind': 'log', 'r': who, 'tag': op[1],
                               'secs': now, 'beats': beats, 'clock': wclock})
        elif k in ('wait', 'yield'):
            return ('yield', op[1])
        elif k == 'play':
            r = self.routines[op[1]]
            if r.state in ('init', 'paused'):
                r.state = 'suspended'
                clock = op[2] if op[2] is not None else wclock
                r.clock = clock
                self.play_on(r.name, clock, op[3], now)
        elif k == 'sched':
            r = self.routines[op[3]]
            clock = op[1] if op[1] is not None else wclock
            if r.state == 'init':
                r.state = 'suspended'
            r.clock = clock
            self.sched(clock, self.secs_to_key(clock, now) + fr(op[2]),
                       r.name)
        elif k == 'pause':
            r = self.routines[op[1]]
            if r.name == who:
                self.trace.append({'kind': 'self_refused', 'r': who,
                                   'op': op, 'secs': now})
            elif r.state in ('init', 'suspended'):
                r.state = 'paused'
        elif k == 'resume':
            r = self.routines[op[1]]
            if r.state == 'paused' and r.waiting is not None:
                # resuming a routine that hangs on a condition lets it run
                # past the wait: an interplay no documentation defines
                raise Ambiguous('resume of a routine hanging on a condition')
            if r.state == 'paused':
                r.state = 'suspended'
                self.play_on(r.name, r.clock, None, now)
        elif k == 'stop':
            r = self.routines[op[1]]
            if r.name == who:
                self.trace.append({'kind': 'self_refused', 'r': who,
                                   'op': op, 'secs': now})
            else:
                r.state = 'done'
                r.clock = 'sys'
                r.waiting = None
        elif k == 'tempo':
            c = self.clocks[op[1]]
            b = c.secs2beats(now)
            c.base_secs, c.base_beats, c.tempo = fr(now), b, fr(op[2])
        elif k == 'etempo':
            # (NRT: elapsed time is the logical time) same re-basing as tempo
            c = self.clocks[op[1]]
            c.base_beats = c.secs2beats(now)
            c.base_secs = fr(now)
            c.tempo = fr(op[2])
        elif k == 'busy':
            pass        # physical time only
        elif k == 'next':
            # stepped by hand from the main thread, whose logical time is
            # the physical time of the call (given by the harness in RT)
            i = self.hand_calls
            self.hand_calls += 1
            t = fr(self.hand_times[i]) if i < len(self.hand_times) else now
            r = self.routines[op[1]]
            if r.state in ('init', 'suspended'):
                r.clock = 'sys'
                self.run_routine(r, t)
        elif k == 'beats':
            c = self.clocks[op[1]]
            c.base_secs, c.base_beats = fr(now), fr(op[2])
        elif k == 'beats_add':
            c = self.clocks[op[1]]
            c.base_secs, c.base_beats = fr(now), c.secs2beats(now) + fr(op[2])
        elif k == 'meter':
            c = self.clocks[op[1]]
            b = c.secs2beats(now)
            bars = (b - c.base_bar_beat) / c.bpb + c.base_bar
            c.base_bar = F(math.floor(bars + F(1, 2)))   # round to nearest
            c.base_bar_beat = b
            c.bpb = fr(op[2])
        elif k == 'msg':
            self.bundles.append({'time': now, 'lat': 0, 'who': who,
                                 'elems': [['/m', op[1]]], 'msg': True,
                                 'embed': op[2] if len(op) > 2 else None})
        elif k == 'bundle':
            for _ in range(2 if len(op) > 3 and op[3] == 'twice' else 1):
                if self.bundle_ok(op[1], op[2]):
                    self.bundles.append({'time': now, 'lat': op[1],
                                         'who': who, 'elems': op[2],
                                         'msg': False})
                else:
                    self.trace.append({'kind': 'refused', 'r': who, 'op': op,
                                       'secs': now})
        elif k == 'cwait':
            if not self.cond_test[op[1]]:
                self.cond_wait[op[1]].append(who)
                return ('hang', ('c', op[1]))
            return ('yield', 0)
        elif k == 'csignal':
            if self.cond_test[op[1]]:
                self.release(self.cond_wait[op[1]], now)
        elif k == 'ctest':
            self.cond_test[op[1]] = op[2]
        elif k == 'cunhang':
            self.release(self.cond_wait[op[1]], now)
        elif k == 'fwait':
            if not self.flow_set[op[1]]:
                self.flow_wait[op[1]].append(who)
                return ('hang', ('f', op[1]))
            return ('yield', 0)
        elif k == 'fset':
            if self.flow_set[op[1]]:
                self.trace.append({'kind': 'rebind_refused', 'r': who,
                                   'k': op[1], 'secs': now})
            else:
                self.flow_set[op[1]] = True
                self.flow_val[op[1]] = op[2]
                self.release(self.flow_wait[op[1]], now)
        elif k in ('seed', 'rand'):
            self.trace.append({'kind': k, 'r': who, 'op': op, 'secs': now})
        elif k == 'raise':
            return ('raise', op[1])
        else:
            raise ValueError(op)
        return None

    def release(self, waiters, now):
        names = list(waiters)
        del waiters[:]
        for n in names:
            r = self.routines[n]
            r.waiting = None
            if r.state == 'done':
                continue
            # tt._clock.sched(0, tt): delta 0 from the caller's logical time
            self.sched(r.clock, self.secs_to_key(r.clock, now), n)

    @staticmethod
    def bundle_ok(lat, elems):
        for e in elems:
            if not isinstance(e[0], str):
                sub = e[0]
                if lat is not None:
                    if sub is None or lat > sub:
                        return False
                if not Model.bundle_ok(sub, e[1:]):
                    return False
        return True

    # -- running -------------------------------------------------------------------
    def run_routine(self, r, now):
        """Resume routine r at logical time now; returns numeric delta or
        None."""
        r.state = 'running'
        if r.pc > 0:
            prev = r.body[r.pc - 1]
            if prev[0] == 'fwait':
                self.trace.append({'kind': 'flow', 'r': r.name, 'k': prev[1],
                                   'value': self.flow_val[prev[1]],
                                   'secs': now})
        while r.pc < len(r.body):
            op = r.body[r.pc]
            r.pc += 1
            res = self.do(r.name, op, now)
            if res is None:
                continue
            if res[0] == 'yield':
                r.state = 'suspended'
                v = res[1]
                if isinstance(v, (int, float, F)) and not isinstance(v, bool):
                    return fr(v)
                return None
            if res[0] == 'hang':
                r.state = 'suspended'
                r.waiting = res[1]
                return None
            if res[0] == 'raise':
                r.state = 'done'
                self.errors.append((r.name, res[1], now))
                return None
        r.state = 'done'
        r.clock_after = r.clock
        return None

    def run(self):
        for op in self.prog['top']:
            self.do(None, op, F(0))
        while self.queue:
            self.steps += 1
            if self.steps > 5000:
                raise Ambiguous('program does not terminate')
            best = min(self.queue,
                       key=lambda e: (self.key_to_secs(e['clock'], e['key']),
                                      e['seq']))
            t = self.key_to_secs(best['clock'], best['key'])
            if self.until is not None and t > self.until:
                break
            # a task left behind by a forward jump of its clock's beats is
            # performed at once, with the logical time it was scheduled for
            phys = max(t, self.now)
            # simultaneous events on different clocks: order is unspecified
            # Events on different clocks closer than the wake-up latency a
            # real-time thread may suffer (the simulation injects up to
            # 1/64 s) have no defined order in RT.
            for e in self.queue:
                if e is not best and e['clock'] != best['clock'] and abs(
                        max(self.key_to_secs(e['clock'], e['key']),
                            self.now) - phys) \
                        <= self.WINDOW and (self.interacts(best['r']) or
                                            self.interacts(e['r'])):
                    self.simultaneous = True
            # ... also against steps that were performed already (their
            # queue entries are gone): a step of another clock performed
            # less than the window ago may, in real time, still be waiting
            # for its late thread
            acts = self.interacts(best['r'])
            self.step_no += 1
            for t0, c0, acted0, no0 in self.recent:
                # (a task left behind by a beats jump is performed at once
                # *because of* the step that jumped, a waiter is woken by
                # the step that signalled: no ambiguity between a step and
                # the step that scheduled it)
                if c0 != best['clock'] and phys - t0 <= self.WINDOW and (
                        acts or acted0) and not t < phys \
                        and best.get('by') != no0:
                    self.simultaneous = True
            self.recent = [x for x in self.recent
                           if phys - x[0] <= self.WINDOW]
            self.recent.append((phys, best['clock'], acts, self.step_no))
            self.current_step = self.step_no
            self.queue.remove(best)
            self.now = phys
            self.last_event = max(self.last_event, t)
            r = self.routines[best['r']]
            if r.state != 'suspended':
                continue        # paused / done: the wake-up is dropped
            r.clock = best['clock']
            delta = self.run_routine(r, t)
            if delta is not None and r.state == 'suspended':
                self.sched(best['clock'], best['key'] + delta, r.name)
        return self

    simultaneous = False
    WINDOW = F(1, 64)     # the largest wake-up latency the simulation injects
    # ops by which a routine changes what other routines observe; two
    # routines that only log / wait / send / wait on conditions do not
    # influence one another, whatever their relative order
    INTERACTING = {'pause', 'resume', 'stop', 'tempo', 'etempo', 'beats',
                   'beats_add', 'meter',
                   'play', 'sched', 'csignal', 'ctest', 'cunhang', 'fset'}

    def interacts(self, rname):
        """Does the routine, in the step it is about to run (up to its next
        yield), touch state shared with other routines?"""
        r = self.routines[rname]
        for op in r.body[r.pc:]:
            if op[0] in self.INTERACTING:
                return True
            if op[0] in ('wait', 'yield', 'cwait', 'fwait'):
                break
        return False
