"""Runner core shared by all checks (DESIGN.md section 1).

A check module (checks/cNN.py) exposes:

    PROPERTY   = 'C09'
    LEVEL      = 'exploration'
    RULE       = '... how cases are generated, what is non-trivial ...'
    ASSUMPTIONS = [...]
    MODE       = 'rt' | 'nrt' | None         (sc3.init mode for this process)
    def stages(ctx) -> list[Stage]
    def classify_known(stage, case, viol) -> key | None    (optional)

A Stage couples a Hypothesis strategy producing JSON-serialisable cases (or an
explicit iterable of cases for bounded-exhaustive enumeration) with an executor
`fn(case, V)`. The executor reports violations through `V.fail(kind, detail)`
(collect and continue) or by raising `Violation`; it may raise `Reject` for
inputs outside the documented domain, and returns an info dict:
`{'nontrivial': bool, 'labels': [...]}`.

Exit codes: 0 held (known findings printed), 1 new violation(s), 2 harness error.
"""

import argparse
import hashlib
import importlib
import json
import os
import subprocess
import sys
import tempfile
import time
import traceback
from collections import Counter

ROOT = os.path.dirname(os.path.dirname(os.path.abspath(__file__)))
SC3_PATH = os.environ.get('VERIF_SC3_PATH', '/repo')
OUT = os.environ.get('VERIF_OUT', ROOT)  # evidence/replays/.work root
MAX_SIGNATURES = 8
MAX_SAMPLES = 6
SHRINK_BUDGET = {'quick': 15.0, 'thorough': 90.0}  # seconds per signature


class Violation(Exception):
    def __init__(self, kind, detail=''):
        super().__init__(f'{kind}: {detail}')
        self.kind = kind
        self.detail = str(detail)[:2000]


class _StopShrink(BaseException):
    """Minimisation budget used up; escapes Hypothesis (BaseException)."""


class Reject(Exception):
    """Generated input lies outside the documented domain; not a violation."""


class HarnessError(Exception):
    pass


class V:
    """Violation collector handed to executors."""

    def __init__(self):
        self.items = []

    def fail(self, kind, detail=''):
        self.items.append(Violation(kind, detail))

    def check(self, cond, kind, detail=''):
        if not cond:
            self.items.append(Violation(
                kind, detail() if callable(detail) else detail))
        return cond


class Stage:
    def __init__(self, name, executor, strategy=None, cases=None,
                 quick=0, thorough=0, exhaustive=False, settings=None):
        self.name = name
        self.executor = executor
        self.strategy = strategy
        self.cases = cases  # callable(ctx) -> iterable, for enumeration
        self.quick = quick
        self.thorough = thorough
        self.exhaustive = exhaustive
        self.settings = settings or {}


def sc3_origin(exc):
    tb = exc.__traceback__
    last = None
    while tb is not None:
        last = tb
        tb = tb.tb_next
    if last is None:
        return None
    code = last.tb_frame.f_code
    fn = os.path.abspath(code.co_filename)
    root = os.path.join(os.path.abspath(SC3_PATH), 'sc3') + os.sep
    if fn.startswith(root):
        return f'{fn[len(root):]}:{code.co_name}'
    return None


def canon(case):
    return json.dumps(case, sort_keys=True, default=repr)


def case_hash(case):
    return hashlib.sha1(canon(case).encode()).hexdigest()


class Ctx:
    def __init__(self, mod, tier, seed, shard, nshards):
        self.mod = mod
        self.pid = mod.PROPERTY
        self.tier = tier
        self.seed = seed
        self.shard = shard
        self.nshards = nshards
        self.evaluations = 0
        self.nontrivial = set()
        self.distinct = set()
        self.labels = Counter()
        self.samples = []
        self.rejected = 0
        self.known_hits = Counter()
        self.violations = []   # dicts
        self.stage_stats = {}
        self.exhaustive = None
        self.notes = []
        self.known = load_known(self.pid)
        self.harness_errors = []

    # -- executing one case ------------------------------------------------

    def exec_case(self, stage, case, excluded):
        """Returns None, or a Violation not excluded/known."""
        self.evaluations += 1
        st = self.stage_stats.setdefault(
            stage.name, {'evaluations': 0, 'nontrivial': 0, 'rejected': 0})
        st['evaluations'] += 1
        v = V()
        info = None
        try:
            info = stage.executor(case, v)
        except Reject:
            self.rejected += 1
            st['rejected'] += 1
            return None
        except Violation as e:
            v.items.append(e)
        except Exception as e:
            # An exception born inside sc3 that the executor did not expect
            # is a violation ("must not raise"); one born in the harness is a
            # harness error (exit 2).
            where = sc3_origin(e)
            if where is None:
                raise
            v.items.append(Violation(
                f'sc3_raised:{type(e).__name__}@{where}', repr(e)))
        info = info or {}
        h = case_hash([stage.name, case])
        self.distinct.add(h)
        for lb in info.get('labels', ()):
            self.labels[f'{stage.name}:{lb}'] += 1
        if info.get('nontrivial'):
            if h not in self.nontrivial:
                self.nontrivial.add(h)
                st['nontrivial'] += 1
                if sum(1 for s in self.samples
                       if s['stage'] == stage.name) < MAX_SAMPLES:
                    self.samples.append({'stage': stage.name, 'case': case})
        classify = getattr(self.mod, 'classify_known', None)
        for viol in v.items:
            key = classify(stage.name, case, viol) if classify else None
            if key is not None and key in self.known:
                self.known_hits[key] += 1
                continue
            sig = self.signature(stage, viol)
            if sig in excluded:
                continue
            viol.sig = sig
            return viol
        return None

    @staticmethod
    def signature(stage, viol):
        return f'{stage.name}|{viol.kind}'

    # -- running a stage ---------------------------------------------------

    def count(self, stage):
        n = stage.thorough if self.tier == 'thorough' else stage.quick
        return n

    def run_stage(self, stage):
        n = self.count(stage)
        if n <= 0 and stage.cases is None:
            return
        t0 = time.time()
        if stage.cases is not None:
            self.run_enumerated(stage)
        else:
            self.run_hypothesis(stage, n)
        self.stage_stats.setdefault(stage.name, {})['wall_s'] = round(
            time.time() - t0, 2)

    def run_enumerated(self, stage):
        excluded = set()
        total = 0
        for case in stage.cases(self):  # the callable shards by ctx.shard
            total += 1
            viol = self.exec_case(stage, case, excluded)
            if viol is not None:
                self.record_violation(stage, case, viol)
                excluded.add(viol.sig)
        if stage.exhaustive:
            self.exhaustive = True if self.exhaustive is None \
                else self.exhaustive

    def run_hypothesis(self, stage, n):
        import hypothesis
        from hypothesis import given, settings, HealthCheck, Phase
        excluded = set()
        attempt = 0
        budget = SHRINK_BUDGET[self.tier]
        max_sigs = MAX_SIGNATURES if self.tier == 'thorough' else 4
        while len(excluded) < max_sigs:
            state = {}
            ctx = self

            kw = dict(
                max_examples=n, database=None, deadline=None,
                report_multiple_bugs=False, derandomize=False,
                suppress_health_check=list(HealthCheck),
                phases=[Phase.generate, Phase.target, Phase.shrink])
            kw.update(stage.settings)
            sd = (self.seed * 1000003 + self.shard * 1009 + attempt * 17
                  + (int(hashlib.sha1(stage.name.encode()).hexdigest(), 16)
                     % 997))

            @hypothesis.seed(sd)
            @settings(**kw)
            @given(stage.strategy)
            def test(case):
                viol = ctx.exec_case(stage, case, excluded)
                if viol is not None:
                    first = state.setdefault('first', viol.sig)
                    if viol.sig == first:
                        # Hypothesis only moves to smaller failing examples,
                        # so the last one seen is the best reproduction
                        state['last'] = (case, viol)
                    t0 = state.setdefault('t0', time.time())
                    if time.time() - t0 > budget:
                        raise _StopShrink()
                    raise viol

            try:
                test()
            except (Violation, _StopShrink):
                case, viol = state['last']
                self.record_violation(stage, case, viol)
                excluded.add(viol.sig)
                attempt += 1
                continue
            except Exception as e:
                # Hypothesis could not reproduce a failure it had seen (the
                # case involves real threads): the violation was observed
                # against the real code, so it is reported, marked as such.
                if 'last' in state and type(e).__name__ in (
                        'FlakyFailure', 'Flaky', 'FlakyReplay',
                        'ExceptionGroup'):
                    case, viol = state['last']
                    viol.detail = '[schedule-dependent, not reproduced on ' \
                        'immediate re-run] ' + viol.detail
                    self.record_violation(stage, case, viol)
                    excluded.add(viol.sig)
                    attempt += 1
                    continue
                raise
            break

    def record_violation(self, stage, case, viol):
        rec = {'property': self.pid, 'stage': stage.name, 'kind': viol.kind,
               'detail': viol.detail, 'case': case}
        d = os.path.join(OUT, 'replays', self.pid)
        os.makedirs(d, exist_ok=True)
        path = os.path.join(d, case_hash([stage.name, case])[:16] + '.json')
        with open(path, 'w') as f:
            json.dump(rec, f, indent=1, default=repr)
        rec['replay'] = os.path.relpath(path, ROOT) if OUT == ROOT else path
        self.violations.append(rec)

    # -- partial result ------------------------------------------------------

    def partial(self):
        return {
            'evaluations': self.evaluations,
            'nontrivial': sorted(self.nontrivial),
            'distinct': len(self.distinct),
            'labels': dict(self.labels),
            'samples': self.samples,
            'rejected': self.rejected,
            'known_hits': dict(self.known_hits),
            'violations': self.violations,
            'stage_stats': self.stage_stats,
            'exhaustive': self.exhaustive,
            'notes': self.notes,
        }


def load_known(pid):
    """Active (status == "known") findings of one property, from the
    committed file known_findings/<ID>.json; never written at run time."""
    path = os.path.join(ROOT, 'known_findings', pid + '.json')
    out = {}
    if os.path.exists(path):
        for e in json.load(open(path)).get('findings', []):
            if e.get('property') == pid and e.get('status') == 'known':
                out[e['key']] = e
    return out


def load_module(pid):
    return importlib.import_module(f'checks.{pid.lower()}')


def init_sc3(mode):
    """Import sc3 from the tree under test and initialise one mode."""
    if sys.path[0] != SC3_PATH:
        sys.path.insert(0, SC3_PATH)
    import logging
    import sc3
    if not os.path.abspath(sc3.__file__).startswith(
            os.path.abspath(SC3_PATH)):
        raise HarnessError(f'sc3 loaded from {sc3.__file__}, not {SC3_PATH}')
    if mode:
        if mode == 'rt':
            # many check processes may run side by side: widen the range of
            # UDP ports the library may bind (default is 10 from 57120)
            # and start far from the default 57120 so that the repository's
            # own tests (which open lang_port + 10) are not disturbed
            sc3.LIB_PORT = 20000 + (os.getpid() * 13) % 30000
            sc3.LIB_PORT_RANGE = 400
        sc3.init(mode, verbosity='CRITICAL', blocking=True)
        logging.getLogger().setLevel(logging.CRITICAL + 10)
    return sc3


def run_shard(mod, tier, seed, shard, nshards, only_stage=None):
    ctx = Ctx(mod, tier, seed, shard, nshards)
    if getattr(mod, 'MODE', None) is not None or hasattr(mod, 'MODE'):
        init_sc3(getattr(mod, 'MODE', None))
    if hasattr(mod, 'setup'):
        mod.setup(ctx)
    # regression corpus first (seconds-long replay tier)
    stages = mod.stages(ctx)
    by_name = {s.name: s for s in stages}
    if shard == 0:
        cdir = os.path.join(ROOT, 'corpus', ctx.pid)
        if os.path.isdir(cdir):
            for fn in sorted(os.listdir(cdir)):
                if not fn.endswith('.json'):
                    continue
                rec = json.load(open(os.path.join(cdir, fn)))
                stg = by_name.get(rec['stage'])
                if stg is None:
                    continue
                viol = ctx.exec_case(stg, rec['case'], set())
                if viol is not None:
                    ctx.record_violation(stg, rec['case'], viol)
    for stage in stages:
        if only_stage and stage.name != only_stage:
            continue
        ctx.run_stage(stage)
    if hasattr(mod, 'teardown'):
        mod.teardown(ctx)
    return ctx.partial()


def merge(parts):
    out = {'evaluations': 0, 'nontrivial': set(), 'distinct': 0,
           'labels': Counter(), 'samples': [], 'rejected': 0,
           'known_hits': Counter(), 'violations': [], 'stage_stats': {},
           'exhaustive': None, 'notes': []}
    for p in parts:
        out['evaluations'] += p['evaluations']
        out['nontrivial'].update(p['nontrivial'])
        out['distinct'] += p['distinct']
        out['labels'].update(p['labels'])
        out['rejected'] += p['rejected']
        out['known_hits'].update(p['known_hits'])
        out['violations'].extend(p['violations'])
        out['notes'].extend(x for x in p['notes'] if x not in out['notes'])
        if p['exhaustive']:
            out['exhaustive'] = True
        for s in p['samples']:
            if sum(1 for x in out['samples']
                   if x['stage'] == s['stage']) < MAX_SAMPLES:
                out['samples'].append(s)
        for k, st in p['stage_stats'].items():
            d = out['stage_stats'].setdefault(k, Counter())
            for kk, vv in st.items():
                if kk == 'wall_s':
                    d[kk] = max(d.get(kk, 0), vv)
                else:
                    d[kk] += vv
    return out


def write_evidence(mod, tier, seed, merged, wall, nshards):
    pid = mod.PROPERTY
    sigs = {}
    for v in merged['violations']:
        sigs.setdefault(f"{v['stage']}|{v['kind']}", v)
    ev = {
        'property_id': pid,
        'tier': tier,
        'seed': seed,
        'level': getattr(mod, 'LEVEL', 'exploration'),
        'coverage': {
            'evaluations': merged['evaluations'],
            'distinct_nontrivial': len(merged['nontrivial']),
            'distinct_cases': merged['distinct'],
            'rule': mod.RULE,
            'samples': merged['samples'],
            'labels': dict(sorted(merged['labels'].items())),
            'stages': {k: dict(v) for k, v in merged['stage_stats'].items()},
            'rejected': merged['rejected'],
            'excluded_known': dict(merged['known_hits']),
            'shards': nshards,
            'sc3_path': SC3_PATH,
        },
        'assumptions': list(getattr(mod, 'ASSUMPTIONS', [])) + merged['notes'],
        'wall_s': round(wall, 2),
        'violations': len(sigs),
    }
    if merged['exhaustive']:
        ev['coverage']['exhaustive'] = True
        ev['coverage']['exhaustive_scope'] = getattr(
            mod, 'EXHAUSTIVE_SCOPE', '')
    os.makedirs(os.path.join(OUT, 'evidence'), exist_ok=True)
    with open(os.path.join(OUT, 'evidence', pid + '.json'), 'w') as f:
        json.dump(ev, f, indent=1, default=repr)
    return sigs


def main(argv=None):
    ap = argparse.ArgumentParser()
    ap.add_argument('property')
    ap.add_argument('--tier', default=os.environ.get('VERIF_TIER', 'quick'))
    ap.add_argument('--replay')
    ap.add_argument('--shard', type=int)
    ap.add_argument('--nshards', type=int)
    ap.add_argument('--partial')
    ap.add_argument('--stage')
    args = ap.parse_args(argv)
    if args.tier not in ('quick', 'thorough'):
        args.tier = 'quick'
    seed = int(os.environ.get('VERIF_SEED', '1') or 1)
    pid = args.property.upper()
    sys.path.insert(0, ROOT)
    deps = os.path.join(ROOT, '.deps')
    if os.path.isdir(deps):
        sys.path.append(deps)
    os.chdir(ROOT)
    try:
        mod = load_module(pid)
        if args.replay:
            return replay(mod, args.replay)
        if args.shard is not None:
            part = run_shard(mod, args.tier, seed, args.shard, args.nshards,
                             args.stage)
            with open(args.partial, 'w') as f:
                json.dump(part, f, default=repr)
            return 0
        return orchestrate(mod, args.tier, seed, args.stage)
    except Exception:
        traceback.print_exc()
        print(f'HARNESS-ERROR property={pid}')
        return 2


def orchestrate(mod, tier, seed, only_stage=None):
    t0 = time.time()
    pid = mod.PROPERTY
    nshards = getattr(mod, 'SHARDS', {}).get(tier, 2 if tier == 'quick' else 16)
    work = os.path.join(OUT, '.work')
    os.makedirs(work, exist_ok=True)
    tmp = tempfile.mkdtemp(prefix=pid + '_', dir=work)
    procs = []
    env = dict(os.environ)
    env.setdefault('PYTHONHASHSEED', '0')
    env['VERIF_SEED'] = str(seed)
    for i in range(nshards):
        out = os.path.join(tmp, f'part{i}.json')
        cmd = [sys.executable, os.path.join(ROOT, 'check'), pid,
               '--tier', tier, '--shard', str(i), '--nshards', str(nshards),
               '--partial', out]
        if only_stage:
            cmd += ['--stage', only_stage]
        log = open(os.path.join(tmp, f'log{i}.txt'), 'w')
        procs.append((subprocess.Popen(cmd, stdout=log, stderr=log, env=env,
                                       cwd=ROOT), out, log))
    parts = []
    failed = []
    for i, (p, out, log) in enumerate(procs):
        rc = p.wait()
        log.close()
        if rc != 0 or not os.path.exists(out):
            failed.append((i, rc, open(log.name).read()[-4000:]))
        else:
            parts.append(json.load(open(out)))
    import shutil
    if failed:
        for i, rc, txt in failed:
            print(f'--- shard {i} exit {rc} ---\n{txt}')
        print(f'HARNESS-ERROR property={pid} shards_failed={len(failed)}')
        shutil.rmtree(tmp, ignore_errors=True)
        return 2
    shutil.rmtree(tmp, ignore_errors=True)
    merged = merge(parts)
    sigs = write_evidence(mod, tier, seed, merged, time.time() - t0, nshards)
    known = load_known(pid)
    for key, e in known.items():
        print(f"KNOWN-FINDING: property={pid} {key}: {e['what']} "
              f"(reproduced {merged['known_hits'].get(key, 0)}x this run)")
    ev = merged['evaluations']
    rej = merged['rejected']
    print(f'{pid} tier={tier} seed={seed} shards={nshards} evaluations={ev} '
          f'distinct_nontrivial={len(merged["nontrivial"])} rejected={rej} '
          f'known_excluded={sum(merged["known_hits"].values())} '
          f'wall={time.time() - t0:.1f}s')
    for k, st in merged['stage_stats'].items():
        print(f'  stage {k}: {dict(st)}')
    if sigs:
        for sig, v in sigs.items():
            print(f"VIOLATION property={pid} replay={v['replay']} "
                  f"[{sig}] {v['detail'][:300]}")
        return 1
    if ev and rej / max(ev, 1) > getattr(mod, 'MAX_REJECT', 0.2):
        # a generator health check: too much was discarded for the run to
        # count as having held
        print(f'HARNESS-ERROR property={pid} too many rejected cases')
        return 2
    return 0


def replay(mod, path):
    rec = json.load(open(path))
    ctx = Ctx(mod, 'quick', 1, 0, 1)
    if hasattr(mod, 'MODE'):
        init_sc3(mod.MODE)
    if hasattr(mod, 'setup'):
        mod.setup(ctx)
    by_name = {s.name: s for s in mod.stages(ctx)}
    stage = by_name[rec['stage']]
    ctx.known = {}
    viol = ctx.exec_case(stage, rec['case'], set())
    if viol is None:
        print(f'replay: property {mod.PROPERTY} holds on {path}')
        return 0
    print(f'VIOLATION property={mod.PROPERTY} replay={path} '
          f'[{stage.name}|{viol.kind}] {viol.detail[:1000]}')
    return 1
