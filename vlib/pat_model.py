"""Denotational reference model of sc3 value patterns (property C13).

A *pattern spec* is plain JSON data: a number, or a dict ``{'t': <class>, ...}``
(the grammar is listed in `GRAMMAR` below).  `Model.seq(spec)` returns a lazy
Python iterator over the sequence the pattern *denotes* according to the
documentation: the SuperCollider help files of the classes that
sc3/seq/patterns/*.py port (the port's own docstrings say "ListPatterns.sc",
"FilterPatterns.sc", "From Patterns.sc"; /repo/docs/guides/patterns.md is
empty), the comments carried over in the port, and the Streams-Patterns-Events
tutorial.  Nothing here imports sc3: the model is written with `itertools`
and plain generators only.

Three ways a value can take part in a pattern (SC "Stream" and "Object" help,
sc3/base/stream.py docstrings of `stream` and `embed`):

* `seq(spec)`      the sequence of a pattern;
* `stream(x)`      x used *as a stream*: a pattern gives its sequence, any
                   other object "returns itself forever" (Object:next);
* `embed(x)`       x *embedded in place* (list patterns, Pn, ...): a pattern
                   contributes its whole sequence, any other object exactly one
                   value (Object:embedInStream yields the receiver once).

General convention used by every clause with stream-valued parameters (SC
Pattern Guide 02 "Basic Vocabulary": patterns may be used for most numeric
arguments, "if any one of the argument streams ends, the pattern ends"): a
pattern stops as soon as one of the streams it needs a value from has ended.
Because all streams here are pure, the order in which a clause pulls from its
parameter streams is not observable in the produced sequence; it is asserted
only for operator patterns and Ptuple (operands left to right, see d_binop),
through call-logging functions in the `order` stage of the check.

Where the documentation leaves a case open the clause raises `Undecided`
(the check then rejects the input instead of asserting anything):

* Pconst whose source ends before the sum is reached, or whose running sum
  falls inside the tolerance band just below the sum;
* non positive clump sizes, negative stutter counts;
* Pseq/Place offsets outside the list, Pswitch indices outside the list;
* Pslide without wrapping is decided ("the pattern stops if it ... goes
  outside the list bounds") for both ends of the list; the clause records
  the event `pslide_nowrap_below_list` and has a `quirk` reproducing the
  library's known deviation (see known_findings/C13.json).

Random patterns (Prand, Pxrand, Pwrand, Pshuffle, Pwhite) have no denotation
without a random source.  They only occur below `Pseed`; the model asks the
`random_source(seed, spec)` callable given to it for the sequence of one
seeded embedding (see checks/c13.py: a stand-alone evaluation of the same
seeded atom, validated against the documented laws of the atom) and composes
it like any other sub-sequence.
"""

import itertools
import math
from fractions import Fraction

INF = 'inf'

GRAMMAR = {
    # list patterns
    'Pseq': ('list', 'rep', 'off'), 'Pser': ('list', 'rep', 'off'),
    'Place': ('list', 'rep', 'off'), 'Ptuple': ('list', 'rep'),
    'Pswitch': ('list', 'which'), 'Pswitch1': ('list', 'which'),
    'Pslide': ('list', 'len', 'step', 'start', 'wrap', 'rep'),
    # value patterns
    'Pseries': ('start', 'step', 'len'), 'Pgeom': ('start', 'grow', 'len'),
    # filter patterns
    'Pn': ('pat', 'rep'), 'Plen': ('pat', 'n'), 'Pdrop': ('pat', 'n'),
    'Pstutter': ('pat', 'n'), 'Pclump': ('pat', 'n'),
    'Pflatten': ('pat', 'n'), 'Pdiff': ('pat',), 'Pconst': ('pat', 'sum'),
    'Pwrap': ('pat', 'lo', 'hi'), 'Pseed': ('seed', 'pat'),
    'Pcollect': ('f', 'pat'), 'Pselect': ('f', 'pat'),
    'Preject': ('f', 'pat'),
    # function patterns
    'Pif': ('cond', 'a', 'b'),
    # operator patterns
    'unop': ('op', 'a'), 'binop': ('op', 'a', 'b'),
    'narop': ('op', 'a', 'args'),
    # random atoms (only below Pseed)
    'Prand': ('list', 'rep'), 'Pxrand': ('list', 'rep'),
    'Pwrand': ('list', 'weights', 'rep'), 'Pshuffle': ('list', 'rep'),
    'Pwhite': ('lo', 'hi', 'len'),
}

LIST_CLASSES = ('Pseq', 'Pser', 'Place', 'Ptuple', 'Pswitch', 'Pswitch1',
                'Pslide')
FILTER_CLASSES = ('Pn', 'Plen', 'Pdrop', 'Pstutter', 'Pclump', 'Pflatten',
                  'Pdiff', 'Pconst', 'Pwrap', 'Pcollect', 'Pselect',
                  'Preject')
RANDOM_CLASSES = ('Prand', 'Pxrand', 'Pwrand', 'Pshuffle', 'Pwhite')

PCONST_TOLERANCE = 0.001   # default `tolerance` of Pconst (SC and sc3)


class Diverged(Exception):
    """The expression loops without ever producing a value (e.g. an
    infinitely repeated empty pattern): no sequence is denoted."""


class QuirkRaises(Exception):
    """Under a quirk (known finding) the library is expected to raise."""


class Undecided(Exception):
    """The documentation does not decide this input."""


def is_pat(x):
    return isinstance(x, dict)


def count(rep):
    """`repeats` / `length` arguments: a non negative int or 'inf'."""
    return itertools.count() if rep == INF else range(rep)


# --- numeric kernels the pattern classes are defined with --------------------
# Only what the generator can reach: ints and dyadic floats, int bounds.

def k_mod(a, b):
    """SC `mod` ("%", Operators help: "modulo, the result has the sign of
    the divisor"); the generator keeps b a positive int."""
    if abs(a) > 2 ** 40:
        raise Undecided('mod of huge numbers (numeric kernels: C15)')
    if isinstance(a, int) and isinstance(b, int):
        return a % b
    return a - b * math.floor(a / b)


def _quantise(name):
    """SC `round`/`roundUp`/`trunc` (SimpleNumber help: "round to a multiple
    of aNumber", "round up to ...", "truncate to ..."); the generator keeps
    the quantum a positive int or dyadic and the values small, so the float
    arithmetic below is exact. The library returns floats."""
    pick = {'round': lambda q: math.floor(q + Fraction(1, 2)),
            'roundup': math.ceil, 'trunc': math.floor}[name]

    def k(a, b):
        if abs(a) > 2 ** 40 or abs(b) > 2 ** 40:
            raise Undecided('quantising huge numbers (numeric kernels: C15)')
        if b <= 0:
            raise Undecided('quantum not positive')
        r = Fraction(a) / Fraction(b)
        return float(pick(r) * Fraction(b))
    return k


def k_wrap(x, lo, hi):
    """SimpleNumber:wrap(lo, hi): "wrap the receiver into the range lo..hi";
    for an Integer receiver hi is inclusive, for a Float the range is
    half open [lo, hi)."""
    if abs(x) > 2 ** 40:
        raise Undecided('wrap of huge numbers (numeric kernels: C15)')
    if type(x) is int:
        return (x - lo) % (hi - lo + 1) + lo
    if lo <= x < hi:
        return x
    r = hi - lo
    if r == 0:
        return lo
    from fractions import Fraction
    d = (Fraction(x) - Fraction(lo)) % Fraction(r)
    if d != 0 and min(d, Fraction(r) - d) < Fraction(r) / 10 ** 9:
        # so close to a multiple of the range (a tiny fraction of it away)
        # that adding the range absorbs x: which side of the discontinuity
        # float arithmetic lands on belongs to the numeric kernels (C15)
        raise Undecided('wrap at rounding distance from its discontinuity')
    return x - r * math.floor((x - lo) / r)


def k_clip(x, lo, hi):
    """SimpleNumber:clip(lo, hi): lo if x < lo, hi if x > hi, else x; the
    result keeps the receiver's number class."""
    t = type(x)
    return max(min(x, t(hi)), t(lo))


UNOPS = {
    'neg': lambda a: -a,
    'abs': lambda a: abs(a),
    'pos': lambda a: +a,
}

BINOPS = {
    'add': lambda a, b: a + b,
    'sub': lambda a, b: a - b,
    'mul': lambda a, b: a * b,
    'truediv': lambda a, b: a / b,
    'floordiv': lambda a, b: a // b,
    'mod': k_mod,
    'min': lambda a, b: min(a, b),
    'max': lambda a, b: max(a, b),
    'lt': lambda a, b: a < b,
    'le': lambda a, b: a <= b,
    'gt': lambda a, b: a > b,
    'ge': lambda a, b: a >= b,
    'eq': lambda a, b: a == b,
    'ne': lambda a, b: a != b,
    'round': _quantise('round'),
    'roundup': _quantise('roundup'),
    'trunc': _quantise('trunc'),
}

NAROPS = {
    'clip': k_clip,
    'wrap': k_wrap,
}

# functions of the fixed table used by Pcollect / Pselect / Preject
COLLECT_FUNCS = {
    'add1': lambda x: x + 1,
    'dbl': lambda x: x * 2,
    'neg': lambda x: -x,
    'sq': lambda x: x * x,
    'const7': lambda x: 7,
    'half': lambda x: x / 2,
    'add1_inval': lambda x: x + 1,   # built with a two argument function
}
TEST_FUNCS = {
    'odd': lambda x: x % 2 == 1,
    'pos': lambda x: x > 0,
    'lt3': lambda x: x < 3,
    'ne0': lambda x: x != 0,
    'true': lambda x: True,
    'false': lambda x: False,
}


class Model:
    def __init__(self, random_source=None, fuel=200000, collect_funcs=None,
                 quirks=()):
        self.random_source = random_source
        self.fuel = fuel
        # `events` records which decided-by-the-documentation edge clauses
        # were exercised; `quirks` switches a clause to the *deviating*
        # behaviour of a known finding, so that the check can tell "exactly
        # this known defect" from anything else (see checks/c13.py).
        self.events = set()
        self.quirks = frozenset(quirks)
        # extra Pcollect functions (the 'order' stage passes functions that
        # log their calls; see d_binop on operand order)
        self.collect_funcs = dict(COLLECT_FUNCS)
        self.collect_funcs.update(collect_funcs or {})

    def tick(self):
        self.fuel -= 1
        if self.fuel < 0:
            raise Diverged()

    # -- the three roles --------------------------------------------------

    def seq(self, spec):
        if not is_pat(spec):
            raise TypeError(f'not a pattern spec: {spec!r}')
        return getattr(self, 'd_' + spec['t'])(spec)

    def stream(self, x):
        """Object:asStream / Object:next: "returns the receiver forever"."""
        if is_pat(x):
            return self.seq(x)
        return self._forever(x)

    def _forever(self, x):
        while True:
            self.tick()
            yield x

    def embed(self, x):
        """Object:embedInStream yields the receiver once; Pattern:
        embedInStream embeds the whole sequence of the pattern in place."""
        if is_pat(x):
            return self.seq(x)
        return iter((x,))

    # -- list patterns ----------------------------------------------------

    def d_Pseq(self, s):
        """Pseq(list, repeats, offset): "Cycles over a list of values. The
        repeats variable gives the number of times to repeat the entire
        list", offset "starting index into the list" (the list is read as
        if rotated left by offset).  Items that are patterns are embedded
        (ListPatterns help: "list patterns ... embed sub patterns")."""
        lst, off = s['list'], s['off']
        if not 0 <= off < len(lst):
            raise Undecided('Pseq offset outside the list')
        lst = lst[off:] + lst[:off]
        for _ in count(s['rep']):
            self.tick()
            for item in lst:
                yield from self.embed(item)

    def d_Pser(self, s):
        """Pser(list, repeats, offset): "is like Pseq, however the repeats
        variable gives the number of *items* returned instead of the number
        of complete cycles"; the list is cycled ("wrapAt(i + offset)"), each
        item embedded counts as one."""
        lst, off = s['list'], s['off']
        for i in count(s['rep']):
            self.tick()
            yield from self.embed(lst[(i + off) % len(lst)])

    def d_Place(self, s):
        """Place(list, repeats, offset): "Interlaced embedding of subarrays.
        Returns elements in the list. If an element is an array itself, it
        embeds the first element of the subarray in the first cycle, the
        second in the second cycle, and so on" (sub arrays wrap)."""
        lst, off = s['list'], s['off']
        if not 0 <= off < len(lst):
            raise Undecided('Place offset outside the list')
        lst = lst[off:] + lst[:off]
        for j in count(s['rep']):
            self.tick()
            for item in lst:
                if isinstance(item, list):
                    item = item[j % len(item)]
                yield from self.embed(item)

    def d_Ptuple(self, s):
        """Ptuple(list, repeats): "At each step, it returns a tuple (array)
        of the next value of each pattern in the list; when any of the
        patterns ends the tuple pattern ends (that repeat)"; repeats is the
        number of times the whole is started again."""
        for _ in count(s['rep']):
            self.tick()
            streams = [self.stream(x) for x in s['list']]
            while True:
                self.tick()
                tpl = []
                for st in streams:
                    try:
                        tpl.append(next(st))
                    except StopIteration:
                        tpl = None
                        break
                if tpl is None:
                    break
                yield tuple(tpl)

    def d_Pswitch(self, s):
        """Pswitch(list, which): "chooses elements from the list by the
        index given by the `which` pattern; the chosen element is embedded"
        (a whole sub pattern plays through); ends with `which`."""
        lst = s['list']
        for i in self.stream(s['which']):
            self.tick()
            if not (type(i) is int and 0 <= i < len(lst)):
                raise Undecided('Pswitch index outside the list')
            yield from self.embed(lst[i])

    def d_Pswitch1(self, s):
        """Pswitch1(list, which): "the pattern steps through the index
        pattern, each time taking only ONE value from the indexed stream";
        every list element is turned into one stream that keeps its place;
        ends when `which` or the chosen stream ends."""
        streams = [self.stream(x) for x in s['list']]
        for i in self.stream(s['which']):
            self.tick()
            if not (type(i) is int and 0 <= i < len(streams)):
                raise Undecided('Pswitch1 index outside the list')
            try:
                yield next(streams[i])
            except StopIteration:
                return

    def d_Pslide(self, s):
        """Pslide(list, repeats, len, step, start, wrapAtEnd): "repeats:
        number of segments. len: length of each segment. step: how far to
        step the start of each segment from previous. start: what index to
        start at. wrapAtEnd: if true (default), indexing wraps around if
        goes past beginning or end. If false, the pattern stops if it hits a
        nil element or goes outside the list bounds." (comment kept in
        listpatterns.py: "indexing wraps around if goes past beginning or
        end. step can be negative").  len and step may be patterns."""
        lst = s['list']
        size = len(lst)
        pos = s['start']
        lens = self.stream(s['len'])
        steps = self.stream(s['step'])
        for _ in count(s['rep']):
            self.tick()
            try:
                ln = next(lens)
            except StopIteration:
                return
            if ln < 0:
                raise Undecided('negative segment length')
            for j in range(ln):
                if s['wrap']:
                    yield from self.embed(lst[(pos + j) % size])
                elif 0 <= pos + j < size:
                    yield from self.embed(lst[pos + j])
                elif pos + j < 0 and 'pslide_negative_index' in self.quirks:
                    # known finding: python negative indexing instead of
                    # stopping below the list
                    if pos + j < -size:
                        raise QuirkRaises('IndexError')
                    yield from self.embed(lst[pos + j])
                else:
                    if pos + j < 0:
                        self.events.add('pslide_nowrap_below_list')
                    return
            try:
                pos += next(steps)
            except StopIteration:
                return

    # -- value patterns ---------------------------------------------------

    def d_Pseries(self, s):
        """Pseries(start, step, length): "Returns a stream that behaves
        like an arithmetic series": start, start+step1, +step2 ...; step may
        be a pattern, a new step value is taken for every element."""
        cur = s['start']
        steps = self.stream(s['step'])
        for _ in count(s['len']):
            self.tick()
            try:
                stp = next(steps)
            except StopIteration:
                return
            yield cur
            cur = cur + stp

    def d_Pgeom(self, s):
        """Pgeom(start, grow, length): geometric series, grow may be a
        pattern."""
        cur = s['start']
        grows = self.stream(s['grow'])
        for _ in count(s['len']):
            self.tick()
            try:
                g = next(grows)
            except StopIteration:
                return
            yield cur
            cur = cur * g

    # -- filter patterns --------------------------------------------------

    def d_Pn(self, s):
        """Pn(pattern, repeats): "Repeats the enclosed pattern a number of
        times" (each time embedded anew)."""
        for _ in count(s['rep']):
            self.tick()
            yield from self.embed(s['pat'])

    def d_Plen(self, s):
        """Pfin(count, pattern) [Plen here]: "Limit the number of items
        embedded in a stream": the first n values, fewer if it ends."""
        return itertools.islice(self.stream(s['pat']), s['n'])

    def d_Pdrop(self, s):
        """Pdrop(count, pattern): "Drop the first count items"."""
        return itertools.islice(self.stream(s['pat']), s['n'], None)

    def d_Pstutter(self, s):
        """Pstutter(n, pattern): "repeat each element n times"; n may be a
        pattern, one n per source element (0 skips the element)."""
        ns = self.stream(s['n'])
        for v in self.stream(s['pat']):
            self.tick()
            try:
                n = next(ns)
            except StopIteration:
                return
            if n < 0:
                raise Undecided('negative stutter count')
            for _ in range(n):
                yield _copy(v)

    def d_Pclump(self, s):
        """Pclump(n, pattern): "Groups the source pattern into arrays whose
        size is given by n"; n may be a pattern; "the last clump may be
        shorter" when the source runs out (a remainder of zero elements is
        not a clump)."""
        src = self.stream(s['pat'])
        for n in self.stream(s['n']):
            self.tick()
            if n <= 0:
                raise Undecided('non positive clump size')
            lst = list(itertools.islice(src, n))
            if lst:
                yield lst
            if len(lst) < n:
                return

    def d_Pflatten(self, s):
        """Pflatten(levels, pattern): "The companion to Pclump, this pattern
        un-nests the arrays": Pflatten(1, Pclump(n, p)) is p.  Only used on
        streams of flat lists and scalars with levels >= 1, where every
        reading of `levels` agrees; scalars pass through."""
        ns = self.stream(s['n'])
        for v in self.stream(s['pat']):
            self.tick()
            try:
                n = next(ns)
            except StopIteration:
                return
            if n < 1:
                raise Undecided('Pflatten levels < 1')
            if isinstance(v, list):
                if any(isinstance(x, (list, tuple)) for x in v):
                    raise Undecided('Pflatten of nested lists')
                yield from v
            else:
                yield v

    def d_Pdiff(self, s):
        """Pdiff(pattern) ("differentiate"): "Returns the difference
        between the current and the previous value"; one element fewer than
        the source."""
        src = self.stream(s['pat'])
        try:
            prev = next(src)
        except StopIteration:
            return
        for nx in src:
            self.tick()
            yield nx - prev
            prev = nx

    def d_Pconst(self, s):
        """Pconst(sum, pattern, tolerance=0.001): "Constrain the sum of a
        value pattern. Embeds values until the sum comes close enough to
        sum. At that point, the last value is truncated so that the total
        equals sum" (constrained sums)."""
        total = s['sum']
        acc = 0
        for v in self.stream(s['pat']):
            self.tick()
            nxt = acc + v
            if nxt >= total:
                yield total - acc
                return
            if nxt > total - 2 * PCONST_TOLERANCE:
                raise Undecided('Pconst inside the tolerance band')
            acc = nxt
            yield v
        raise Undecided('Pconst source ended before the sum')

    def d_Pwrap(self, s):
        """Pwrap(pattern, lo, hi): "wraps the values of the pattern into the
        range lo..hi" (SimpleNumber:wrap); lo and hi may be patterns."""
        los, his = self.stream(s['lo']), self.stream(s['hi'])
        for v in self.stream(s['pat']):
            self.tick()
            try:
                lo, hi = next(los), next(his)
            except StopIteration:
                return
            yield k_wrap(v, lo, hi)

    def d_Pcollect(self, s):
        """Pcollect(func, pattern): "Returns a pattern whose values are the
        result of func applied to each value of pattern"."""
        f = self.collect_funcs[s['f']]
        for v in self.stream(s['pat']):
            self.tick()
            yield f(v)

    def d_Pselect(self, s):
        """Pselect(func, pattern): "Returns values from pattern for which
        func returns true"."""
        f = TEST_FUNCS[s['f']]
        for v in self.stream(s['pat']):
            self.tick()
            if f(v):
                yield v

    def d_Preject(self, s):
        """Preject(func, pattern): "Rejects values for which func returns
        true"."""
        f = TEST_FUNCS[s['f']]
        for v in self.stream(s['pat']):
            self.tick()
            if not f(v):
                yield v

    def d_Pseed(self, s):
        """Pseed(randSeed, pattern): "Sets the random seed of the resulting
        stream"; randSeed is "an integer number, pattern or stream that
        returns an integer number": for every value of the seed stream the
        pattern is embedded once more with the generator reseeded, so a
        plain number repeats the identical seeded sequence forever."""
        if self.random_source is None:
            raise Undecided('no random source')
        for seed in self.stream(s['seed']):
            self.tick()
            yield from self.random_source(seed, s['pat'])

    # -- function patterns ------------------------------------------------

    def d_Pif(self, s):
        """Pif(condition, iftrue, iffalse): "Returns the next value from
        iftrue if the next value of condition is true, else from iffalse";
        funcpatterns.py: "there is no default value and the stream ends
        with the first raised StopStream"."""
        cs = self.stream(s['cond'])
        a, b = self.stream(s['a']), self.stream(s['b'])
        for c in cs:
            self.tick()
            try:
                yield next(a if c else b)
            except StopIteration:
                return

    # -- operator patterns ------------------------------------------------

    def d_unop(self, s):
        """Punop: the operator applied to every element."""
        f = UNOPS[s['op']]
        for a in self.stream(s['a']):
            self.tick()
            yield f(a)

    def d_binop(self, s):
        """Pbinop: "element-wise ... the resulting stream ends with the
        shortest operand"; a plain number on either side is an endless
        stream of itself.  Operands are evaluated left to right at every
        step (BinaryOpStream:next takes a.next, then b.next; the same for
        n-ary operators and Ptuple): when `a` has ended `b` is not asked.
        Only a side-effecting function or a shared random generator can
        observe this."""
        f = BINOPS[s['op']]
        b = self.stream(s['b'])
        for x in self.stream(s['a']):
            self.tick()
            try:
                y = next(b)
            except StopIteration:
                return
            yield f(x, y)

    def d_narop(self, s):
        """Pnarop (clip, wrap ...): element-wise over the receiver and all
        arguments, ends with the shortest."""
        f = NAROPS[s['op']]
        args = [self.stream(x) for x in s['args']]
        for x in self.stream(s['a']):
            self.tick()
            try:
                vals = [next(a) for a in args]
            except StopIteration:
                return
            yield f(x, *vals)


def _copy(v):
    return list(v) if isinstance(v, list) else v


def denote(spec, n, random_source=None, fuel=200000, model=None):
    """First n values of the sequence denoted by spec and whether the
    sequence ended within them: (values, finite)."""
    m = model or Model(random_source, fuel)
    out = list(itertools.islice(m.seq(spec), n + 1))
    if len(out) <= n:
        return out, True
    return out[:n], False


# --- helpers over specs -------------------------------------------------------

def children(spec):
    """Direct sub-expressions (numbers included) of a spec."""
    if not is_pat(spec):
        return []
    out = []
    for k, v in spec.items():
        if k in ('t', 'op', 'f', 'wrap', 'weights'):
            continue
        if isinstance(v, list):
            for x in v:
                if isinstance(x, list):
                    out.extend(x)
                else:
                    out.append(x)
        elif is_pat(v):
            out.append(v)
    return out


def walk(spec):
    if is_pat(spec):
        yield spec
        for c in children(spec):
            yield from walk(c)


def depth(spec):
    if not is_pat(spec):
        return 0
    return 1 + max([depth(c) for c in children(spec)] or [0])


def same(a, b, rel=1e-9):
    """Value equality of two produced elements: numbers by value (floats
    that are not dyadic-exact within rel), bools only with bools, lists and
    tuples element-wise (Ptuple's container type is left open by the port:
    "real tuple or list?")."""
    if isinstance(a, (list, tuple)) or isinstance(b, (list, tuple)):
        return (isinstance(a, (list, tuple)) and isinstance(b, (list, tuple))
                and len(a) == len(b) and all(same(x, y) for x, y in zip(a, b)))
    if isinstance(a, bool) or isinstance(b, bool):
        return isinstance(a, bool) and isinstance(b, bool) and a == b
    if isinstance(a, (int, float)) and isinstance(b, (int, float)):
        if a == b:
            return True
        if isinstance(a, float) or isinstance(b, float):
            if math.isnan(a) and math.isnan(b):
                return True
            return math.isclose(a, b, rel_tol=rel, abs_tol=0.0)
        return False
    return False


def same_seq(xs, ys):
    return len(xs) == len(ys) and all(same(x, y) for x, y in zip(xs, ys))
