"""Hypothesis strategies for E3 programs (see vlib/prog.py for the DSL)."""

from hypothesis import strategies as st

DYADIC_TEMPOS = [0.25, 0.5, 1, 1.0, 2, 4, 8]
OTHER_TEMPOS = [1.5, 3, 0.75, 1.2, 0.1]
DELTAS = [0, 0.0625, 0.125, 0.25, 0.5, 0.75, 1, 1.0, 1.5, 2, 3]


@st.composite
def timing_program(draw, max_routines=6, sends=False, nondyadic=False,
                   apps=True, tempo_ops=False, etempo=False, busy=False,
                   hand=False, beats_ops=False):
    """Nested routines with finite yield sequences on SystemClock, AppClock
    and TempoClocks of fixed tempo (C05, C07)."""
    nclocks = draw(st.integers(0, 3))
    tempos = DYADIC_TEMPOS + (OTHER_TEMPOS if nondyadic else [])
    clocks = [{'tempo': draw(st.sampled_from(tempos)),
               'beats': draw(st.sampled_from([None, None, 0, 2, 5.5]))}
              for _ in range(nclocks)]
    refs = ['sys', None] + (['app'] if apps else []) + list(range(nclocks))
    n = draw(st.integers(1, max_routines))
    names = [f'r{i}' for i in range(n)]
    # tree: routine i > 0 is played by a routine j < i, or from the top
    bodies = {nm: [] for nm in names}
    tag = [0]
    depth = {names[0]: 0}
    children = {nm: [] for nm in names}
    roots = [names[0]]
    for i in range(1, n):
        parent = draw(st.sampled_from(['top'] + names[:i]))
        if parent != 'top' and depth[parent] >= 3:
            parent = 'top'
        if parent == 'top':
            roots.append(names[i])
            depth[names[i]] = 0
        else:
            children[parent].append(names[i])
            depth[names[i]] = depth[parent] + 1

    def quant():
        k = draw(st.integers(0, 5))
        if k <= 1:
            return None
        if k == 2:
            return 0
        q = draw(st.sampled_from([1, 2, 4, 0.5, 3]))
        ph = draw(st.sampled_from([0, 0.25, 0.5, 1, -0.25, -0.5, -1]))
        if abs(ph) >= q:
            ph = 0
        return [q, ph]

    def spelling():
        # r.play(clock, quant) or one of the create-and-play conveniences
        return draw(st.sampled_from([[], [], [], ['deco'], ['run']]))

    def send_op():
        tag[0] += 1
        k = draw(st.integers(0, 5))
        if k == 0:
            if draw(st.booleans()):
                # message carrying a completion bundle with its own latency
                return ['msg', tag[0], [draw(st.sampled_from(
                    [0, 0.125, 0.25, 1])), ['/done', tag[0]]]]
            return ['msg', tag[0]]
        lat = draw(st.sampled_from([None, -1, 0, 0.0, 0.125, 0.25, 0.5, 1]))
        elems = [['/b', tag[0]]]
        if k >= 4:
            # nested bundle: valid (>= parent) or, sometimes, preceding it
            base = lat if lat is not None and lat >= 0 else 0
            if draw(st.integers(0, 4)) == 0 and lat is not None and lat > 0:
                sub = base - draw(st.sampled_from([0.0625, 0.125]))
            else:
                sub = base + draw(st.sampled_from([0, 0.125, 0.5]))
            inner = [sub, ['/n', tag[0]]]
            if k == 5:
                inner.append([sub + 0.25, ['/nn', tag[0]]])
            elems.append(inner)
        if draw(st.integers(0, 5)) == 0:
            return ['bundle', lat, elems, 'twice']
        return ['bundle', lat, elems]

    for nm in names:
        body = []
        kids = list(children[nm])
        steps = draw(st.integers(1, 7))
        for s in range(steps):
            tag[0] += 1
            body.append(['log', tag[0]])
            if busy and draw(st.integers(0, 3)) == 0:
                # system load: this step takes physical time
                body.append(['busy', draw(st.sampled_from(
                    [0.0625, 0.125, 0.25, 0.5]))])
            if sends and draw(st.integers(0, 2)) == 0:
                body.append(send_op())
            if kids and draw(st.booleans()):
                k = kids.pop(0)
                if draw(st.integers(0, 3)) == 0:
                    # scheduled directly on a clock, delta in its own unit
                    body.append(['sched', draw(st.sampled_from(
                        [r for r in refs if r is not None])),
                        draw(st.sampled_from(DELTAS)), k])
                else:
                    body.append(['play', k, draw(st.sampled_from(refs)),
                                 quant()] + spelling())
            if tempo_ops and nclocks and draw(st.integers(0, 5)) == 0:
                # a routine changes a tempo while others sleep on that clock
                body.append(['etempo' if etempo and draw(st.booleans())
                             else 'tempo', draw(st.integers(0, nclocks - 1)),
                             draw(st.sampled_from([0.5, 1, 2, 4]))])
            if beats_ops and nclocks and draw(st.integers(0, 5)) == 0:
                # a routine moves the beats of a clock (the new beat/second
                # pair is anchored at the routine's logical time)
                body.append(['beats_add', draw(st.integers(0, nclocks - 1)),
                             draw(st.sampled_from([1, 2, 0.5, -0.5]))])
            if s < steps - 1 or draw(st.booleans()):
                body.append(['wait', draw(st.sampled_from(DELTAS))])
        for k in kids:
            body.append(['play', k, draw(st.sampled_from(refs)), quant()]
                        + spelling())
        if draw(st.integers(0, 9)) == 0:
            body.append(['yield', draw(st.sampled_from(['hang', 'inf']))])
            tag[0] += 1
            body.append(['log', tag[0]])    # never reached
        bodies[nm] = body
    top = []
    for rt in roots:
        if sends and draw(st.integers(0, 3)) == 0:
            top.append(send_op())
        top.append(['play', rt, draw(st.sampled_from(refs)), quant()]
                   + spelling())
    if sends and draw(st.booleans()):
        top.append(send_op())
    if hand:
        # routines stepped by hand from the main thread (after all plays)
        for i in range(draw(st.integers(0, 2))):
            nm = f'h{i}'
            body = []
            steps = draw(st.integers(1, 3))
            for s in range(steps):
                tag[0] += 1
                body.append(['log', tag[0]])
                if busy and draw(st.integers(0, 1)) == 0:
                    body.append(['busy', draw(st.sampled_from(
                        [0.125, 0.25, 0.5]))])
                if sends:
                    body.append(send_op())
                body.append(['wait', draw(st.sampled_from(DELTAS))])
            bodies[nm] = body
            names.append(nm)
            for _ in range(draw(st.integers(1, steps))):
                top.append(['next', nm])
    return {'clocks': clocks,
            'routines': {nm: {'body': bodies[nm]} for nm in names},
            'top': top,
            'tail': draw(st.sampled_from([0, 0.5, 1, 3]))}


# one entry per branch of every routine-aware random builtin (sign and type
# of the arguments select the branch)
DRAWS = [['rand', [10]], ['rand', [-10]], ['rand', [1.0]],
         ['rand2', [5]], ['rand2', [-5]], ['rand2', [2.5]],
         ['linrand', [10]], ['linrand', [-10]], ['linrand', [2.0]],
         ['bilinrand', [10]], ['bilinrand', [-10]], ['bilinrand', [1.0]],
         ['sum3rand', [2.0]], ['coin', [0.5]],
         ['rrand', [1, 100]], ['rrand', [100, 1]], ['rrand', [0.0, 1.0]],
         ['rrand', [1, 2.5]], ['exprand', [1, 100]], ['exprand', [100, 1.0]],
         ['xrand', [10, 3]], ['xrand2', [5, 1]], ['xrand2', [2.0]],
         ['gauss', [0.0, 1.0]],
         ['choice', [[1, 2, 3, 4]]], ['choices', [[1, 2, 3], [1, 2, 3]]],
         ['scramble', [[1, 2, 3, 4]]], ['shuffle', [[1, 2, 3, 4]]]]


@st.composite
def control_program(draw):
    """Routines, tempo changes, pauses/resumptions/stops, conditions, seeded
    random draws and sends (C10). Targets wake on a 1/4-beat grid;
    controllers act at odd multiples of 1/16 s so that, on tempo-1 clocks,
    control never coincides with the target's own wake-up (other cases are
    detected by the model and discarded)."""
    nclocks = draw(st.integers(0, 2))
    clocks = [{'tempo': draw(st.sampled_from([0.5, 1, 1, 2])), 'beats': None}
              for _ in range(nclocks)]
    refs = ['sys'] + list(range(nclocks))
    nt = draw(st.integers(1, 3))
    nc = draw(st.integers(1, 2))
    routines, top = {}, []
    tag = [0]

    def nxt():
        tag[0] += 1
        return tag[0]
    targets = [f't{i}' for i in range(nt)]
    seeded = {}
    for nm in targets:
        body = []
        if draw(st.integers(0, 2)) > 0:
            # (any seed random.Random takes; strings hash differently in
            # every interpreter, the RT and NRT workers run with different
            # PYTHONHASHSEED values)
            seeded[nm] = draw(st.one_of(
                st.integers(0, 1000), st.integers(0, 1000),
                st.sampled_from(['melody', 'b', 'seed-7'])))
            body.append(['seed', seeded[nm]])
        for _ in range(draw(st.integers(2, 7))):
            body.append(['log', nxt()])
            k = draw(st.integers(0, 9))
            if k <= 2 and nm in seeded:
                d = draw(st.sampled_from(DRAWS))
                body.append(['rand', d[0], d[1]])
            elif k == 3:
                body.append(['bundle', draw(st.sampled_from(
                    [None, 0, 0.125, 0.5])), [['/b', nxt()]]])
            elif k == 4:
                body.append(['msg', nxt()])
            elif k == 5:
                body.append([draw(st.sampled_from(['cwait', 'fwait'])),
                             draw(st.integers(0, 1))])
                body.append(['log', nxt()])
            elif k == 6 and nclocks and draw(st.integers(0, 3)) == 0:
                # the routine moves the beats of (possibly) its own clock
                # back during its step, then yields a delta
                body.append(['beats_add', draw(st.integers(0, nclocks - 1)),
                             -0.5])
            body.append(['wait', draw(st.sampled_from(
                [0.25, 0.25, 0.5, 0.75, 1, 1.0, 1.5, 2]))])
        routines[nm] = {'body': body}
        if draw(st.integers(0, 3)) == 0:
            # the body runs nested inside the routine that is played
            routines[nm]['nest'] = draw(st.integers(1, 2))
        top.append(['play', nm, draw(st.sampled_from(refs)),
                    draw(st.sampled_from([0, 0, None, [1, 0], [2, 0.5]]))])
    on_tempo = [(op[1], op[2]) for op in top if isinstance(op[2], int)
                and not any(o[0] in ('cwait', 'fwait')
                            for o in routines[op[1]]['body'])]
    for i in range(nc):
        body = [['wait', 0.0625]]
        elapsed = 0.0625
        if on_tempo and draw(st.integers(0, 3)) == 0:
            # a pending wake-up is moved (pause + resume), then its clock's
            # tempo changes before it fires
            tgt, c = draw(st.sampled_from(on_tempo))
            for op in (['pause', tgt], ['resume', tgt],
                       ['tempo', c, draw(st.sampled_from([0.5, 1, 2, 2]))]):
                body.append(op)
                body.append(['log', nxt()])
                w = draw(st.sampled_from([0.125, 0.125, 0.25]))
                elapsed += w
                body.append(['wait', w])
        for _ in range(draw(st.integers(1, 8))):
            k = draw(st.integers(0, 13))
            tgt = draw(st.sampled_from(targets))
            if k <= 5:
                # pausing / resuming a routine that may hang on a condition
                # is an interplay no documentation defines (the model
                # discards it): aim at the others when there are any
                free = [t for t in targets if not any(
                    op[0] in ('cwait', 'fwait')
                    for op in routines[t]['body'])]
                if free:
                    tgt = draw(st.sampled_from(free))
            if k <= 2:
                body.append(['pause', tgt])
            elif k <= 5:
                body.append(['resume', tgt])
            elif k == 6:
                body.append(['stop', tgt])
            elif k <= 8 and nclocks:
                # (tempo <= 2: a quarter beat stays >= 1/8 s, away from
                # the controllers' odd sixteenths)
                body.append(['tempo', draw(st.integers(0, nclocks - 1)),
                             draw(st.sampled_from([0.5, 1, 2, 2]))])
            elif k in (9, 12, 13) and nclocks and elapsed > 1.0625:
                # the clock's beats jump (forward: sleepers left behind are
                # performed at once, with a logical time up to 1 s in the
                # past - hence not near the program start, where NRT time
                # would become negative; backward: they wait longer)
                body.append(['beats_add', draw(st.integers(0, nclocks - 1)),
                             draw(st.sampled_from([0.25, 0.5, 0.5, -0.5]))])
            elif k in (9, 12):
                c = draw(st.integers(0, 1))
                body.append(['ctest', c, True])
                body.append(['csignal', c])
            elif k == 10:
                body.append(['fset', draw(st.integers(0, 1)),
                             draw(st.sampled_from([1, 'v', 2.5]))])
            else:
                body.append(['cunhang', draw(st.integers(0, 1))])
            body.append(['log', nxt()])
            w = draw(st.sampled_from([0.125, 0.125, 0.25, 0.375, 0.5, 1]))
            elapsed += w
            body.append(['wait', w])
        routines[f'c{i}'] = {'body': body}
        top.append(['play', f'c{i}', 'sys', 0])
    return {'clocks': clocks, 'routines': routines, 'top': top, 'tail': 0,
            'seeded': seeded}
