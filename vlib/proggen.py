"""Hypothesis strategies for E3 programs (see vlib/prog.py for the DSL)."""

from hypothesis import strategies as st

DYADIC_TEMPOS = [0.25, 0.5, 1, 1.0, 2, 4, 8]
OTHER_TEMPOS = [1.5, 3, 0.75, 1.2, 0.1]
DELTAS = [0, 0.0625, 0.125, 0.25, 0.5, 0.75, 1, 1.0, 1.5, 2, 3]


@st.composite
def timing_program(draw, max_routines=6, sends=False, nondyadic=False,
                   apps=True):
    """Nested routines with finite yield sequences on SystemClock, AppClock
    and TempoClocks of fixed tempo (C05, C07)."""
    nclocks = draw(st.integers(0, 3))
    tempos = DYADIC_TEMPOS + (OTHER_TEMPOS if nondyadic else [])
    clocks = [{'tempo': draw(st.sampled_from(tempos)),
               'beats': draw(st.sampled_from([None, None, 0, 2, 5.5]))}
              for _ in range(nclocks)]
    refs = ['sys', None] + (['app'] if apps else []) + list(range(nclocks))
    n = draw(st.integers(1, max_routines))
    names = [f'r{i}' for i in range(n)]
    # tree: routine i > 0 is played by a routine j < i, or from the top
    bodies = {nm: [] for nm in names}
    tag = [0]
    depth = {names[0]: 0}
    children = {nm: [] for nm in names}
    roots = [names[0]]
    for i in range(1, n):
        parent = draw(st.sampled_from(['top'] + names[:i]))
        if parent != 'top' and depth[parent] >= 3:
            parent = 'top'
        if parent == 'top':
            roots.append(names[i])
            depth[names[i]] = 0
        else:
            children[parent].append(names[i])
            depth[names[i]] = depth[parent] + 1

    def quant():
        k = draw(st.integers(0, 5))
        if k <= 1:
            return None
        if k == 2:
            return 0
        q = draw(st.sampled_from([1, 2, 4, 0.5, 3]))
        ph = draw(st.sampled_from([0, 0.25, 0.5, 1, -0.25, -0.5, -1]))
        if abs(ph) >= q:
            ph = 0
        return [q, ph]

    def send_op():
        tag[0] += 1
        k = draw(st.integers(0, 5))
        if k == 0:
            return ['msg', tag[0]]
        lat = draw(st.sampled_from([None, -1, 0, 0.0, 0.125, 0.25, 0.5, 1]))
        elems = [['/b', tag[0]]]
        if k >= 4:
            # nested bundle: valid (>= parent) or, sometimes, preceding it
            base = lat if lat is not None and lat >= 0 else 0
            if draw(st.integers(0, 4)) == 0 and lat is not None and lat > 0:
                sub = base - draw(st.sampled_from([0.0625, 0.125]))
            else:
                sub = base + draw(st.sampled_from([0, 0.125, 0.5]))
            inner = [sub, ['/n', tag[0]]]
            if k == 5:
                inner.append([sub + 0.25, ['/nn', tag[0]]])
            elems.append(inner)
        if draw(st.integers(0, 5)) == 0:
            return ['bundle', lat, elems, 'twice']
        return ['bundle', lat, elems]

    for nm in names:
        body = []
        kids = list(children[nm])
        steps = draw(st.integers(1, 7))
        for s in range(steps):
            tag[0] += 1
            body.append(['log', tag[0]])
            if sends and draw(st.integers(0, 2)) == 0:
                body.append(send_op())
            if kids and draw(st.booleans()):
                k = kids.pop(0)
                body.append(['play', k, draw(st.sampled_from(refs)), quant()])
            if s < steps - 1 or draw(st.booleans()):
                body.append(['wait', draw(st.sampled_from(DELTAS))])
        for k in kids:
            body.append(['play', k, draw(st.sampled_from(refs)), quant()])
        if draw(st.integers(0, 9)) == 0:
            body.append(['yield', 'hang'])
            tag[0] += 1
            body.append(['log', tag[0]])    # never reached
        bodies[nm] = body
    top = []
    for rt in roots:
        if sends and draw(st.integers(0, 3)) == 0:
            top.append(send_op())
        top.append(['play', rt, draw(st.sampled_from(refs)), quant()])
    if sends and draw(st.booleans()):
        top.append(send_op())
    return {'clocks': clocks,
            'routines': {nm: {'body': bodies[nm]} for nm in names},
            'top': top,
            'tail': draw(st.sampled_from([0, 0.5, 1, 3]))}
