"""Hypothesis strategy for E1 graph specs (DESIGN.md C01).

All random choices go through `draw`; the spec is assembled bottom-up with a
typed pool so every unit receives inputs its input checks accept (sound by
construction, no filtering). Optimiser-relevant shapes are emitted by macros.
"""

from hypothesis import strategies as st

from . import graph as G

CONSTS = [0, 1, -1, 0.0, -0.0, 1.0, -1.0, 2, 0.5, -0.5, 3.25, 440, 0.1, 7,
          -2.5, 100.0, 0.001]
UN_OPS = sorted(G.UNARY_METHODS)
INFIX_OPS = sorted(G.INFIX)
METHOD_OPS = sorted(G.BINARY_METHODS)
RING_OPS = ['+', '-', '*', '/']
RATES = ['scalar', 'control', 'audio']
SHORT = {'scalar': 'ir', 'control': 'kr', 'audio': 'ar'}


# binary operators that sc3.base.builtins also offers as functions
FUNCTION_OPS = ['absdif', 'amclip', 'atan2', 'clip2', 'difsqr', 'excess',
                'first_arg', 'fold2', 'gcd', 'hypot', 'hypotx', 'lcm', 'max',
                'min', 'pow', 'ring1', 'ring2', 'ring3', 'ring4', 'round',
                'roundup', 'scaleneg', 'sqrdif', 'sqrsum', 'sumsqr', 'thresh',
                'trunc', 'wrap2']


class Gen:
    def __init__(self, draw, params, max_nodes):
        self.draw = draw
        self.params = params
        self.sem = G.SpecSemantics(params=params)
        self.max_nodes = max_nodes
        self.labels = set()
        self.has_local_out = False
        self.depth = 0
        for i in range(len(params)):
            self.add({'k': 'p', 'i': i})

    # -- plumbing -----------------------------------------------------------
    @property
    def nodes(self):
        return self.sem.nodes

    def add(self, n):
        return self.sem.add_node(n)

    def operands(self, pred):
        return [i for i in range(len(self.nodes))
                if self.sem.terms[i][0] != 'multi' and pred(i)]

    def rate(self, i):
        return self.sem.rates[i]

    def is_num(self, i):
        return self.sem.is_num(i)

    def choose(self, cands):
        # bias to recent nodes so deep chains and sharing both happen
        if len(cands) > 3 and self.draw(st.booleans()):
            cands = cands[-3:]
        return self.draw(st.sampled_from(cands))

    def fresh_const(self):
        return self.add({'k': 'c', 'v': self.draw(st.sampled_from(CONSTS))})

    def fresh_signal(self, rate):
        """A new leaf at exactly `rate`."""
        if rate == 'scalar':
            if self.depth < 3 and self.draw(st.integers(0, 3)) == 0:
                return self.unit(only=['Rand', 'IRand'])
            return self.fresh_const()
        names = ['SinOsc', 'LFSaw', 'Dust', 'LFNoise0', 'Impulse', 'Crackle']
        cls = self.draw(st.sampled_from(names))
        return self.unit(only=[cls], rate=SHORT[rate], shallow=True)

    def pick(self, max_rate='audio', exact=None, allow_num=True,
             shallow=False):
        """Operand index: existing node (sharing) or a fresh leaf."""
        if exact is not None:
            pred = lambda i: self.rate(i) == exact and (
                allow_num or not self.is_num(i))
        else:
            pred = lambda i: (G.RATE_ORD[self.rate(i)]
                              <= G.RATE_ORD[max_rate]) and (
                allow_num or not self.is_num(i))
        cands = self.operands(pred)
        if cands and (shallow or self.draw(st.integers(0, 9)) < 7):
            return self.choose(cands)
        if exact is not None:
            r = exact
        else:
            allowed = [r for r in RATES
                       if G.RATE_ORD[r] <= G.RATE_ORD[max_rate]]
            if not allow_num:
                allowed = [r for r in allowed if r != 'scalar'] or allowed
            r = self.draw(st.sampled_from(allowed))
        if r == 'scalar' and not allow_num:
            return self.unit(only=['Rand', 'IRand'])
        return self.fresh_signal(r)

    def pick_signal(self):
        return self.pick(allow_num=False)

    # -- node makers ----------------------------------------------------------
    def unit(self, only=None, rate=None, shallow=False):
        self.depth += 1
        try:
            return self._unit(only, rate, shallow or self.depth > 2)
        finally:
            self.depth -= 1

    def _unit(self, only, rate, shallow):
        names = only or sorted(G.CATALOGUE)
        cls = self.draw(st.sampled_from(names))
        ent = G.CATALOGUE[cls]
        r = rate or self.draw(st.sampled_from(ent['rates']))
        long = ent.get('rate') or G.RATE_LONG[r]
        args = []
        for kind in ent['args']:
            if kind == 'tag':
                args.append('tag')
            elif isinstance(kind, tuple):
                args.append(['lit', kind[1]])
            elif kind == 'eq':
                args.append(self.pick(exact=long, allow_num=(long == 'scalar'),
                                      shallow=shallow))
            else:
                args.append(self.pick(max_rate=long, shallow=True)
                            if shallow else self.pick(max_rate=long))
        i = self.add({'k': 'u', 'cls': cls, 'rate': r, 'args': args})
        self.labels.add('pure_unit' if ent['pure'] else 'impure_unit')
        nout = ent.get('nout', 1)
        if nout > 1:
            self.labels.add('multi_out')
            k = self.draw(st.integers(0, nout - 1))
            return self.add({'k': 'ch', 'a': i, 'i': k})
        return i

    def unop(self):
        a = self.pick_signal()
        op = self.draw(st.sampled_from(UN_OPS + ['neg', '__neg__']))
        return self.add({'k': 'un', 'op': op, 'a': a})

    def binop(self, ring=None):
        if ring is None:
            ring = self.draw(st.integers(0, 9)) < 6
        if ring:
            op = self.draw(st.sampled_from(RING_OPS))
        elif self.draw(st.booleans()):
            op = self.draw(st.sampled_from(INFIX_OPS))
        else:
            op = self.draw(st.sampled_from(METHOD_OPS))
        if not ring and self.draw(st.integers(0, 7)) == 0:
            # the builtins with a default second argument are wrapped by a
            # code path of their own
            op = self.draw(st.sampled_from(['round', 'roundup', 'trunc']))
        a = self.pick_signal()
        mode = self.draw(st.integers(0, 9))
        if mode == 0:
            b = a
            self.labels.add('same_operand_twice')
        elif mode <= 3:
            b = self.fresh_const()
        else:
            b = self.pick()
        if op in G.INFIX and self.draw(st.booleans()):
            a, b = b, a    # number (or other signal) on the left
            if self.is_num(a):
                self.labels.add('number_on_left')
        node = {'k': 'bin', 'op': op, 'a': a, 'b': b}
        if op in FUNCTION_OPS and self.draw(st.integers(0, 2)) == 0:
            # the function spelling of sc3.base.builtins, either order
            # (a plain number may then stand on the left)
            node['fn'] = True
            if self.draw(st.booleans()):
                node['a'], node['b'] = b, a
                if self.is_num(node['a']):
                    self.labels.add('number_on_left_function')
            self.labels.add('function_spelling')
        return self.add(node)

    def madd(self):
        a = self.pick_signal()
        m = self.pick()
        d = self.pick()
        kind = self.draw(st.sampled_from(['madd', 'muladd']))
        if kind == 'muladd' and self.draw(st.integers(0, 3)) == 0:
            # MulAdd.new with the signal in the mul slot
            a, m = m, a
            if self.is_num(a) and self.sem.values[a] == 0:
                # MulAdd.new(0, sig, add) keeps a MulAdd(sig, 0, add) unit
                # running at sig's rate although its value is `add`; the
                # rate bookkeeping of this generator follows the value
                a = self.add({'k': 'c', 'v': 2})
        node = {'k': kind, 'a': a, 'm': m, 'd': d}
        if kind == 'madd' and self.draw(st.integers(0, 2)) == 0:
            # the receiver is one channel of a channel list whose other
            # channels may run at other rates: each channel of the result
            # is what the single call gives
            node['with'] = [self.pick_signal() for _ in range(
                self.draw(st.integers(1, 2)))]
            node['i'] = self.draw(st.integers(0, len(node['with'])))
            self.labels.add('madd_on_channel_list')
        return self.add(node)

    def sumn(self):
        kind = self.draw(st.sampled_from(['sum3', 'sum4', 'sum']))
        n = {'sum3': 3, 'sum4': 4}.get(kind) or self.draw(st.integers(2, 6))
        xs = [self.pick_signal()]
        for _ in range(n - 1):
            xs.append(self.pick())
        # order of the signal among the operands is free
        k = self.draw(st.integers(0, n - 1))
        xs[0], xs[k] = xs[k], xs[0]
        return self.add({'k': kind, 'xs': xs})

    # -- optimiser-shape macros -------------------------------------------------
    def bin_(self, op, a, b):
        return self.add({'k': 'bin', 'op': op, 'a': a, 'b': b})

    def neg_(self, a):
        return self.add({'k': 'un', 'op': '__neg__', 'a': a})

    def macro(self):
        which = self.draw(st.sampled_from(
            ['chain', 'muladd', 'addneg', 'negadd', 'subneg', 'self',
             'shared_inner', 'zero_one']))
        self.labels.add('macro_' + which)
        sig = self.pick_signal
        if which == 'chain':
            n = self.draw(st.integers(2, 5))
            acc = sig()
            for _ in range(n):
                nxt = self.pick()
                if self.draw(st.booleans()):
                    acc = self.bin_('+', acc, nxt)
                else:
                    acc = self.bin_('+', nxt, acc)
                if self.is_num(acc):
                    acc = sig()
            return acc
        if which == 'muladd':
            a, b, c = sig(), self.pick(), self.pick()
            m = self.bin_('*', a, b) if self.draw(st.booleans()) \
                else self.bin_('*', b, a)
            if self.is_num(m):
                return m
            return self.bin_('+', m, c) if self.draw(st.booleans()) \
                else self.bin_('+', c, m)
        if which == 'addneg':
            a, b = self.pick(), sig()
            return self.bin_('+', a, self.neg_(b))
        if which == 'negadd':
            a, b = sig(), self.pick()
            return self.bin_('+', self.neg_(a), b)
        if which == 'subneg':
            a, b = self.pick(), sig()
            return self.bin_('-', a, self.neg_(b))
        if which == 'self':
            x = sig()
            op = self.draw(st.sampled_from(['+', '*', '-', '/', 'min']))
            return self.bin_(op, x, x)
        if which == 'shared_inner':
            # inner node consumed twice (by two consumers or twice by one)
            a, b = sig(), self.pick()
            inner = self.draw(st.sampled_from(['+', '*', 'neg']))
            t = self.neg_(a) if inner == 'neg' else self.bin_(inner, a, b)
            if self.is_num(t):
                return t
            c = self.pick()
            mode = self.draw(st.integers(0, 2))
            if mode == 0:
                return self.bin_('+', t, t)
            r1 = self.bin_('+', t, c)
            op2 = self.draw(st.sampled_from(['+', '-', '*']))
            self.bin_(op2, c, t)
            return r1
        if which == 'zero_one':
            x = sig()
            c = self.add({'k': 'c', 'v': self.draw(st.sampled_from(
                [0, 0.0, -0.0, 1, 1.0, -1, -1.0]))})
            op = self.draw(st.sampled_from(RING_OPS))
            if self.draw(st.booleans()):
                return self.bin_(op, x, c)
            return self.bin_(op, c, x)

    def step(self):
        k = self.draw(st.integers(0, 19))
        if k <= 4:
            return self.unit()
        if k <= 6:
            return self.unop()
        if k <= 11:
            return self.binop()
        if k <= 13:
            return self.madd()
        if k <= 15:
            return self.sumn()
        return self.macro()

    # -- sinks -------------------------------------------------------------------
    def sink(self):
        cls = self.draw(st.sampled_from(
            ['Out', 'Out', 'Out', 'ReplaceOut', 'OffsetOut', 'XOut',
             'SendTrig', 'Free', 'LocalOut', 'Pause', 'DetectSilence']))
        if cls == 'LocalOut':
            if self.has_local_out:
                cls = 'Out'
            self.has_local_out = True
        ent = G.SINKS[cls]
        r = self.draw(st.sampled_from(ent['rates']))
        long = G.RATE_LONG[r]
        args = []
        for kind in ent['args']:
            if kind == 'tag':
                args.append('tag')
            elif kind == 'eq':
                args.append(self.pick(exact=long, allow_num=False))
            else:
                args.append(self.pick(max_rate=long))
        s = {'cls': cls, 'rate': r, 'args': args}
        if not ent.get('nochannels'):
            n = self.draw(st.integers(1, 4))
            xs = []
            for _ in range(n):
                if long == 'audio':
                    if self.draw(st.integers(0, 7)) == 0:
                        xs.append(['lit', self.draw(
                            st.sampled_from([0, 0.0]))])
                        self.labels.add('literal_zero_out')
                    else:
                        xs.append(self.pick(exact='audio', allow_num=False))
                else:
                    xs.append(self.pick(max_rate='control'))
            s['xs'] = xs
            if n == 1 and self.draw(st.booleans()):
                s['unwrap'] = True
        return s


@st.composite
def graph_spec(draw, max_steps=25, name='g'):
    nparams = draw(st.integers(0, 4))
    params = []
    for i in range(nparams):
        params.append({
            'name': f'p{i}',
            'default': draw(st.sampled_from(CONSTS)),
            'rate': draw(st.sampled_from(['kr', 'kr', 'ir', 'tr', 'ar']))})
    g = Gen(draw, params, max_steps)
    steps = draw(st.integers(1, max_steps))
    for _ in range(steps):
        g.step()
    nsinks = draw(st.integers(1, 4))
    sinks = [g.sink() for _ in range(nsinks)]
    return {'name': name, 'params': params, 'nodes': g.nodes, 'sinks': sinks,
            'gen_labels': sorted(g.labels)}
