"""Independent reader for SuperCollider synth definition files, version 2
("SCgf"), written from the file-format description in the SuperCollider
documentation ("Synth Definition File Format"). Uses only `struct`; shares no
code with sc3/synth/_fmtrw.py or synthdesc.py.

    int32  "SCgf"
    int32  version (2)
    int16  number of definitions
    per definition:
      pstring name
      int32 K, K x float32 constants
      int32 P, P x float32 initial parameter values
      int32 N, N x (pstring name, int32 index)  parameter names
      int32 U, U x unit:
          pstring class name, int8 rate, int32 I inputs, int32 O outputs,
          int16 special index,
          I x (int32 unit index | -1, int32 output index | constant index)
          O x int8 output rate
      int16 V, V x (pstring name, P x float32)   variants
"""

import struct


class FormatError(Exception):
    pass


class Reader:
    def __init__(self, data):
        self.d = bytes(data)
        self.p = 0

    def take(self, n):
        if n < 0 or self.p + n > len(self.d):
            raise FormatError(
                f'truncated: need {n} bytes at {self.p}, have '
                f'{len(self.d) - self.p}')
        b = self.d[self.p:self.p + n]
        self.p += n
        return b

    def i8(self):
        return struct.unpack('>b', self.take(1))[0]

    def u8(self):
        return self.take(1)[0]

    def i16(self):
        return struct.unpack('>h', self.take(2))[0]

    def i32(self):
        return struct.unpack('>i', self.take(4))[0]

    def f32(self):
        return struct.unpack('>f', self.take(4))[0]

    def pstr(self):
        n = self.u8()
        raw = self.take(n)
        try:
            return raw.decode('ascii')
        except UnicodeDecodeError:
            raise FormatError(f'non-ASCII pstring {raw!r}')

    def count(self, what, n):
        if n < 0:
            raise FormatError(f'negative {what} count {n}')
        return n


def parse(data):
    """Parse a complete file; returns list of definitions (dicts). Raises
    FormatError on any structural inconsistency or trailing bytes."""
    r = Reader(data)
    if r.take(4) != b'SCgf':
        raise FormatError('bad magic')
    ver = r.i32()
    if ver != 2:
        raise FormatError(f'version {ver}')
    ndefs = r.count('definition', r.i16())
    defs = [parse_def(r) for _ in range(ndefs)]
    if r.p != len(r.d):
        raise FormatError(f'{len(r.d) - r.p} trailing bytes')
    return defs


def parse_def(r):
    d = {'name': r.pstr()}
    k = r.count('constant', r.i32())
    d['constants'] = [r.f32() for _ in range(k)]
    p = r.count('parameter', r.i32())
    d['params'] = [r.f32() for _ in range(p)]
    n = r.count('parameter name', r.i32())
    d['param_names'] = []
    for _ in range(n):
        nm = r.pstr()
        idx = r.i32()
        d['param_names'].append((nm, idx))
    u = r.count('unit', r.i32())
    d['units'] = []
    for ui in range(u):
        unit = {'name': r.pstr(), 'rate': r.i8()}
        ni = r.count('input', r.i32())
        no = r.count('output', r.i32())
        unit['special'] = r.i16()
        unit['inputs'] = [(r.i32(), r.i32()) for _ in range(ni)]
        unit['outputs'] = [r.i8() for _ in range(no)]
        d['units'].append(unit)
    v = r.count('variant', r.i16())
    d['variants'] = []
    for _ in range(v):
        nm = r.pstr()
        vals = [r.f32() for _ in range(p)]
        d['variants'].append((nm, vals))
    return d


def structural_errors(d):
    """Well-formedness beyond parsing: references, ordering, rates."""
    errs = []
    nconst = len(d['constants'])
    for i, u in enumerate(d['units']):
        if u['rate'] not in (0, 1, 2, 3):
            errs.append(f'unit {i} {u["name"]}: rate byte {u["rate"]}')
        for j, (a, b) in enumerate(u['inputs']):
            if a == -1:
                if not 0 <= b < nconst:
                    errs.append(f'unit {i} {u["name"]} input {j}: constant '
                                f'index {b} out of {nconst}')
            elif not 0 <= a < i:
                errs.append(f'unit {i} {u["name"]} input {j}: refers to unit '
                            f'{a}, not strictly earlier')
            elif not 0 <= b < len(d['units'][a]['outputs']):
                errs.append(f'unit {i} {u["name"]} input {j}: output {b} of '
                            f'unit {a} ({d["units"][a]["name"]}) which has '
                            f'{len(d["units"][a]["outputs"])} outputs')
        for j, orate in enumerate(u['outputs']):
            if orate not in (0, 1, 2, 3):
                errs.append(f'unit {i} {u["name"]} output {j}: rate {orate}')
    for nm, idx in d['param_names']:
        if not 0 <= idx < max(len(d['params']), 1) or (
                idx >= len(d['params'])):
            errs.append(f'param name {nm!r} index {idx} out of '
                        f'{len(d["params"])}')
    return errs
