"""RT-simulation worker: a separate interpreter in which sc3 runs in real-time
mode on top of vlib/rtsim.py. One JSON request per line on stdin:
  {'prog': {...}, 'tape': [...], 'horizon': seconds}
one JSON reply per line on stdout."""
import json
import os
import sys


def main():
    sc3_path = sys.argv[1]
    root = os.path.dirname(os.path.dirname(os.path.abspath(__file__)))
    sys.path.insert(0, root)
    out = os.fdopen(os.dup(1), 'w')
    os.dup2(2, 1)
    from vlib import rtsim, prog
    sim = rtsim.install(sc3_path)
    import sc3
    out.write(json.dumps({'ready': os.path.dirname(sc3.__file__)}) + '\n')
    out.flush()
    for line in sys.stdin:
        req = json.loads(line)
        try:
            if 'prog' in req:
                rep = prog.run_rt(sim, req['prog'], req['tape'],
                                  req['horizon'])
            else:
                import importlib
                mod = importlib.import_module(req['module'])
                rep = getattr(mod, req['func'])(sim, req['case'])
        except rtsim.SimDeadlock as e:
            rep = {'deadlock': str(e)}
        except Exception as e:
            import traceback
            tb = e.__traceback__
            while tb.tb_next is not None:
                tb = tb.tb_next
            code = tb.tb_frame.f_code
            fn = os.path.abspath(code.co_filename)
            root_ = os.path.join(os.path.abspath(sc3_path), 'sc3') + os.sep
            rep = {'error': f'{type(e).__name__}: {e}',
                   'tb': traceback.format_exc()[-1500:]}
            if fn.startswith(root_):
                # born inside the library: the check reports a violation
                rep['sc3_origin'] = f'{fn[len(root_):]}:{code.co_name}'
        out.write(json.dumps(rep, default=repr) + '\n')
        out.flush()
    os._exit(0)


if __name__ == '__main__':
    main()
