"""Reference model of envelope specifications (C19), written from the
SuperCollider documentation (Env and EnvGen help files, the server's EnvGen
input layout) and the docstrings of sc3.synth.envelope.Env. Shares no code with
sc3; imports nothing from it.

Server format of one envelope (EnvGen help, "envelope" argument; Env help,
"asArray"):

    [ initial level, number of segments, release node | -99, loop node | -99,
      then per segment:  target level, duration, shape number, curvature ]

Shape numbers (Env help, Env.shapeNames; server EnvGen shape enumeration):
    0 step, 1 linear, 2 exponential, 3 sine, 4 welch, 5 numeric curvature,
    6 squared, 7 cubed, 8 hold.
A named shape encodes as (number, 0); a number c encodes as (5, c).
`times` and `curves` are wrapped around to the number of segments.
An element that is itself a list expands the envelope to several channels
(wrap-and-zip over the flat array, i.e. "flop").
"""

import math

WILD = None   # "not asserted" position in an expected array

SHAPES = {
    'step': 0,
    'lin': 1, 'linear': 1,
    'exp': 2, 'exponential': 2,
    'sin': 3, 'sine': 3,
    'wel': 4, 'welch': 4,
    'sqr': 6, 'squared': 6,
    'cub': 7, 'cubed': 7,
    'hold': 8,
}
NAMES = sorted(SHAPES)
FIELD = ['initial_level', 'segment_count', 'release_node', 'loop_node']
SEGFIELD = ['segment_level', 'segment_time', 'segment_shape',
            'segment_curvature']


def field_name(i):
    return FIELD[i] if i < 4 else SEGFIELD[(i - 4) % 4]


def shape_of(c):
    """(shape number, curvature) of one curve entry."""
    if isinstance(c, str):
        return SHAPES[c], 0
    return 5, c


def as_list(x):
    return list(x) if isinstance(x, (list, tuple)) else [x]


def flat_array(levels, times, curves, rel, loop):
    """The (possibly list-valued) flat array before channel expansion."""
    n = len(levels) - 1
    tl = as_list(times)
    cl = as_list(curves)
    arr = [levels[0], n, -99 if rel is None else rel,
           -99 if loop is None else loop]
    for i in range(n):
        sh, cv = shape_of(cl[i % len(cl)])
        arr += [levels[i + 1], tl[i % len(tl)], sh, cv]
    return arr


def flop(arr):
    """Wrap-and-zip channel expansion of a flat array."""
    m = max((len(x) for x in arr if isinstance(x, list)), default=1)
    return [[x[ch % len(x)] if isinstance(x, list) else x for x in arr]
            for ch in range(m)]


def encode(levels, times=(1, 1), curves='lin', rel=None, loop=None):
    """Expected server arrays, one per channel."""
    return flop(flat_array(levels, times, curves, rel, loop))


# --- constructors -------------------------------------------------------------
# name -> (ordered parameters with documented defaults, breakpoints function).
# The function returns (levels, times, curves, release node, loop node); an
# entry may be WILD where the documentation does not pin it down.

def _triangle(p):
    return [0, p['level'], 0], [p['dur'] * 0.5] * 2, 'lin', None, None


def _sine(p):
    return [0, p['level'], 0], [p['dur'] * 0.5] * 2, 'sine', None, None


def _perc(p):
    return ([0, p['level'], 0], [p['attack_time'], p['release_time']],
            p['curve'], None, None)


def _linen(p):
    return ([0, p['level'], p['level'], 0],
            [p['attack_time'], p['sustain_time'], p['release_time']],
            p['curve'], None, None)


def _cutoff(p):
    c = p['curve']
    expo = isinstance(c, str) and SHAPES[c] == 2
    # exponential segments cannot reach zero; neither documentation says
    # which small level is used instead
    return ([p['level'], WILD if expo else 0], [p['release_time']], c, 0,
            None)


def _adsr(p):
    pk, b = p['peak_level'], p['bias']
    return ([0 + b, pk + b, pk * p['sustain_level'] + b, 0 + b],
            [p['attack_time'], p['decay_time'], p['release_time']],
            p['curve'], 2, None)


def _dadsr(p):
    pk, b = p['peak_level'], p['bias']
    return ([0 + b, 0 + b, pk + b, pk * p['sustain_level'] + b, 0 + b],
            [p['delay_time'], p['attack_time'], p['decay_time'],
             p['release_time']], p['curve'], 3, None)


def _asr(p):
    return ([0, p['sustain_level'], 0], [p['attack_time'], p['release_time']],
            p['curve'], 1, None)


CTORS = {
    'triangle': ([('dur', 1.0), ('level', 1.0)], _triangle),
    'sine': ([('dur', 1.0), ('level', 1.0)], _sine),
    'perc': ([('attack_time', 0.01), ('release_time', 1.0), ('level', 1.0),
              ('curve', -4.0)], _perc),
    'linen': ([('attack_time', 0.01), ('sustain_time', 1.0),
               ('release_time', 1.0), ('level', 1.0), ('curve', 'lin')],
              _linen),
    'cutoff': ([('release_time', 0.1), ('level', 1.0), ('curve', 'lin')],
               _cutoff),
    'adsr': ([('attack_time', 0.01), ('decay_time', 0.3),
              ('sustain_level', 0.5), ('release_time', 1.0),
              ('peak_level', 1.0), ('curve', -4.0), ('bias', 0.0)], _adsr),
    'dadsr': ([('delay_time', 0.1), ('attack_time', 0.01),
               ('decay_time', 0.3), ('sustain_level', 0.5),
               ('release_time', 1.0), ('peak_level', 1.0), ('curve', -4.0),
               ('bias', 0.0)], _dadsr),
    'asr': ([('attack_time', 0.01), ('sustain_level', 1.0),
             ('release_time', 1.0), ('curve', -4.0)], _asr),
}


def ctor_expected(name, args):
    """Expected channel arrays (with WILD holes) of a parametric constructor
    called with keyword arguments `args` (others at their defaults)."""
    params, fn = CTORS[name]
    p = {k: d for k, d in params}
    p.update(args)
    levels, times, curves, rel, loop = fn(p)
    return encode(levels, times, curves, rel, loop)


def step_expected(levels=None, times=None, rel_given=False, loop_given=False):
    """Env.step: n levels, n times; each segment is a horizontal line at the
    corresponding level (first level repeated as the initial level, every
    shape 'step'). The numbering of release/loop arguments differs between
    the sc3 docstring (index of a *level*) and the SuperCollider help
    (a *node*, passed through): only their absence (-99) is asserted."""
    levels = [0, 1] if levels is None else levels
    times = [1, 1] if times is None else times
    arr = flat_array([levels[0]] + list(levels), times, 'step', None, None)
    if rel_given:
        arr[2] = WILD
    if loop_given:
        arr[3] = WILD
    return flop(arr)


def xyc_expected(points):
    """Env.xyc / Env.pairs: control points [time, level, curve] sorted by
    time; durations are the time differences; the curve given with a point
    shapes the segment that starts there (the last one is unused)."""
    pts = sorted(points, key=lambda q: q[0])
    levels = [q[1] for q in pts]
    times = [b[0] - a[0] for a, b in zip(pts, pts[1:])]
    curves = [q[2] for q in pts[:-1]]
    return encode(levels, times, curves, None, None)


# --- client-side evaluation laws -------------------------------------------------

def breakpoints(times):
    """Breakpoint times (left fold; callers use dyadic durations, so any
    summation order gives the same doubles)."""
    ts = [0.0]
    for d in times:
        ts.append(ts[-1] + d)
    return ts


def at_law(levels, times, curves, t):
    """What the statement allows Env.at(t) to return, for t >= 0 and a
    single-channel envelope with offset 0.

    returns (clause, allowed) where allowed is
        ('one_of', [values])      the value equals one of these levels
        ('between', lo, hi)       lo <= value <= hi
    clause names the law: 'breakpoint', 'inside', 'after', 'step', 'hold'.
    """
    n = len(levels) - 1
    tl = as_list(times)
    cl = as_list(curves)
    durs = [tl[i % len(tl)] for i in range(n)]
    shp = [shape_of(cl[i % len(cl)])[0] for i in range(n)]
    T = breakpoints(durs)
    if t > T[n]:
        return 'after', ('one_of', [levels[n]])
    hit = [k for k in range(n + 1) if T[k] == t]
    if hit:
        vals = [levels[k] for k in hit]
        last = hit[-1]
        # a step segment "immediately jumps to the final value": at the
        # instant it starts either neighbouring level is the envelope's level
        if last < n and shp[last] == 0:
            vals.append(levels[last + 1])
        return 'breakpoint', ('one_of', vals)
    k = max(j for j in range(n) if T[j] < t)
    a, b = levels[k], levels[k + 1]
    if shp[k] == 0:
        return 'step', ('one_of', [b])
    if shp[k] == 8:
        return 'hold', ('one_of', [a])
    return 'inside', ('between', min(a, b), max(a, b))


def shape_precondition_ok(shape, a, b):
    """Documented level preconditions of a segment a -> b."""
    if shape == 2:     # exponential: non-zero, same sign
        return a != 0 and b != 0 and (a > 0) == (b > 0)
    if shape in (6, 7):  # squared / cubed: square / cube roots of the levels
        return a >= 0 and b >= 0
    return True


def finite_number(x):
    return isinstance(x, (int, float)) and not isinstance(x, bool) \
        and math.isfinite(x)
