"""Reference build worker for C20: a separate interpreter (own PYTHONHASHSEED,
own sc3 mode) that builds graph specs on request and returns the bytes.

stdin : one JSON object per line {'gen': 'c01'|'mc'|'env', 'spec': {...}}
stdout: one JSON object per line {'hex': '...'} | {'error': 'Type: msg'}
argv  : mode ('rt'|'nrt'), sc3 path, port offset
"""
import json
import os
import sys


def main():
    mode, sc3_path, port = sys.argv[1], sys.argv[2], int(sys.argv[3])
    root = os.path.dirname(os.path.dirname(os.path.abspath(__file__)))
    sys.path.insert(0, root)
    sys.path.insert(0, sc3_path)
    out = os.fdopen(os.dup(1), 'w')
    os.dup2(2, 1)     # anything the library prints goes to stderr
    import logging
    import sc3
    sc3.LIB_PORT = port
    sc3.LIB_PORT_RANGE = 400
    sc3.init(mode, verbosity='CRITICAL', blocking=True)
    logging.getLogger().setLevel(logging.CRITICAL + 10)
    from vlib import graph, mcgen
    out.write(json.dumps({'ready': mode,
                          'hashseed': os.environ.get('PYTHONHASHSEED')})
              + '\n')
    out.flush()
    for line in sys.stdin:
        req = json.loads(line)
        try:
            if req['gen'] == 'env':
                from vlib import envdef
                b = envdef.builder(req['spec'])
            else:
                b = (graph.Builder if req['gen'] == 'c01'
                     else mcgen.Builder)(req['spec'])
            data = b.build()
            rep = {'hex': data.hex()}
        except Exception as e:
            rep = {'error': f'{type(e).__name__}: {e}'}
        out.write(json.dumps(rep) + '\n')
        out.flush()
    os._exit(0)


if __name__ == '__main__':
    main()
