"""Deterministic simulation of sc3's real-time mode (DESIGN.md E3).

Before `sc3.init('rt')` the names `threading` and `time` of sc3.base.clock and
sc3.base.main are replaced by shims and RtMain._main_lock by a simulated
re-entrant lock. Every clock thread then is a *simulated thread*: a real
Python thread that only runs while it holds the baton. Exactly one simulated
thread (or the driver = the test body) runs at any moment; control changes
hands only at synchronisation operations of the library itself (lock
acquisition, Condition.wait/notify, thread start/exit/join, sleep) and the
choice of who runs next, as well as the latency added to every timed
wake-up, comes from a *tape* of small integers that is part of the test
case. Time is virtual: `time.time()` returns EPOCH + now and `now` only moves
when no thread is runnable (to the earliest deadline, plus tape jitter).
"""

import threading as _real
import types

EPOCH = float(2 ** 20)          # exactly representable with dyadic offsets
JITTERS = [0.0, 0.0, 1 / 1024, 1 / 256, 1 / 128, 1 / 64]
MAX_JITTER = 1 / 64


class SimDeadlock(Exception):
    pass


class SimThread:
    def __init__(self, sim, target=None, name=None, daemon=None, args=(),
                 kwargs=None, group=None):
        self.sim = sim
        self.target = target
        self.name = name or f'sim-{len(sim.threads)}'
        self.daemon = daemon
        self.args = args
        self.kwargs = kwargs or {}
        self.state = 'new'
        self.deadline = None
        self.notified = False
        self.timed_out = False
        self.joiners = []
        self._go = _real.Semaphore(0)
        self.real = None
        self.ident = None
        self.exc = None

    # threading.Thread API used by the library
    def start(self):
        sim = self.sim
        self.real = _real.Thread(target=self._bootstrap, name=self.name,
                                 daemon=True)
        self.state = 'runnable'
        sim.threads.append(self)
        self.real.start()
        sim.event('start', self.name)
        sim.yield_point()

    def _bootstrap(self):
        self._go.acquire()           # wait for the baton
        self.sim.by_ident[_real.get_ident()] = self
        try:
            self.target(*self.args, **self.kwargs)
        except BaseException as e:   # noqa - reported to the driver
            self.exc = e
            self.sim.thread_errors.append((self.name, e))
        finally:
            self.state = 'finished'
            for j in self.joiners:
                if j.state == 'joining':
                    j.state = 'runnable'
            self.sim.event('exit', self.name)
            self.sim.switch(exiting=True)

    def join(self, timeout=None):
        me = self.sim.me()
        if self.state == 'finished' or me is self:
            return
        me.state = 'joining'
        self.joiners.append(me)
        self.sim.switch()

    def is_alive(self):
        return self.state not in ('new', 'finished')


class SimRLock:
    def __init__(self, sim):
        self.sim = sim
        self.owner = None
        self.count = 0
        self.waiters = []

    def acquire(self, blocking=True, timeout=-1):
        sim = self.sim
        me = sim.me()
        if self.owner is me:
            self.count += 1
            return True
        sim.yield_point()            # before a first acquisition
        while self.owner is not None:
            if not blocking:
                return False
            me.state = 'blocked'
            self.waiters.append(me)
            sim.event('block', me.name)
            sim.switch()
        self.owner = me
        self.count = 1
        return True

    def release(self):
        me = self.sim.me()
        if self.owner is not me:
            raise RuntimeError('cannot release un-acquired lock')
        self.count -= 1
        if self.count == 0:
            self.owner = None
            for w in self.waiters:
                if w.state == 'blocked':
                    w.state = 'runnable'
            self.waiters = []

    __enter__ = acquire

    def __exit__(self, *a):
        self.release()

    def locked(self):
        return self.owner is not None

    # Condition support
    def _is_owned(self):
        return self.owner is self.sim.me()

    def _release_save(self):
        c = self.count
        self.count = 1
        self.release()
        return c

    def _acquire_restore(self, c):
        me = self.sim.me()
        while self.owner is not None:
            me.state = 'blocked'
            self.waiters.append(me)
            self.sim.switch()
        self.owner = me
        self.count = c


class SimCondition:
    def __init__(self, sim, lock=None):
        self.sim = sim
        self.lock = lock if lock is not None else SimRLock(sim)
        self.waiters = []
        self.acquire = self.lock.acquire
        self.release = self.lock.release

    def __enter__(self):
        return self.lock.__enter__()

    def __exit__(self, *a):
        return self.lock.__exit__(*a)

    def wait(self, timeout=None):
        sim = self.sim
        me = sim.me()
        if not self.lock._is_owned():
            raise RuntimeError('cannot wait on un-acquired lock')
        if timeout is not None and not timeout <= _real.TIMEOUT_MAX:
            # as threading.Condition.wait does for inf / nan / huge values
            raise OverflowError('timestamp out of range for platform time_t')
        saved = self.lock._release_save()
        me.state = 'waiting'
        me.notified = False
        me.timed_out = False
        me.cond = self
        me.deadline = None if timeout is None else sim.now + max(timeout, 0.0)
        self.waiters.append(me)
        sim.event('wait', me.name, None if timeout is None else me.deadline)
        sim.switch()
        if me in self.waiters:
            self.waiters.remove(me)
        me.deadline = None
        self.lock._acquire_restore(saved)
        return me.notified

    def notify(self, n=1):
        if not self.lock._is_owned():
            raise RuntimeError('cannot notify on un-acquired lock')
        woken = 0
        for w in list(self.waiters):
            if woken >= n:
                break
            if w.state == 'waiting':
                w.notified = True
                w.state = 'runnable'
                w.deadline = None
                self.waiters.remove(w)
                woken += 1
        self.sim.event('notify', self.sim.me().name, woken)

    def notify_all(self):
        self.notify(len(self.waiters) + 1)


class Sim:
    def __init__(self):
        self.now = 0.0
        self.threads = []
        self.by_ident = {}
        self.tape = []
        self.tape_pos = 0
        self.thread_errors = []
        self.events = None          # list when recording
        self.total_jitter = 0.0
        self.driver = SimThread(self, name='driver')
        self.driver.state = 'runnable'
        self.driver.real = _real.current_thread()
        self.threads.append(self.driver)
        self.by_ident[_real.get_ident()] = self.driver
        self.current = self.driver
        self.idle_target = None

    # -- identity ---------------------------------------------------------------
    def me(self):
        t = self.by_ident.get(_real.get_ident())
        if t is None:
            # a thread the library started outside the shim (UDP receive
            # thread): it takes part as an extra simulated thread
            t = SimThread(self, name=f'foreign-{_real.get_ident()}')
            t.state = 'runnable'
            t.real = _real.current_thread()
            self.threads.append(t)
            self.by_ident[_real.get_ident()] = t
        return t

    def event(self, *a):
        if self.events is not None:
            self.events.append((self.now,) + a)

    def draw(self, n):
        """Next tape value modulo n (the tape is read cyclically; an empty
        tape means: never pre-empt, no jitter)."""
        if self.tape:
            v = self.tape[self.tape_pos % len(self.tape)] % n
            self.tape_pos += 1
            return v
        return 0

    # -- scheduling ----------------------------------------------------------------
    def yield_point(self):
        """The running thread may be pre-empted here (tape decides)."""
        me = self.me()
        others = [t for t in self.threads
                  if t.state == 'runnable' and t is not me]
        if not others:
            return
        if self.draw(4) != 3:
            return                     # keep running (3 in 4)
        self.event('preempt', me.name)
        self.switch(to=others[self.draw(len(others))])

    def pick(self):
        while True:
            runnable = [t for t in self.threads if t.state == 'runnable']
            if runnable:
                if len(runnable) == 1:
                    return runnable[0]
                return runnable[self.draw(len(runnable))]
            timed = [t for t in self.threads
                     if t.state in ('waiting', 'sleeping')
                     and t.deadline is not None]
            cands = [t.deadline for t in timed]
            idle = self.driver.state == 'idle'
            if idle and self.idle_target is not None:
                cands.append(self.idle_target)
            if not cands:
                if idle:
                    # quiescent for ever: give control back to the driver
                    self.driver.state = 'runnable'
                    self.driver.quiescent = True
                    continue
                raise SimDeadlock('no runnable thread and no deadline')
            d = min(cands)
            if d > self.now:
                self.now = d
            expired = [t for t in timed if t.deadline <= self.now]
            if expired:
                # wake-up latency of the timed wait(s), from the tape
                j = JITTERS[self.draw(len(JITTERS))]
                if j:
                    self.now += j
                    self.total_jitter += j
                for t in timed:
                    if t.deadline <= self.now:
                        t.state = 'runnable'
                        t.timed_out = True
                        t.deadline = None
                self.event('advance', self.now)
            elif idle and self.idle_target is not None \
                    and self.idle_target <= self.now:
                self.driver.state = 'runnable'

    def switch(self, to=None, exiting=False):
        """Hand the baton to another thread and wait to get it back."""
        me = self.me()
        try:
            nxt = to or self.pick()
        except SimDeadlock as e:
            self.deadlock = e
            nxt = self.driver
            self.driver.state = 'runnable'
        if nxt is me and not exiting:
            return
        self.current = nxt
        nxt._go.release()
        if not exiting:
            me._go.acquire()
            self.current = me

    # -- driver API ------------------------------------------------------------------
    def run_until(self, t):
        """Let simulated threads run until virtual time t with nobody
        runnable (or until nothing can ever happen again)."""
        d = self.driver
        assert self.me() is d
        d.quiescent = False
        while True:
            d.state = 'idle'
            self.idle_target = t
            self.switch()
            self.idle_target = None
            if getattr(self, 'deadlock', None):
                e, self.deadlock = self.deadlock, None
                raise e
            if d.quiescent or self.now >= t:
                break
        if self.now < t:
            self.now = t
        return self.now

    def settle(self):
        """Run until no simulated thread is runnable at the current time."""
        return self.run_until(self.now)

    def spawn(self, fn, name):
        """Run fn in a simulated thread (e.g. 'another caller')."""
        t = SimThread(self, target=fn, name=name)
        t.start()
        return t

    # -- shims -------------------------------------------------------------------------
    def threading_module(self):
        sim = self
        m = types.SimpleNamespace()
        m.Thread = lambda *a, **k: SimThread(sim, *a, **k)
        m.RLock = lambda: SimRLock(sim)
        m.Lock = lambda: SimRLock(sim)
        m.Condition = lambda lock=None: SimCondition(sim, lock)
        m.Event = _real.Event
        m.current_thread = lambda: sim.me()
        m.main_thread = lambda: sim.driver
        m.get_ident = _real.get_ident
        return m

    def time_module(self):
        sim = self
        m = types.SimpleNamespace()
        m.time = lambda: EPOCH + sim.now
        m.monotonic = lambda: sim.now

        def sleep(x):
            me = sim.me()
            me.state = 'sleeping'
            me.deadline = sim.now + max(x, 0.0)
            sim.switch()
            me.deadline = None
        m.sleep = sleep
        import time as _t
        m.strftime = _t.strftime
        return m


def install(sc3_path='/repo'):
    """Patch the library and initialise RT mode. Returns the Sim."""
    import sys
    if sys.path[0] != sc3_path:
        sys.path.insert(0, sc3_path)
    import logging
    import sc3
    import sc3.base.main as M
    import sc3.base.clock as C
    sim = Sim()
    M.RtMain._main_lock = SimRLock(sim)
    M.threading = sim.threading_module()
    C.threading = sim.threading_module()
    M.time = sim.time_module()
    import os
    sc3.LIB_PORT = 20000 + (os.getpid() * 13) % 30000
    sc3.LIB_PORT_RANGE = 400
    sc3.init('rt', verbosity='CRITICAL', blocking=True)
    logging.getLogger().setLevel(logging.CRITICAL + 10)
    sim.settle()
    return sim
