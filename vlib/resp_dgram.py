"""C18 - deviation scanner for hostile datagrams.

`vlib.osc_ref.decode_packet` decides *whether* a datagram is well-formed OSC
1.0 (strict) and stops at the first problem.  A fuzzed datagram usually has
several problems; to attribute a wrongly dispatched datagram to a root cause
the check needs *all* of them.  `deviations(data)` walks the bytes the way
any reader must (OSC 1.0: "OSC Packets", "OSC Messages", "OSC Bundles",
"Atomic Data Types") and collects every deviation it can still see, carrying
on where the structure allows it.  Written from the specification; no sc3
import.  It never decides the verdict - only names the reasons.

Deviation names
---------------
bundle level : truncated_bundle_header, truncated_element_size,
               negative_element_size, empty_element, misaligned_element_size,
               element_overruns, unidentified_content (an element, or the
               datagram, that is neither "/..." nor "#bundle\\0")
message level: size_not_multiple_of_4, unterminated_string, truncated_string,
               nonzero_padding, bad_utf8, tags_without_comma,
               unknown_type_tag, unbalanced_array, truncated_<type>,
               negative_blob_size, truncated_blob, truncated_blob_padding,
               trailing_bytes
"""

import struct

BUNDLE_TAG = b'#bundle\x00'

_FIXED = {'i': ('int32', 4), 'f': ('float32', 4), 'c': ('char', 4),
          'r': ('rgba', 4), 'm': ('midi', 4), 'h': ('int64', 8),
          't': ('timetag', 8), 'd': ('float64', 8)}

#: types every OSC 1.0 implementation must understand
STANDARD_TAGS = set('ifsb')


def _pad4(n):
    return (n + 3) & ~3


def _string(data, pos, out):
    """-> (bytes, next position) or (None, None) when it cannot be read."""
    end = data.find(b'\x00', pos)
    if end < 0:
        out.add('unterminated_string')
        return None, None
    nxt = pos + _pad4(end - pos + 1)
    if nxt > len(data):
        out.add('truncated_string')
        return None, None
    if any(data[end:nxt]):
        out.add('nonzero_padding')
    raw = data[pos:end]
    try:
        raw.decode('utf-8')
    except UnicodeDecodeError:
        out.add('bad_utf8')
    return raw, nxt


def _message(data, out):
    if len(data) % 4:
        out.add('size_not_multiple_of_4')
    addr, pos = _string(data, 0, out)
    if addr is None:
        return
    if pos == len(data):
        return                      # no type tag string: old-style sender
    tags, pos = _string(data, pos, out)
    if tags is None:
        return
    if not tags.startswith(b','):
        out.add('tags_without_comma')
        return
    depth = 0
    for t in tags[1:].decode('latin-1'):
        if t in _FIXED:
            name, n = _FIXED[t]
            if pos + n > len(data):
                out.add('truncated_' + name)
                return
            pos += n
        elif t in 'sS':
            s, pos = _string(data, pos, out)
            if s is None:
                return
        elif t == 'b':
            if pos + 4 > len(data):
                out.add('truncated_blob_size')
                return
            n = struct.unpack('>i', data[pos:pos + 4])[0]
            pos += 4
            if n < 0:
                out.add('negative_blob_size')
                return
            if pos + n > len(data):
                out.add('truncated_blob')
                return
            if pos + _pad4(n) > len(data):
                # all n bytes are there, only the final padding is cut off
                out.add('truncated_blob_padding')
                return
            if any(data[pos + n:pos + _pad4(n)]):
                out.add('nonzero_padding')
            pos += _pad4(n)
        elif t in 'TFNI':
            pass
        elif t == '[':
            depth += 1
        elif t == ']':
            depth -= 1
            if depth < 0:
                out.add('unbalanced_array')
                return
        else:
            out.add('unknown_type_tag')
            return                  # size of its data is not known
    if depth:
        out.add('unbalanced_array')
    if pos != len(data):
        out.add('trailing_bytes')


def _bundle(data, out, todo):
    if len(data) % 4:
        out.add('size_not_multiple_of_4')
    if len(data) < 16:
        out.add('truncated_bundle_header')
        return
    i = 16
    while i < len(data):
        if i + 4 > len(data):
            out.add('truncated_element_size')
            return
        n = struct.unpack('>i', data[i:i + 4])[0]
        i += 4
        if n < 0:
            out.add('negative_element_size')
            return
        if n == 0:
            out.add('empty_element')
            continue
        if n % 4:
            out.add('misaligned_element_size')
        if i + n > len(data):
            out.add('element_overruns')
            n = len(data) - i
        todo.append(data[i:i + n])
        i += n


def _walk(data, on_message, out):
    """Iterative (any nesting depth) walk over the packet tree."""
    todo = [bytes(data)]
    while todo:
        d = todo.pop()
        if d.startswith(BUNDLE_TAG):
            _bundle(d, out, todo)
        elif d.startswith(b'/'):
            on_message(d)
        else:
            out.add('unidentified_content')


def deviations(data):
    """Set of deviation names of `data` from OSC 1.0 (empty = none seen)."""
    out = set()
    _walk(data, lambda d: _message(d, out), out)
    return out


def tags_used(data):
    """Set of type tag characters used by the messages of the packet (as far
    as their type tag strings can be read)."""
    found = set()

    def on_message(d):
        scratch = set()
        a, pos = _string(d, 0, scratch)
        if a is None or pos >= len(d):
            return
        t, pos = _string(d, pos, scratch)
        if t:
            found.update(t.decode('latin-1').lstrip(','))
    _walk(data, on_message, set())
    return found
