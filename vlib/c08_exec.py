"""C08 executor: runs inside the RT-simulation worker (vlib/worker_rtsim.py).

case = {'clocks': [tempo, ...],
        'threads': [[op, ...], ...],     thread 0 is the main thread (driver)
        'tape': [...], 'horizon': seconds}
ops: ['sleep', d] | ['sched', clock, delta, task] | ['sched_abs', clock, off,
     task] | ['clear', clock] | ['stop', i] | ['tempo'|'etempo', i, v]
clock: 'sys' | 'app' | int (TempoClock index)
task: an id into case['tasks'] = {id: {'rets': [...], 'do': [ops],
'routine': bool}}; the same id scheduled again uses the same object (the
clock moves it). rets are returned (yielded, for routines) by successive
invocations: number (re-schedule), None, 'str' (a non-number), 'inf' (the
float inf: never again), 'raise', 'stop' (raise StopStream).
Returns the observed history; the oracle lives in checks/c08.py.
"""


class TaskError(Exception):
    pass


def run(sim, case):
    from sc3.base.main import main
    from sc3.base import clock as clk
    from sc3.base import stream as stm

    sim.tape = list(case['tape'])
    sim.tape_pos = 0
    # no state of an earlier case leaks into this one
    main._in_awake_call = False
    main.current_tt = main.main_tt
    sim.total_jitter = 0.0
    sim.thread_errors = []
    clk.SystemClock.clear()
    clk.AppClock.clear()
    sim.settle()
    sim.events = []
    t0 = sim.now
    l0 = main.elapsed_time()
    clocks = [clk.TempoClock(t) for t in case['clocks']]
    hist = []
    seq = [0]

    def cl(ref):
        if ref == 'sys':
            return clk.SystemClock
        if ref == 'app':
            return clk.AppClock
        return clocks[ref]

    def rec(**kw):
        kw['n'] = seq[0]
        kw['t'] = sim.now - t0
        seq[0] += 1
        hist.append(kw)

    objs = {}

    def get_task(tid):
        if tid not in objs:
            objs[tid] = make_task(tid, case['tasks'][str(tid)])
        return objs[tid]

    def step(tid, spec, k, clock):
        """One invocation: record, side ops, pick the return value."""
        cname = ('sys' if clock is clk.SystemClock else
                 'app' if clock is clk.AppClock else clocks.index(clock))
        rec(ev='inv', task=tid, k=k, clock=cname,
            L=main.current_tt._seconds - l0,
            beats=(clock.beats if isinstance(clock, clk.TempoClock)
                   else None))
        if k == 0:
            for op in spec.get('do', []):
                do(op, 'task%d' % tid)
        rets = spec['rets']
        r = rets[k] if k < len(rets) else None
        if r == 'inf':
            r = float('inf')
        # the clock re-schedules after the task returns: this record
        # orders that re-scheduling among the other calls
        rec(ev='ret', task=tid, k=k, clock=cname)
        return r

    def make_task(tid, spec):
        if spec.get('routine'):
            def gen(inval):
                k = 0
                while True:
                    _, clock = inval
                    r = step(tid, spec, k, clock)
                    k += 1
                    if r == 'raise':
                        raise TaskError('injected')
                    if r == 'stop' or r is None:
                        return
                    inval = yield r
            gen.__qualname__ = 'c08.routine%d' % tid
            return stm.Routine(gen)
        state = {'k': 0}

        def task(fn_self, clock):
            k = state['k']
            state['k'] += 1
            r = step(tid, spec, k, clock)
            if r == 'raise':
                raise TaskError('injected')
            if r == 'stop':
                raise stm.StopStream()
            return r
        task.__qualname__ = 'c08.task%d' % tid
        # one awakeable object per task: scheduling it again moves it
        from sc3.base.functions import Function
        return Function(task)

    def do(op, who):
        k = op[0]
        if k == 'sched' or k == 'sched_abs':
            c = cl(op[1])
            t = get_task(op[3])
            L = main.current_tt._seconds - l0
            base = None
            # records are written right after the call returns: no lock
            # operation lies in between, so record order = effect order
            try:
                if k == 'sched':
                    c.sched(op[2], t)
                    rec(ev='sched', who=who, clock=op[1], delta=op[2],
                        task=op[3], L=L)
                else:
                    if isinstance(c, clk.TempoClock):
                        when = c.beats + op[2]
                    else:
                        when = main.current_tt._seconds + op[2]
                    c.sched_abs(when, t)
                    rec(ev='sched_abs', who=who, clock=op[1], when=(
                        when if isinstance(c, clk.TempoClock)
                        else when - l0), task=op[3], L=L)
            except clk.ClockNotRunning:
                rec(ev='not_running', who=who, clock=op[1],
                    task=op[3])
        elif k == 'clear':
            cl(op[1]).clear()
            rec(ev='clear', who=who, clock=op[1])
        elif k == 'stop':
            c = clocks[op[1]]
            rec(ev='stop', who=who, clock=op[1])
            c.stop()
        elif k in ('tempo', 'etempo'):
            c = clocks[op[1]]
            # (the setter is several steps: where exactly a concurrent call
            # of another thread falls between this marker and the record
            # below is not observable)
            rec(ev='tempo_start', who=who, clock=op[1])
            try:
                b = c.beats
                if k == 'etempo':
                    # tempo change at the physical present, which is the
                    # logical time of the main thread, the only caller
                    c.etempo(op[2])
                else:
                    c.tempo = op[2]
                rec(ev='tempo', who=who, clock=op[1], tempo=op[2], beats=b,
                    L=main.current_tt._seconds - l0)
            except clk.ClockNotRunning:
                rec(ev='not_running', who=who, clock=op[1], task=None)

    def script(ops, who, is_driver):
        for op in ops:
            if op[0] == 'sleep':
                if is_driver:
                    sim.run_until(sim.now + op[1])
                else:
                    clk.threading  # noqa
                    import sc3.base.main as M
                    M.time.sleep(op[1])
            else:
                do(op, who)

    threads = []
    for i, ops in enumerate(case['threads'][1:], 1):
        threads.append(sim.spawn(
            (lambda o, n: (lambda: script(o, n, False)))(ops, 'th%d' % i),
            'caller-%d' % i))
    script(case['threads'][0], 'main', True)
    sim.run_until(t0 + case['horizon'])
    alive = {'sys': clk.SystemClock._thread.is_alive(),
             'app': clk.AppClock._thread.is_alive()}
    for i, c in enumerate(clocks):
        alive[str(i)] = bool(c._thread is not None and c._thread.is_alive())
    events = [e for e in sim.events if e[1] in ('preempt',)]
    for c in clocks:
        try:
            c.stop()
        except Exception:
            pass
    sim.settle()
    sim.threads = [t for t in sim.threads if t.state != 'finished']
    ev, sim.events = sim.events, None
    return {'hist': hist, 'alive': alive, 'jitter': sim.total_jitter,
            'preempts': len(events),
            'errors': [f'{n}: {e!r}' for n, e in sim.thread_errors],
            'waits': [(e[0] - t0, e[2], (e[3] - t0) if e[3] is not None
                       else None) for e in ev if e[1] == 'wait'],
            'end': sim.now - t0}
