"""Multichannel / width-first graph specs for C02 (and C20): generator and builder.

Values are single signals or (nested) channel lists; the generator tracks, per
node, the set of rates its leaves may have (a superset), which is enough to
satisfy rate constraints soundly: a slot that needs "every channel at rate R"
is only given nodes whose possible-rate set is {R}.

nodes:  {'k':'c','v':x} | {'k':'p','i':n} | {'k':'list','xs':[ref..]}
        {'k':'u','cls','rate','args':[ref|['lit',v]]} | {'k':'idx','a','i'}
        {'k':'bin','op','a','b'} | {'k':'un','op','a'} | {'k':'madd','a','m','d'}
        {'k':'sum','a'} | width-first: {'k':'localbuf','frames','channels'}
        {'k':'setbuf','buf','values','offset'} {'k':'clearbuf','buf'}
        {'k':'fft','buf','in'} {'k':'pv','cls','chain','arg'} {'k':'ifft','chain'}
        {'k':'randseed','rate','trig','seed'} {'k':'randid','rate','id'}
sinks:  {'cls','rate','bus':int,'x':ref}
"""

from hypothesis import strategies as st

ORD = {'scalar': 0, 'control': 1, 'audio': 2}
LONG = {'ir': 'scalar', 'kr': 'control', 'ar': 'audio', 'new': 'scalar'}

# cls -> (rates, arg kinds, number of outputs per instance)
UNITS = {
    'SinOsc': (['ar', 'kr'], ['sig', 'sig'], 1),
    'LFSaw': (['ar', 'kr'], ['sig', 'sig'], 1),
    'LFPulse': (['ar', 'kr'], ['sig', 'sig', 'sig'], 1),
    'LPF': (['ar', 'kr'], ['eq', 'sig'], 1),
    'Lag': (['ar', 'kr'], ['eq', 'sig'], 1),
    'DelayN': (['ar', 'kr'], ['eq', 'sig', 'sig'], 1),
    'Dust': (['ar', 'kr'], ['sig'], 1),
    'LFNoise0': (['ar', 'kr'], ['sig'], 1),
    'WhiteNoise': (['ar', 'kr'], [], 1),
    'Line': (['ar', 'kr'], ['sig', 'sig', 'sig', ('lit', 0)], 1),
    'Pan2': (['ar', 'kr'], ['eq', 'sig', 'sig'], 2),
    'In': (['ar', 'kr'], ['sig1', ('lit', 3)], 3),
    'Rand': (['new'], ['sig', 'sig'], 1),
    'TRand': (['ar', 'kr'], ['sig', 'sig', 'sig'], 1),
    'Latch': (['ar', 'kr'], ['eq', 'sig'], 1),
}
PV_UNITS = ['PV_MagAbove', 'PV_MagBelow', 'PV_MagSmear', 'PV_MagSquared',
            'PV_Conj']
CONSTS = [0, 1, -1, 0.5, 2, 3.25, 440, 0.1, 7, 100.0]


class Gen:
    def __init__(self, draw, params):
        self.draw = draw
        self.params = params
        self.nodes = []
        self.rates = []     # frozenset of possible leaf rates
        self.kind = []      # 'sig' | 'list' | 'buf' | 'chain' | 'none'
        self.shape = []
        self.labels = set()
        self.depth = 0
        for i, p in enumerate(params):
            r = {'ir': 'scalar', 'tr': 'control', 'ar': 'audio',
                 'kr': 'control'}[p['rate']]
            shape = [None] * len(p['default']) \
                if isinstance(p['default'], list) else None
            self.add({'k': 'p', 'i': i}, {r}, 'sig', shape)

    def add(self, n, rates, kind, shape=None):
        """shape: None for a single signal, nested lists of None otherwise
        (only meaningful for kinds 'sig'/'list')."""
        if kind in ('sig', 'list'):
            kind = 'sig' if shape is None else 'list'
        self.nodes.append(n)
        self.rates.append(frozenset(rates))
        self.kind.append(kind)
        self.shape.append(shape)
        return len(self.nodes) - 1

    @staticmethod
    def expand(shapes, leaf):
        """Shape of a multichannel-expanded call (wrap and zip)."""
        lists = [s for s in shapes if isinstance(s, list)]
        if not lists:
            return leaf
        n = max(len(s) for s in lists)
        return [Gen.expand([s[i % len(s)] if isinstance(s, list) else s
                            for s in shapes], leaf) for i in range(n)]

    def cands(self, pred, kinds=('sig', 'list')):
        return [i for i in range(len(self.nodes))
                if self.kind[i] in kinds and pred(self.rates[i])]

    def const(self):
        return self.add({'k': 'c', 'v': self.draw(st.sampled_from(CONSTS))},
                        {'scalar'}, 'sig')

    def arith_operand(self, i):
        """Literal 0 / 1 / -1 trigger the constructor-time shortcuts (x*0 is
        a plain number), which the rate bookkeeping here does not model; C01
        covers them. Arithmetic in these specs uses other constants."""
        def special(j):
            n = self.nodes[j]
            if n['k'] == 'c':
                return n['v'] in (0, 1, -1)
            if n['k'] == 'list':
                # (also a 0 / 1 / -1 sitting somewhere inside a list)
                return any(special(x) for x in n['xs'])
            if n['k'] == 'idx':
                return special(n['a'])
            return False
        if special(i):
            return self.add({'k': 'c', 'v': 0.5}, {'scalar'}, 'sig')
        return i

    def leaf(self, rate):
        if rate == 'scalar':
            return self.const()
        cls = self.draw(st.sampled_from(['SinOsc', 'LFNoise0', 'Dust',
                                         'WhiteNoise']))
        short = {'control': 'kr', 'audio': 'ar'}[rate]
        args = [self.const() for k in UNITS[cls][1]]
        return self.add({'k': 'u', 'cls': cls, 'rate': short, 'args': args},
                        {rate}, 'sig')

    def pick(self, max_rate='audio', exact=None, single=False):
        kinds = ('sig',) if single else ('sig', 'list')
        if exact:
            pred = lambda rs: rs == {exact}
        else:
            pred = lambda rs: all(ORD[r] <= ORD[max_rate] for r in rs)
        c = self.cands(pred, kinds)
        if c and self.draw(st.integers(0, 9)) < 8:
            if len(c) > 4 and self.draw(st.booleans()):
                c = c[-4:]
            return self.draw(st.sampled_from(c))
        if exact:
            return self.leaf(exact)
        allowed = [r for r in ORD if ORD[r] <= ORD[max_rate]]
        return self.leaf(self.draw(st.sampled_from(allowed)))

    # -- makers -----------------------------------------------------------------
    def mklist(self):
        n = self.draw(st.integers(1, 4))
        exact = self.draw(st.sampled_from([None, None, 'audio', 'control']))
        xs = [self.pick(exact=exact) if exact else self.pick()
              for _ in range(n)]
        rs = set()
        for x in xs:
            rs |= self.rates[x]
        if any(self.kind[x] == 'list' for x in xs):
            self.labels.add('nested_list')
        return self.add({'k': 'list', 'xs': xs}, rs, 'list',
                        [self.shape[x] for x in xs])

    def unit(self):
        cls = self.draw(st.sampled_from(sorted(UNITS)))
        rates, kinds, nout = UNITS[cls]
        r = self.draw(st.sampled_from(rates))
        long = LONG[r]
        args = []
        expanded = False
        for k in kinds:
            if isinstance(k, tuple):
                args.append(['lit', k[1]])
                continue
            if k == 'eq':
                a = self.pick(exact=long)
            elif k == 'sig1':
                a = self.pick(max_rate=long, single=True)
            else:
                a = self.pick(max_rate=long)
            expanded = expanded or self.kind[a] == 'list'
            args.append(a)
        if expanded:
            self.labels.add('expanded_unit')
        if nout > 1:
            self.labels.add('multi_out')
        leaf = None if nout == 1 else [None] * nout
        shape = self.expand([None if isinstance(a, list) else self.shape[a]
                             for a in args], leaf)
        return self.add({'k': 'u', 'cls': cls, 'rate': r, 'args': args},
                        {long}, 'sig', shape)

    def idx(self):
        c = self.cands(lambda rs: True, ('list',))
        if not c:
            return self.mklist()
        a = self.draw(st.sampled_from(c))
        i = self.draw(st.integers(0, 5))
        if i > 0:
            self.labels.add('channel_gt0')
        # element of a list may itself be a list
        sh = self.shape[a]
        return self.add({'k': 'idx', 'a': a, 'i': i}, self.rates[a], 'sig',
                        sh[i % len(sh)])

    def binop(self):
        a = self.pick()
        b = self.pick() if self.draw(st.booleans()) else self.const()
        if self.rates[a] == {'scalar'} and self.rates[b] == {'scalar'} \
                and self.kind[a] == 'sig' and self.kind[b] == 'sig':
            a = self.leaf(self.draw(st.sampled_from(['control', 'audio'])))
        a, b = self.arith_operand(a), self.arith_operand(b)
        op = self.draw(st.sampled_from(['+', '+', '*', '-', '/', 'min',
                                        '<', 'pow']))
        rs = {max(x, y, key=ORD.get)
              for x in self.rates[a] for y in self.rates[b]}
        if op in ('min', '<', 'pow') and (
                self.kind[a] != 'sig' or 'scalar' in self.rates[a]):
            op = '+'
        if op in ('/', 'pow') and 'scalar' in self.rates[a] \
                and 'scalar' in self.rates[b]:
            op = '*'    # plain numbers may meet inside lists: no 1/0, 0**-1
        shape = self.expand([self.shape[a], self.shape[b]], None)
        return self.add({'k': 'bin', 'op': op, 'a': a, 'b': b}, rs, 'sig',
                        shape)

    def unop(self):
        c = self.cands(lambda rs: 'scalar' not in rs, ('sig',))
        a = self.draw(st.sampled_from(c)) if c else self.leaf('control')
        op = self.draw(st.sampled_from(['neg', 'abs', 'midicps', 'squared',
                                        'tanh']))
        return self.add({'k': 'un', 'op': op, 'a': a}, self.rates[a], 'sig')

    def madd(self):
        c = self.cands(lambda rs: 'scalar' not in rs, ('sig',))
        a = self.draw(st.sampled_from(c)) if c else self.leaf('audio')
        m, d = self.pick(single=True), self.pick(single=True)
        m, d = self.arith_operand(m), self.arith_operand(d)
        rs = {max(x, y, z, key=ORD.get) for x in self.rates[a]
              for y in self.rates[m] for z in self.rates[d]}
        return self.add({'k': 'madd', 'a': a, 'm': m, 'd': d}, rs, 'sig')

    def width_first(self):
        which = self.draw(st.sampled_from(
            ['localbuf', 'fftchain', 'randseed', 'randid', 'setbuf']))
        self.labels.add('wf_' + which)
        if which == 'localbuf' or which == 'setbuf':
            buf = self.add({'k': 'localbuf',
                            'frames': self.draw(st.sampled_from([8, 64, 512])),
                            'channels': self.draw(st.integers(1, 2))},
                           {'scalar'}, 'buf')
            if which == 'setbuf' or self.draw(st.booleans()):
                vals = self.draw(st.lists(st.sampled_from(CONSTS), min_size=1,
                                          max_size=6))
                self.add({'k': 'setbuf', 'buf': buf, 'values': vals,
                          'offset': self.draw(st.integers(0, 2))},
                         set(), 'none')
            elif self.draw(st.booleans()):
                self.add({'k': 'clearbuf', 'buf': buf}, set(), 'none')
            return buf
        if which == 'fftchain':
            bufs = self.cands(lambda rs: True, ('buf',))
            if bufs and self.draw(st.booleans()):
                buf = self.draw(st.sampled_from(bufs))
            else:
                buf = self.add({'k': 'localbuf', 'frames': 512,
                                'channels': 1}, {'scalar'}, 'buf')
            src = self.pick(exact='audio', single=True)
            chain = self.add({'k': 'fft', 'buf': buf, 'in': src},
                             {'control'}, 'chain')
            for _ in range(self.draw(st.integers(0, 3))):
                cls = self.draw(st.sampled_from(PV_UNITS))
                arg = self.pick(max_rate='control', single=True)
                chain = self.add({'k': 'pv', 'cls': cls, 'chain': chain,
                                  'arg': arg}, {'control'}, 'chain')
            n_out = self.draw(st.integers(1, 2))   # chain consumed once/twice
            if n_out == 2:
                self.labels.add('chain_consumed_twice')
            out = None
            for _ in range(n_out):
                out = self.add({'k': 'ifft', 'chain': chain}, {'audio'},
                               'sig')
            return out
        if which == 'randseed':
            r = self.draw(st.sampled_from(['ir', 'kr']))
            trig = self.pick(max_rate=LONG[r], single=True)
            return self.add({'k': 'randseed', 'rate': r, 'trig': trig,
                             'seed': self.draw(st.integers(0, 9999))},
                            set(), 'none')
        r = self.draw(st.sampled_from(['ir', 'kr']))
        return self.add({'k': 'randid', 'rate': r,
                         'id': self.draw(st.integers(0, 7))}, set(), 'none')

    def fused(self):
        """shapes the optimiser rewrites: a*b+c and (a+b)+c"""
        self.labels.add('fusable_shape')
        a = self.pick(single=True)
        if 'scalar' in self.rates[a]:
            a = self.leaf(self.draw(st.sampled_from(['control', 'audio'])))
        b = self.arith_operand(self.pick(single=True))
        c = self.arith_operand(self.pick(single=True))
        op = self.draw(st.sampled_from(['*', '+']))
        rs = {max(x, y, key=ORD.get)
              for x in self.rates[a] for y in self.rates[b]}
        t = self.add({'k': 'bin', 'op': op, 'a': a, 'b': b}, rs, 'sig', None)
        if self.draw(st.integers(0, 2)) == 0:
            c = t           # the same (single-use) node as both operands
        rs2 = {max(x, y, key=ORD.get) for x in rs for y in self.rates[c]}
        return self.add({'k': 'bin', 'op': '+', 'a': t, 'b': c}, rs2, 'sig',
                        None)

    def step(self):
        k = self.draw(st.integers(0, 21))
        if k >= 20:
            return self.fused()
        if k <= 5:
            return self.unit()
        if k <= 8:
            return self.mklist()
        if k <= 10:
            return self.idx()
        if k <= 13:
            return self.binop()
        if k == 14:
            return self.unop()
        if k == 15:
            return self.madd()
        return self.width_first()

    def sink(self, j):
        cls = self.draw(st.sampled_from(['Out', 'Out', 'ReplaceOut',
                                         'OffsetOut', 'XOut', 'LocalOut']))
        if cls == 'LocalOut' and any(s['cls'] == 'LocalOut'
                                     for s in self.sinks):
            cls = 'Out'
        if cls in ('OffsetOut', 'LocalOut'):
            r = 'ar'
        else:
            r = self.draw(st.sampled_from(['ar', 'ar', 'kr']))
        if r == 'ar':
            x = self.pick(exact='audio')
        else:
            c = self.cands(lambda rs: all(ORD[q] <= 1 for q in rs)
                           and rs != {'scalar'})
            x = self.draw(st.sampled_from(c)) if c else self.leaf('control')
        s = {'cls': cls, 'rate': r, 'bus': self.draw(st.integers(0, 64)),
             'x': x}
        if cls == 'XOut':
            s['xfade'] = self.pick(max_rate=LONG[r], single=True)
        self.sinks.append(s)


PARAM_NAMES = ['freq', 'amp', 'gate', 'out', 'pan', 'x', 'y_1', 'Gate',
               'trig', 'buf']


@st.composite
def mc_spec(draw, max_steps=25, names=None):
    nparams = draw(st.integers(0, 5))
    pnames = draw(st.permutations(PARAM_NAMES))[:nparams]
    params = []
    for nm in pnames:
        if draw(st.integers(0, 3)) == 0:
            default = draw(st.lists(st.sampled_from(CONSTS), min_size=2,
                                    max_size=4))
        else:
            default = draw(st.sampled_from(CONSTS))
        params.append({'name': nm, 'default': default,
                       'rate': draw(st.sampled_from(
                           ['kr', 'kr', 'ir', 'tr', 'ar']))})
    g = Gen(draw, params)
    g.sinks = []
    for _ in range(draw(st.integers(1, max_steps))):
        g.step()
    for j in range(draw(st.integers(1, 4))):
        g.sink(j)
    name = draw(names) if names is not None else 'mc'
    spec = {'name': name, 'params': params, 'nodes': g.nodes,
            'sinks': g.sinks, 'gen_labels': sorted(g.labels)}
    if params and len(name) <= 24 and draw(st.integers(0, 2)) == 0:
        variants = {}
        for key in draw(st.lists(st.sampled_from(['a', 'b', 'soft', 'v3']),
                                 min_size=1, max_size=3, unique=True)):
            pairs = {}
            for p in draw(st.lists(st.sampled_from(params), min_size=1,
                                   max_size=3, unique_by=lambda p: p['name'])):
                if isinstance(p['default'], list):
                    k = draw(st.integers(1, len(p['default'])))
                    pairs[p['name']] = [draw(st.sampled_from(CONSTS))
                                        for _ in range(k)]
                else:
                    pairs[p['name']] = draw(st.sampled_from(CONSTS))
            variants[key] = pairs
        spec['variants'] = variants
        spec['gen_labels'] = sorted(g.labels | {'variants'})
    if draw(st.integers(0, 3)) == 0:
        # controls declared by hand inside the function (the documented
        # Control.add_name / AudioControl.add_name constructors), after the
        # function's own parameters
        spec['manual'] = [
            [nm, draw(st.sampled_from(['kr', 'kr', 'ar'])),
             draw(st.sampled_from([0.0, 0.25, 1.0, 440.0]))]
            for nm in draw(st.lists(st.sampled_from(['hgate', 'hmod', 'hmx']),
                                    min_size=1, max_size=2, unique=True))]
        spec['gen_labels'] = sorted(set(spec['gen_labels'])
                                    | {'manual_controls'})
    return spec


# --- builder -----------------------------------------------------------------------

class Builder:
    def __init__(self, spec, fail_at=None, fail_exc=None):
        self.spec = spec
        self.fail_at = fail_at
        self.fail_exc = fail_exc
        self.log = []           # creation order of units (objects)
        self.replaced = []      # (old, new) from the optimiser

    def make_func(self):
        ps = self.spec['params']
        parts = []
        for p in ps:
            d = p['default']
            d = tuple(d) if isinstance(d, list) else d
            ann = f":'{p['rate']}'" if p['rate'] != 'kr' else ''
            parts.append(f"{p['name']}{ann}={d!r}")
        names = ', '.join(p['name'] for p in ps)
        src = f"def _graph({', '.join(parts)}):\n    return _body([{names}])\n"
        ns = {'_body': self.body}
        exec(src, ns)
        return ns['_graph']

    def body(self, params):
        from sc3.synth.ugens import installed_ugens as U
        from sc3.synth.ugen import ChannelList, MulAdd
        import operator as op
        ops = {'+': op.add, '-': op.sub, '*': op.mul, '/': op.truediv,
               '<': op.lt, 'pow': op.pow}
        vals = []
        for j, (nm, rate, default) in enumerate(self.spec.get('manual', [])):
            cls = U['AudioControl'] if rate == 'ar' else U['Control']
            cls.add_name(nm)
            ctl = getattr(cls, rate)(default)
            getattr(U['Out'], rate)(100 + j, ctl)
        for i, n in enumerate(self.spec['nodes']):
            if self.fail_at == i:
                raise self.fail_exc
            k = n['k']
            if k == 'c':
                v = n['v']
            elif k == 'p':
                v = params[n['i']]
                if isinstance(v, list):
                    v = ChannelList(v)
            elif k == 'list':
                v = ChannelList([vals[x] for x in n['xs']])
            elif k == 'u':
                args = [a[1] if isinstance(a, list) else vals[a]
                        for a in n['args']]
                v = getattr(U[n['cls']], n['rate'])(*args)
            elif k == 'idx':
                a = vals[n['a']]
                v = a[n['i'] % len(a)] if isinstance(a, list) and a else a
                if isinstance(v, list) and not isinstance(v, ChannelList):
                    # arithmetic on nested channel lists returns plain
                    # inner lists; a user would wrap them again
                    v = ChannelList(v)
            elif k == 'bin':
                a, b = vals[n['a']], vals[n['b']]
                if n['op'] == 'min':
                    v = a.min(b)
                else:
                    v = ops[n['op']](a, b)
            elif k == 'un':
                a = vals[n['a']]
                v = -a if n['op'] == 'neg' else getattr(a, n['op'])()
            elif k == 'madd':
                v = MulAdd.new(vals[n['a']], vals[n['m']], vals[n['d']])
            elif k == 'localbuf':
                v = U['LocalBuf'].new(n['frames'], n['channels'])
            elif k == 'setbuf':
                v = U['SetBuf'].new(vals[n['buf']], n['values'], n['offset'])
            elif k == 'clearbuf':
                v = U['ClearBuf'].new(vals[n['buf']])
            elif k == 'fft':
                v = U['FFT'].kr(vals[n['buf']], vals[n['in']])
            elif k == 'pv':
                if n['cls'] in ('PV_MagSquared', 'PV_Conj'):
                    v = U[n['cls']].new(vals[n['chain']])
                else:
                    v = U[n['cls']].new(vals[n['chain']], vals[n['arg']])
            elif k == 'ifft':
                v = U['IFFT'].ar(vals[n['chain']])
            elif k == 'randseed':
                v = getattr(U['RandSeed'], n['rate'])(vals[n['trig']],
                                                      n['seed'])
            elif k == 'randid':
                v = getattr(U['RandID'], n['rate'])(n['id'])
            else:
                raise ValueError(k)
            vals.append(v)
        if self.fail_at == len(self.spec['nodes']):
            raise self.fail_exc
        for s in self.spec['sinks']:
            cls = U[s['cls']]
            x = vals[s['x']]
            if s['cls'] == 'LocalOut':
                getattr(cls, s['rate'])(x)
            elif s['cls'] == 'XOut':
                getattr(cls, s['rate'])(s['bus'], vals[s['xfade']], x)
            else:
                getattr(cls, s['rate'])(s['bus'], x)

    def build(self, log_creation=False):
        from sc3.synth.synthdef import SynthDef
        from .graph import def_bytes
        variants = self.spec.get('variants')
        if not log_creation:
            # one function object (and one variants dict) per Builder: a
            # Builder built again is the same graph function built again
            if getattr(self, '_fn', None) is None:
                self._fn = self.make_func()
            sd = SynthDef(self.spec['name'], self._fn, variants=variants)
            self.synthdef = sd
            return def_bytes(sd)
        # creation log: wrap the two methods through which units enter and
        # are substituted in the definition (class attributes, restored)
        add0, rep0 = SynthDef._add_ugen, SynthDef._replace_ugen
        log, replaced = self.log, self.replaced

        def add_ugen(sdself, ugen):
            if not sdself._rewrite_in_progress:
                log.append(ugen)
            return add0(sdself, ugen)

        def replace_ugen(sdself, a, b):
            replaced.append((a, b))
            return rep0(sdself, a, b)

        SynthDef._add_ugen, SynthDef._replace_ugen = add_ugen, replace_ugen
        try:
            sd = SynthDef(self.spec['name'], self.make_func(),
                          variants=variants)
        finally:
            SynthDef._add_ugen, SynthDef._replace_ugen = add0, rep0
        self.synthdef = sd
        return def_bytes(sd)
