"""Reference model for C15 (operator lifting): denotations and their algebra.

Nothing here imports sc3.  A *denotation* is what an operand evaluates to:

    scalar              a plain Python value (int, float, bool, complex, str)
    Seq(items, done)    what a stream / pattern yields (done = it ended)
    Lst(items)          a list / tuple / ChannelList, any nesting
    Opd(inner)          an Operand / Rest around a denotation
    Err(classes)        evaluation raised (one of) these exception classes

`lift(op, args)` is the specification of "apply the numeric operator to the
evaluated operands": streams combine item by item until the shortest ends,
lists element by element with wrap-around extension of the shorter, operands
on their values; with operands of different structure the leftmost
non-scalar operand is the outer one (receiver first, a plain number on the
left yields to the right operand).
"""

from fractions import Fraction

CAP = 6          # items drained from a stream that does not end by itself


class Seq:
    def __init__(self, items, done, tail=()):
        self.items = list(items)
        self.done = done            # the source ended after these items
        self.tail = frozenset(tail)  # exception classes that may legally
        #                              surface instead of the end of stream


class Lst:
    def __init__(self, items):
        self.items = list(items)


class Opd:
    def __init__(self, inner):
        self.inner = inner


class Err:
    def __init__(self, classes):
        if isinstance(classes, str):
            classes = (classes,)
        self.classes = frozenset(classes)


def is_scalar(d):
    return not isinstance(d, (Seq, Lst, Opd, Err))


# --- the 15-line reference wrap-extend (C03's law, restated) ------------------

def wrap_extend(items, n):
    """items[0], items[1], ... cyclically up to length n."""
    return [items[i % len(items)] for i in range(n)]


def zip_wrap(columns):
    """columns: list of python lists (len >= 1) or scalars (broadcast).
    Yields rows of length len(columns); the row count is the longest list."""
    n = max(len(c) for c in columns if isinstance(c, list))
    ext = [wrap_extend(c, n) if isinstance(c, list) else [c] * n
           for c in columns]
    return [[col[i] for col in ext] for i in range(n)]


# --- lifting -------------------------------------------------------------------

def apply_scalar(op, args):
    try:
        return op(*args)
    except Exception as e:          # the numeric kernel refused: domain error
        return Err(type(e).__name__)


def errs(d):
    """All exception classes occurring in a denotation."""
    if isinstance(d, Err):
        return set(d.classes)
    if isinstance(d, Seq):
        out = set(d.tail)
        for i in d.items:
            out |= errs(i)
        return out
    if isinstance(d, Lst):
        out = set()
        for i in d.items:
            out |= errs(i)
        return out
    if isinstance(d, Opd):
        return errs(d.inner)
    return set()


def lift(op, args):
    if any(isinstance(a, Err) for a in args):
        # an operand failed: so does the whole; which operand's error
        # surfaces first depends on the evaluation order, so any of them
        cl = set()
        for a in args:
            cl |= errs(a)
        return Err(cl)
    outer = next((a for a in args if not is_scalar(a)), None)
    if outer is None:
        return apply_scalar(op, args)
    if isinstance(outer, Seq):
        seqs = [a for a in args if isinstance(a, Seq)]
        n = min(len(s.items) for s in seqs)
        done = any(s.done and len(s.items) == n for s in seqs)
        tail = set()
        for s in seqs:
            if len(s.items) > n:
                tail |= errs(s.items[n])
            elif len(s.items) == n:
                tail |= s.tail
        items = []
        for k in range(n):
            it = lift(op, [a.items[k] if isinstance(a, Seq) else a
                           for a in args])
            items.append(it)
            if errs(it):             # a stream is not asked again after
                return Seq(items, False)   # it raised
        return Seq(items, done, tail if done else ())
    if isinstance(outer, Lst):
        cols = [a.items if isinstance(a, Lst) else a for a in args]
        res = Lst([lift(op, row) for row in zip_wrap(cols)])
        # lists are computed eagerly: one failing element fails the whole
        # (compare() also accepts the error surfacing per element)
        return Err(errs(res)) if errs(res) else res
    if isinstance(outer, Opd):
        inner = lift(op, [a.inner if isinstance(a, Opd) else a for a in args])
        return inner if isinstance(inner, Err) else Opd(inner)
    raise AssertionError(outer)


# --- comparison ------------------------------------------------------------------

def same_scalar(a, b):
    """Exact, type-strict, NaN- and signed-zero-aware."""
    if type(a) is not type(b):
        return False
    if isinstance(a, (float, complex)):
        return repr(a) == repr(b)
    return a == b


def show(d, depth=0):
    if isinstance(d, Err):
        return 'raise ' + '|'.join(sorted(d.classes))
    if isinstance(d, Seq):
        return ('<' + ', '.join(show(i) for i in d.items) +
                ('' if d.done else ', ...') + '>')
    if isinstance(d, Lst):
        return '[' + ', '.join(show(i) for i in d.items) + ']'
    if isinstance(d, Opd):
        return 'Opd(' + show(d.inner) + ')'
    if isinstance(d, int) and not isinstance(d, bool) and abs(d) > 10 ** 40:
        return f'<int of {d.bit_length()} bits>'
    r = repr(d)
    return r if len(r) < 80 else r[:77] + '...'


def compare(got, exp, path='$'):
    """Returns None or (clause, message)."""
    if isinstance(got, Err):
        allowed = errs(exp)
        if not allowed:
            return ('unexpected_exception',
                    f'{path}: raised {show(got)}, expected {show(exp)}')
        if not (got.classes & allowed):
            return ('wrong_exception_class',
                    f'{path}: raised {show(got)}, expected '
                    f'{"|".join(sorted(allowed))}')
        return None
    if isinstance(exp, Err):
        # a lazily evaluated operand may surface its error deeper inside
        # the result (per stream item, per channel, inside the operand)
        inside = errs(got)
        if inside & exp.classes:
            return None
        return ('wrong_exception_class' if inside else 'missing_exception',
                f'{path}: got {show(got)}, expected {show(exp)}')
    for cls, name in ((Seq, 'stream'), (Lst, 'list'), (Opd, 'operand')):
        if isinstance(exp, cls) != isinstance(got, cls):
            return ('shape_mismatch',
                    f'{path}: got {show(got)}, expected {show(exp)}')
    if isinstance(exp, Seq):
        for k, (g, e) in enumerate(zip(got.items, exp.items)):
            r = compare(g, e, f'{path}<{k}>')
            if r:
                return r
            if isinstance(g, Err):
                return None
        ng, ne = len(got.items), len(exp.items)
        msg = f'{path}: got {show(got)}, expected {show(exp)}'
        if ng > ne:
            # the expected stream ends here (or was cut at CAP items)
            g = got.items[ne]
            if isinstance(g, Err) and (g.classes & exp.tail):
                return None
            return ('stream_too_long', msg) if exp.done else None
        if ng < ne:
            return ('stream_too_short', msg)
        if exp.done and not got.done and ng < CAP:
            return ('stream_too_long', msg)
        if got.done and not exp.done:
            return ('stream_too_short', msg)
        return None
    if isinstance(exp, Lst):
        if len(got.items) != len(exp.items):
            return ('list_length_mismatch',
                    f'{path}: got {show(got)}, expected {show(exp)}')
        for k, (g, e) in enumerate(zip(got.items, exp.items)):
            r = compare(g, e, f'{path}[{k}]')
            if r:
                return r
        return None
    if isinstance(exp, Opd):
        return compare(got.inner, exp.inner, path + '.value')
    if not same_scalar(got, exp):
        return ('value_mismatch',
                f'{path}: got {show(got)}, expected {show(exp)}')
    return None


# --- exact arithmetic helpers for the law stage ---------------------------------

def frac(x):
    return Fraction(x)


def is_multiple(r, q):
    """r = k*q for an integer k, decided exactly (finite inputs)."""
    return (Fraction(r) / Fraction(q)).denominator == 1


def fold_ref(x, lo, hi):
    """Triangle wave through (lo, lo) with period 2(hi-lo), exact."""
    x, lo, hi = Fraction(x), Fraction(lo), Fraction(hi)
    b = hi - lo
    if b == 0:
        return lo
    y = (x - lo) % (2 * b)
    return lo + (y if y <= b else 2 * b - y)
