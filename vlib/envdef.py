"""C20: definitions whose graph function hands long-lived argument objects
(the lists of an envelope specification, as a module-level table would be)
to the library. spec = {'name', 'rate': 'kr'|'ar', 'env': <C19 envelope or
constructor case>}. The same Builder (same Python lists) is built again and
again by the history; the reference interpreters build from the JSON text,
i.e. from fresh lists."""

import copy


class Builder:
    def __init__(self, spec, fail_at=None, fail_exc=None):
        self.spec = spec
        self.objs = copy.deepcopy(spec['env'])    # the caller's own objects
        self.fail_at = fail_at
        self.fail_exc = fail_exc

    def body(self, params=None):
        from vlib import envbuild
        from sc3.synth.ugens.envgen import EnvGen
        from sc3.synth.ugens.inout import Out
        if self.fail_at == 0:
            raise self.fail_exc
        env = envbuild.build_env(self.objs, cp=lambda x: x)
        sig = getattr(EnvGen, self.spec['rate'])(env)
        if self.fail_at is not None and self.fail_at > 0:
            raise self.fail_exc
        getattr(Out, self.spec['rate'])(0, sig)

    def build(self):
        from sc3.synth.synthdef import SynthDef
        from vlib.graph import def_bytes
        return def_bytes(SynthDef(self.spec['name'], lambda: self.body()))


class OutBuilder:
    """spec = {'name', 'cls': Out|ReplaceOut|OffsetOut|XOut, 'bus', 'zeros':
    nested list of literal zeros}: the graph function passes the same nested
    list object (a constant "muted" layout kept by the caller) among the
    channels of an audio output unit in every build."""

    def __init__(self, spec, fail_at=None, fail_exc=None):
        self.spec = spec
        self.objs = copy.deepcopy(spec['zeros'])
        self.fail_at = fail_at
        self.fail_exc = fail_exc

    def body(self, params=None):
        from sc3.synth.ugens import installed_ugens as U
        if self.fail_at == 0:
            raise self.fail_exc
        sig = U['SinOsc'].ar(440, 0)
        args = [self.spec['bus']]
        if self.spec['cls'] == 'XOut':
            args.append(0.5)
        getattr(U[self.spec['cls']], 'ar')(*args, [sig, self.objs])
        if self.fail_at is not None and self.fail_at > 0:
            raise self.fail_exc

    def build(self):
        from sc3.synth.synthdef import SynthDef
        from vlib.graph import def_bytes
        return def_bytes(SynthDef(self.spec['name'], lambda: self.body()))


def builder(spec, *a):
    return (OutBuilder if 'zeros' in spec else Builder)(spec, *a)
