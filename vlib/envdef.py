"""C20: definitions whose graph function hands long-lived argument objects
(the lists of an envelope specification, as a module-level table would be)
to the library. spec = {'name', 'rate': 'kr'|'ar', 'env': <C19 envelope or
constructor case>}. The same Builder (same Python lists) is built again and
again by the history; the reference interpreters build from the JSON text,
i.e. from fresh lists."""

import copy


class Builder:
    def __init__(self, spec, fail_at=None, fail_exc=None):
        self.spec = spec
        self.objs = copy.deepcopy(spec['env'])    # the caller's own objects
        self.fail_at = fail_at
        self.fail_exc = fail_exc

    def body(self, params=None):
        from vlib import envbuild
        from sc3.synth.ugens.envgen import EnvGen
        from sc3.synth.ugens.inout import Out
        if self.fail_at == 0:
            raise self.fail_exc
        env = envbuild.build_env(self.objs, cp=lambda x: x)
        sig = getattr(EnvGen, self.spec['rate'])(env)
        if self.fail_at is not None and self.fail_at > 0:
            raise self.fail_exc
        getattr(Out, self.spec['rate'])(0, sig)

    def build(self):
        from sc3.synth.synthdef import SynthDef
        from vlib.graph import def_bytes
        return def_bytes(SynthDef(self.spec['name'], lambda: self.body()))
