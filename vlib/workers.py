"""Line-oriented JSON worker processes used by checks that need a second
interpreter (other sc3 mode, other hash seed, RT simulation)."""
import json
import os
import subprocess
import sys

from .core import ROOT, SC3_PATH, HarnessError


class Worker:
    def __init__(self, script, args=(), env=None):
        self.cmd = [sys.executable, os.path.join(ROOT, 'vlib', script),
                    *args]
        self.env = dict(os.environ, **(env or {}))
        self.proc = None
        self.start()

    def start(self):
        self.proc = subprocess.Popen(
            self.cmd, stdin=subprocess.PIPE, stdout=subprocess.PIPE,
            stderr=subprocess.DEVNULL, env=self.env, text=True, bufsize=1)
        line = self.proc.stdout.readline()
        if not line or 'ready' not in line:
            raise HarnessError(f'worker {self.cmd[1]} failed to start')

    TIMEOUT = 60.0      # seconds of wall time for one request

    def ask(self, req):
        import select
        self.proc.stdin.write(json.dumps(req) + '\n')
        self.proc.stdin.flush()
        # one line per request, nothing is buffered between requests: the
        # descriptor becomes readable when the reply (or EOF) arrives
        ready, _, _ = select.select([self.proc.stdout], [], [], self.TIMEOUT)
        if not ready:
            # the library never came back (livelock / deadlock outside the
            # simulation's own deadlock detection): not a harness error
            self.proc.kill()
            self.proc.wait()
            self.start()
            return {'error': f'no reply within {self.TIMEOUT:.0f} s of wall '
                             'time: the run does not terminate',
                    'hang': True, 'sc3_origin': 'hang'}
        line = self.proc.stdout.readline()
        if not line:
            raise HarnessError(f'worker {self.cmd[1]} died')
        return json.loads(line)

    def close(self):
        try:
            self.proc.stdin.close()
            self.proc.wait(timeout=10)
        except Exception:
            self.proc.kill()


def rtsim_worker():
    return Worker('worker_rtsim.py', [SC3_PATH])


def nrt_worker(hashseed='0'):
    return Worker('worker_nrt.py', [SC3_PATH], {'PYTHONHASHSEED': hashseed})
