"""E4 - the SuperCollider Server Command Reference as data, plus a validator
(DESIGN.md section 2, E4).  Shared by C17 and C14.

Transcribed by hand from the "Server Command Reference" help file of
SuperCollider (the document that defines what scsynth / supernova accept),
not from sc3 and not from sclang's class library.  No sc3 import; the only
dependency is the sibling reference OSC codec (`osc_ref`), used to open
completion-message blobs.

What a message is, here
-----------------------
The *wire form* of a message: ``[address, arg, ...]`` (list or tuple) or any
object with ``.address`` and ``.args`` (e.g. `osc_ref.Message`), where every
argument is typed as it travels:

    int (not bool)   OSC 'i' (also 'h')
    float            OSC 'f' (also 'd')
    str              OSC 's'
    bytes            OSC 'b'
    list / tuple     an OSC array: the arguments between '[' and ']' type tags
                     (nested lists = nested brackets)

`from_client(msg)` converts the *client form* that sclang / sc3 hand to their
OSC layer (None, True/False, '[' and ']' marker strings, nested lists that
stand for completion messages) into wire form using the conversion table
sclang documents (nil/false -> int 0, true -> int 1, $[ $] -> array tags,
Array-starting-with-a-string -> blob holding that message).

Grammar notation (COMMANDS)
---------------------------
Every command is ``Cmd(head, rep, tail)``:

* ``head``: positional arguments ``Arg(name, type, role, opt, lo, hi)``;
  optional ones (``opt``) may only be left out from the end, as the reference
  reads them positionally;
* ``rep``: a group of arguments repeated N >= 0 times ("N *" in the
  reference); an item ``Many(name, type, count=<name of an int item of the same
  group>)`` stands for "M * value" where M is the value of that item;
* ``tail``: what may follow the repeated group (only the optional completion
  message).

Types: 'int', 'num' (float or int: the reference says "float" but the server
reads those with a converting getter and every client sends ints there),
'str', 'ctl' (int index or str name), 'val' (float | int | map symbol such as
"c3" / "a0" | array of values), 'data' (bytes, opaque), 'completion' (bytes
holding one OSC message or bundle, validated recursively), 'any'.

Roles tag the arguments that name a server-side resource so that a client
model can check "mentions only ids it allocated": 'node' (an existing node),
'node_new' (id of the node being created; -1 lets the server choose),
'group', 'target' (add-target node), 'buffer', 'cbus' / 'abus' (first bus
index, the extent is the count item of the same group or 1), 'sync'.

Absent completion message: sclang and sc3 always append the completion slot
and encode "no completion message" (nil / None) as int 0; the server ignores
a non-blob there.  `validate(..., lenient=True)` (the default) accepts a final
int 0 in the place of an optional completion message and reports it in
`Parsed.notes`; ``lenient=False`` reports it as problem ``completion_type``.

Public API
----------
    validate(msg, lenient=True) -> [Problem]        ([] = conforms)
    parse(msg, lenient=True) -> Parsed              (problems, mentions, head,
                                                     reps, completion, notes)
    mentions(msg) -> [Mention]                      (recurses into completions)
    from_client(msg) -> wire form                   (raises CmdRefError)
    validate_client(msg, lenient=True) -> [Problem]
    flatten_array(v) -> [leaf, ...]
    COMMANDS, B_GEN                                 (the tables)
    ADD_ACTIONS                                     (name -> number)
"""

from collections import namedtuple

from . import osc_ref

__all__ = [
    'Arg', 'Many', 'Cmd', 'COMMANDS', 'B_GEN', 'ADD_ACTIONS', 'Problem',
    'Mention', 'Parsed', 'CmdRefError', 'validate', 'parse', 'mentions',
    'from_client', 'validate_client', 'flatten_array', 'is_map_symbol',
]

INT32_MIN, INT32_MAX = -2 ** 31, 2 ** 31 - 1

# Reference, "Node placement": add actions
ADD_ACTIONS = {'addToHead': 0, 'addToTail': 1, 'addBefore': 2, 'addAfter': 3,
               'addReplace': 4}


class CmdRefError(ValueError):
    pass


Arg = namedtuple('Arg', 'name type role opt lo hi')
Many = namedtuple('Many', 'name type count')
Cmd = namedtuple('Cmd', 'head rep tail sub doc')
Problem = namedtuple('Problem', 'code where detail')
Mention = namedtuple('Mention', 'role value extent where command')


def _problem_str(p):
    return f'{p.code} at {p.where}: {p.detail}'


Problem.__str__ = _problem_str


class Parsed:
    """Result of `parse`.

    problems    [Problem]
    mentions    [Mention]  ids named by this message and its completions
    address     str | None
    head        {name: value} for the positional arguments that were present
    reps        [{name: value}]  one dict per complete repetition ('Many'
                items hold the list of their values)
    completion  [Parsed]  parsed completion message(s) (a completion bundle
                yields one entry per contained message), [] if none
    notes       [str]  tolerated deviations (e.g. 'absent_completion_as_int0')
    """

    def __init__(self, address):
        self.address = address
        self.problems = []
        self.mentions = []
        self.head = {}
        self.reps = []
        self.completion = []
        self.notes = []

    @property
    def ok(self):
        return not self.problems


def a(name, type, role=None, opt=False, lo=None, hi=None):
    return Arg(name, type, role, opt, lo, hi)


def cmd(head=(), rep=None, tail=(), sub=None, doc=''):
    return Cmd(tuple(head), tuple(rep) if rep else None, tuple(tail), sub, doc)


COMPLETION = a('completion', 'completion', opt=True)
FLAG = dict(lo=0, hi=1)

# --- the table -------------------------------------------------------------------
# Order and wording follow the Server Command Reference sections.

COMMANDS = {
    # Master controls
    '/quit': cmd(doc='no arguments'),
    '/notify': cmd([a('flag', 'int', **FLAG), a('client_id', 'int', opt=True)]),
    '/status': cmd(),
    '/cmd': cmd([a('name', 'str')], rep=[a('arg', 'any')]),
    '/dumpOSC': cmd([a('code', 'int', lo=0, hi=3)]),
    '/sync': cmd([a('id', 'int', 'sync')]),
    '/clearSched': cmd(),
    '/error': cmd([a('mode', 'int', lo=-2, hi=1)]),
    '/version': cmd(),

    # Synth definition commands
    '/d_recv': cmd([a('data', 'data'), COMPLETION]),
    '/d_load': cmd([a('path', 'str'), COMPLETION]),
    '/d_loadDir': cmd([a('path', 'str'), COMPLETION]),
    '/d_free': cmd(rep=[a('name', 'str')]),

    # Node commands
    '/n_free': cmd(rep=[a('id', 'int', 'node')]),
    '/n_run': cmd(rep=[a('id', 'int', 'node'), a('flag', 'int', **FLAG)]),
    '/n_set': cmd([a('id', 'int', 'node')],
                  rep=[a('control', 'ctl'), a('value', 'val')]),
    '/n_setn': cmd([a('id', 'int', 'node')],
                   rep=[a('control', 'ctl'), a('count', 'int', lo=0),
                        Many('values', 'num', 'count')]),
    '/n_fill': cmd([a('id', 'int', 'node')],
                   rep=[a('control', 'ctl'), a('count', 'int', lo=0),
                        a('value', 'num')]),
    '/n_map': cmd([a('id', 'int', 'node')],
                  rep=[a('control', 'ctl'), a('bus', 'int', 'cbus', lo=-1)]),
    '/n_mapn': cmd([a('id', 'int', 'node')],
                   rep=[a('control', 'ctl'), a('bus', 'int', 'cbus', lo=-1),
                        a('count', 'int', lo=0)]),
    '/n_mapa': cmd([a('id', 'int', 'node')],
                   rep=[a('control', 'ctl'), a('bus', 'int', 'abus', lo=-1)]),
    '/n_mapan': cmd([a('id', 'int', 'node')],
                    rep=[a('control', 'ctl'), a('bus', 'int', 'abus', lo=-1),
                         a('count', 'int', lo=0)]),
    '/n_before': cmd(rep=[a('id', 'int', 'node'), a('target', 'int', 'node')]),
    '/n_after': cmd(rep=[a('id', 'int', 'node'), a('target', 'int', 'node')]),
    '/n_query': cmd(rep=[a('id', 'int', 'node')]),
    '/n_trace': cmd(rep=[a('id', 'int', 'node')]),
    '/n_order': cmd([a('action', 'int', lo=0, hi=3),
                     a('target', 'int', 'target')],
                    rep=[a('id', 'int', 'node')]),

    # Synth commands
    '/s_new': cmd([a('name', 'str'), a('id', 'int', 'node_new', lo=-1),
                   a('action', 'int', lo=0, hi=4),
                   a('target', 'int', 'target')],
                  rep=[a('control', 'ctl'), a('value', 'val')]),
    '/s_get': cmd([a('id', 'int', 'node')], rep=[a('control', 'ctl')]),
    '/s_getn': cmd([a('id', 'int', 'node')],
                   rep=[a('control', 'ctl'), a('count', 'int', lo=0)]),
    '/s_noid': cmd(rep=[a('id', 'int', 'node')]),

    # Group commands
    '/g_new': cmd(rep=[a('id', 'int', 'node_new', lo=-1),
                       a('action', 'int', lo=0, hi=4),
                       a('target', 'int', 'target')]),
    '/p_new': cmd(rep=[a('id', 'int', 'node_new', lo=-1),
                       a('action', 'int', lo=0, hi=4),
                       a('target', 'int', 'target')]),
    '/g_head': cmd(rep=[a('group', 'int', 'group'), a('id', 'int', 'node')]),
    '/g_tail': cmd(rep=[a('group', 'int', 'group'), a('id', 'int', 'node')]),
    '/g_freeAll': cmd(rep=[a('group', 'int', 'group')]),
    '/g_deepFree': cmd(rep=[a('group', 'int', 'group')]),
    '/g_dumpTree': cmd(rep=[a('group', 'int', 'group'),
                            a('flag', 'int')]),
    '/g_queryTree': cmd(rep=[a('group', 'int', 'group'),
                             a('flag', 'int')]),

    # Unit generator commands
    '/u_cmd': cmd([a('id', 'int', 'node'), a('ugen', 'int', lo=0),
                   a('name', 'str')], rep=[a('arg', 'any')]),

    # Buffer commands
    '/b_alloc': cmd([a('buf', 'int', 'buffer', lo=0), a('frames', 'int'),
                     a('channels', 'int', opt=True), COMPLETION]),
    '/b_allocRead': cmd([a('buf', 'int', 'buffer', lo=0), a('path', 'str'),
                         a('start', 'int', opt=True),
                         a('frames', 'int', opt=True), COMPLETION]),
    '/b_allocReadChannel': cmd(
        [a('buf', 'int', 'buffer', lo=0), a('path', 'str'),
         a('start', 'int'), a('frames', 'int')],
        rep=[a('channel', 'int', lo=0)], tail=[COMPLETION]),
    '/b_read': cmd([a('buf', 'int', 'buffer', lo=0), a('path', 'str'),
                    a('file_start', 'int', opt=True),
                    a('frames', 'int', opt=True),
                    a('buf_start', 'int', opt=True),
                    a('leave_open', 'int', opt=True, **FLAG), COMPLETION]),
    '/b_readChannel': cmd(
        [a('buf', 'int', 'buffer', lo=0), a('path', 'str'),
         a('file_start', 'int'), a('frames', 'int'), a('buf_start', 'int'),
         a('leave_open', 'int', **FLAG)],
        rep=[a('channel', 'int', lo=0)], tail=[COMPLETION]),
    '/b_write': cmd([a('buf', 'int', 'buffer', lo=0), a('path', 'str'),
                     a('header', 'str'), a('sample', 'str'),
                     a('frames', 'int', opt=True),
                     a('start', 'int', opt=True),
                     a('leave_open', 'int', opt=True, **FLAG), COMPLETION]),
    '/b_free': cmd([a('buf', 'int', 'buffer', lo=0), COMPLETION]),
    '/b_zero': cmd([a('buf', 'int', 'buffer', lo=0), COMPLETION]),
    '/b_set': cmd([a('buf', 'int', 'buffer', lo=0)],
                  rep=[a('index', 'int', lo=0), a('value', 'num')]),
    '/b_setn': cmd([a('buf', 'int', 'buffer', lo=0)],
                   rep=[a('index', 'int', lo=0), a('count', 'int', lo=0),
                        Many('values', 'num', 'count')]),
    '/b_fill': cmd([a('buf', 'int', 'buffer', lo=0)],
                   rep=[a('index', 'int', lo=0), a('count', 'int', lo=0),
                        a('value', 'num')]),
    '/b_gen': cmd([a('buf', 'int', 'buffer', lo=0), a('command', 'str')],
                  sub='B_GEN'),
    '/b_close': cmd([a('buf', 'int', 'buffer', lo=0), COMPLETION]),
    '/b_query': cmd(rep=[a('buf', 'int', 'buffer', lo=0)]),
    '/b_get': cmd([a('buf', 'int', 'buffer', lo=0)],
                  rep=[a('index', 'int', lo=0)]),
    '/b_getn': cmd([a('buf', 'int', 'buffer', lo=0)],
                   rep=[a('index', 'int', lo=0), a('count', 'int', lo=0)]),

    # Control bus commands
    '/c_set': cmd(rep=[a('index', 'int', 'cbus', lo=0), a('value', 'num')]),
    '/c_setn': cmd(rep=[a('index', 'int', 'cbus', lo=0),
                        a('count', 'int', lo=0),
                        Many('values', 'num', 'count')]),
    '/c_fill': cmd(rep=[a('index', 'int', 'cbus', lo=0),
                        a('count', 'int', lo=0), a('value', 'num')]),
    '/c_get': cmd(rep=[a('index', 'int', 'cbus', lo=0)]),
    '/c_getn': cmd(rep=[a('index', 'int', 'cbus', lo=0),
                        a('count', 'int', lo=0)]),

    # Non real time mode commands
    '/nrt_end': cmd(),
}

# Reference, "Buffer fill commands" (arguments after the command name).
# flags: 1 normalize, 2 wavetable, 4 clear.
B_GEN = {
    'sine1': cmd([a('flags', 'int', lo=0, hi=7)],
                 rep=[a('amp', 'num')]),
    'sine2': cmd([a('flags', 'int', lo=0, hi=7)],
                 rep=[a('freq', 'num'), a('amp', 'num')]),
    'sine3': cmd([a('flags', 'int', lo=0, hi=7)],
                 rep=[a('freq', 'num'), a('amp', 'num'), a('phase', 'num')]),
    'cheby': cmd([a('flags', 'int', lo=0, hi=7)],
                 rep=[a('amp', 'num')]),
    'copy': cmd([a('dst_pos', 'int', lo=0), a('src', 'int', 'buffer', lo=0),
                 a('src_pos', 'int', lo=0), a('count', 'int', lo=-1)]),
    # not in the reference proper: fill commands defined by the standard
    # plug-ins and used by the class library
    'normalize': cmd([a('new_max', 'num', opt=True)]),
    'wnormalize': cmd([a('new_max', 'num', opt=True)]),
    'PreparePartConv': cmd([a('src', 'int', 'buffer', lo=0),
                            a('fftsize', 'int', lo=0)]),
}

_SUBTABLES = {'B_GEN': B_GEN}


# --- value predicates ----------------------------------------------------------------

def _is_int(v):
    return isinstance(v, int) and not isinstance(v, bool)


def _is_num(v):
    return (isinstance(v, (int, float)) and not isinstance(v, bool))


def is_map_symbol(s):
    """'c<index>' / 'a<index>': the symbolic control-bus mapping of /s_new
    and /n_set."""
    return (isinstance(s, str) and len(s) >= 2 and s[0] in 'ca'
            and s[1:].isdigit() and s[1:].isascii())


def flatten_array(v):
    """Leaves of a (nested) array value, in order."""
    if isinstance(v, (list, tuple)):
        out = []
        for x in v:
            out.extend(flatten_array(x))
        return out
    return [v]


def _type_name(v):
    if isinstance(v, bool):
        return 'bool'
    if v is None:
        return 'nil'
    if isinstance(v, (bytes, bytearray, memoryview)):
        return 'blob'
    if isinstance(v, (list, tuple)):
        return 'array'
    return type(v).__name__


def _check_type(v, typ):
    """None if `v` is acceptable for grammar type `typ`, else a reason."""
    if typ == 'any':
        return None
    if typ == 'int':
        if not _is_int(v):
            return f'expected int, got {_type_name(v)} {v!r}'
        if not INT32_MIN <= v <= INT32_MAX:
            return f'int out of 32 bit range: {v}'
        return None
    if typ == 'num':
        if not _is_num(v):
            return f'expected float or int, got {_type_name(v)} {v!r}'
        if _is_int(v) and not INT32_MIN <= v <= INT32_MAX:
            return f'int out of 32 bit range: {v}'
        return None
    if typ == 'str':
        if not isinstance(v, str):
            return f'expected string, got {_type_name(v)} {v!r}'
        return None
    if typ == 'ctl':
        if isinstance(v, str):
            return None
        if _is_int(v):
            if not INT32_MIN <= v <= INT32_MAX:
                return f'int out of 32 bit range: {v}'
            return None
        return ('expected control index (int) or name (string), got '
                f'{_type_name(v)} {v!r}')
    if typ == 'val':
        if isinstance(v, (list, tuple)):
            for leaf in flatten_array(v):
                r = _check_type(leaf, 'val')
                if r:
                    return f'in array: {r}'
            return None
        if isinstance(v, str):
            if not is_map_symbol(v):
                return ('string control value must be a bus mapping symbol '
                        f'("c<n>" or "a<n>"), got {v!r}')
            return None
        if _is_num(v):
            if _is_int(v) and not INT32_MIN <= v <= INT32_MAX:
                return f'int out of 32 bit range: {v}'
            return None
        return ('expected float, int, mapping symbol or array, got '
                f'{_type_name(v)} {v!r}')
    if typ in ('data', 'completion'):
        if not isinstance(v, (bytes, bytearray, memoryview)):
            return f'expected bytes, got {_type_name(v)} {v!r}'
        return None
    raise CmdRefError(f'unknown grammar type {typ!r}')


# --- parser ----------------------------------------------------------------------------

def _split(msg):
    if hasattr(msg, 'address') and hasattr(msg, 'args'):
        return msg.address, list(msg.args)
    if isinstance(msg, (list, tuple)) and msg:
        return msg[0], list(msg[1:])
    return None, None


def parse(msg, lenient=True, _where='', _depth=0):
    """Parse one wire-form message against the reference."""
    address, args = _split(msg)
    res = Parsed(address)
    w0 = _where

    def prob(code, where, detail):
        res.problems.append(Problem(code, f'{w0}{address}{where}', detail))

    if address is None or not isinstance(address, str):
        res.problems.append(Problem(
            'not_a_message', w0 or '?', f'no string address in {msg!r}'[:200]))
        return res
    spec = COMMANDS.get(address)
    if spec is None:
        prob('unknown_command', '', 'not in the server command reference')
        return res
    _parse_with(spec, address, args, 0, res, prob, lenient, w0, _depth)
    return res


def _parse_with(spec, address, args, i, res, prob, lenient, w0, depth):
    n = len(args)

    def check(arg, v, where):
        r = _check_type(v, arg.type)
        if r:
            prob('type', where, f'{arg.name}: {r}')
            return False
        if _is_int(v):
            if arg.lo is not None and v < arg.lo or \
                    arg.hi is not None and v > arg.hi:
                prob('range', where,
                     f'{arg.name}={v} outside [{arg.lo}, {arg.hi}]')
        return True

    def mention(arg, v, where, group_items, group_vals):
        if not arg.role or not _is_int(v):
            return
        extent = 1
        if arg.role in ('cbus', 'abus') and group_items is not None:
            for it in group_items:
                if isinstance(it, Arg) and it.name == 'count' \
                        and _is_int(group_vals.get('count')):
                    extent = group_vals['count']
        res.mentions.append(Mention(arg.role, v, extent,
                                    f'{w0}{address}{where}', address))

    def completion(v, where):
        try:
            pkt = osc_ref.decode_packet(bytes(v))
        except osc_ref.OscError as e:
            prob('completion_undecodable', where, str(e))
            return
        if depth > 8:
            prob('completion_depth', where, 'completion messages nested > 8')
            return
        for _, m in osc_ref.flatten(pkt):
            sub = parse(m, lenient, f'{w0}{address}{where}>', depth + 1)
            res.completion.append(sub)
            res.problems.extend(sub.problems)
            res.mentions.extend(sub.mentions)
            res.notes.extend(sub.notes)

    def positional(items, i):
        """Head/tail: required then optional, positional. Returns new i."""
        for k, arg in enumerate(items):
            where = f'[{i}]'
            if i >= n:
                if not arg.opt:
                    prob('missing_arg', where,
                         f'{arg.name} ({arg.type}) is required')
                return i
            v = args[i]
            if arg.type == 'completion':
                if isinstance(v, (bytes, bytearray, memoryview)):
                    completion(v, where)
                elif _is_int(v) and v == 0 and i == n - 1:
                    if lenient:
                        res.notes.append('absent_completion_as_int0')
                    else:
                        prob('completion_type', where,
                             'int 0 in the place of the optional completion '
                             'message')
                else:
                    prob('type', where,
                         f'{arg.name}: expected bytes (an OSC message), got '
                         f'{_type_name(v)} {v!r}')
                i += 1
                continue
            if check(arg, v, where):
                res.head[arg.name] = v
                mention(arg, v, where, None, None)
            i += 1
        return i

    i = positional(spec.head, i)
    if spec.sub:
        table = _SUBTABLES[spec.sub]
        name = res.head.get('command')
        sub = table.get(name) if isinstance(name, str) else None
        if sub is None:
            if isinstance(name, str):
                prob('unknown_fill_command', '[1]',
                     f'{name!r} is not a buffer fill command of the reference')
            return
        _parse_with(sub, address, args, i, res, prob, lenient, w0, depth)
        return
    if spec.rep:
        end = n
        if spec.tail and n > i and isinstance(
                args[n - 1], (bytes, bytearray, memoryview)):
            end = n - 1
        while i < end:
            vals = {}
            ok = True
            start = i
            for it in spec.rep:
                if isinstance(it, Many):
                    cnt = vals.get(it.count)
                    if not _is_int(cnt) or cnt < 0:
                        ok = False
                        break
                    got = []
                    for _ in range(cnt):
                        if i >= end:
                            prob('count_mismatch', f'[{i}]',
                                 f'{it.count}={cnt} announced but only '
                                 f'{len(got)} {it.name} follow')
                            ok = False
                            break
                        r = _check_type(args[i], it.type)
                        if r:
                            prob('type', f'[{i}]', f'{it.name}: {r}')
                        got.append(args[i])
                        i += 1
                    if not ok:
                        break
                    vals[it.name] = got
                    continue
                if i >= end:
                    prob('incomplete_group', f'[{start}]',
                         f'repeated group ({", ".join(x.name for x in spec.rep)}'
                         f') cut short before {it.name}')
                    ok = False
                    break
                if check(it, args[i], f'[{i}]'):
                    vals[it.name] = args[i]
                i += 1
            if not ok:
                # cannot resynchronise inside a damaged group
                i = end
                break
            # mentions once the group (hence its count) is known
            k = start
            for it in spec.rep:
                if isinstance(it, Many):
                    k += len(vals.get(it.name, ()))
                    continue
                if it.name in vals:
                    mention(it, vals[it.name], f'[{k}]', spec.rep, vals)
                k += 1
            res.reps.append(vals)
        i = end
    i = positional(spec.tail, i)
    if i < n:
        prob('extra_args', f'[{i}]',
             f'{n - i} argument(s) beyond the reference: {args[i:]!r}'[:200])


def validate(msg, lenient=True):
    """Problems of one wire-form message ([] = it conforms to the reference
    in name, argument count, order and types, completion messages
    included)."""
    return parse(msg, lenient).problems


def mentions(msg):
    """Resource ids named by the message and its completion messages."""
    return parse(msg).mentions


# --- client form -> wire form --------------------------------------------------------------

def from_client(msg):
    """Convert a client-level message list (as handed to sclang's
    NetAddr.sendMsg / sc3's NetAddr.send_msg) to wire form.

    nil/None -> 0, False -> 0, True -> 1, [] -> 0, '[' ... ']' marker strings
    -> nested list (array), a non-empty list whose first element is a string
    -> bytes of that message (completion message), a list [time, [msg], ...]
    -> bytes of that bundle (timetag 1: only the contents matter here),
    memoryview/bytearray -> bytes.  Raises CmdRefError on unbalanced
    markers or values with no OSC representation."""
    if not isinstance(msg, (list, tuple)) or not msg \
            or not isinstance(msg[0], str):
        raise CmdRefError(f'not a client message: {msg!r}'[:200])
    stack = [[]]
    for v in msg[1:]:
        if isinstance(v, str) and v == '[':
            new = []
            stack[-1].append(new)
            stack.append(new)
            continue
        if isinstance(v, str) and v == ']':
            if len(stack) < 2:
                raise CmdRefError(f'unbalanced "]" in {msg!r}'[:200])
            stack.pop()
            continue
        stack[-1].append(_client_value(v))
    if len(stack) != 1:
        raise CmdRefError(f'unbalanced "[" in {msg!r}'[:200])
    return [msg[0]] + stack[0]


def _client_value(v):
    if v is None or v is False:
        return 0
    if v is True:
        return 1
    if isinstance(v, (bytes, bytearray, memoryview)):
        return bytes(v)
    if isinstance(v, (int, float, str)):
        return v
    if isinstance(v, (list, tuple)):
        if not v:
            return 0
        if isinstance(v[0], str):
            w = from_client(v)
            return osc_ref.encode_message(w[0], w[1:])
        if (v[0] is None or isinstance(v[0], (int, float))) and len(v) > 1 \
                and isinstance(v[1], (list, tuple)):
            elems = []
            for e in v[1:]:
                w = _client_value(e)
                if not isinstance(w, bytes):
                    raise CmdRefError(f'bad bundle element {e!r}'[:200])
                elems.append(w)
            return osc_ref.encode_bundle(osc_ref.IMMEDIATELY, elems)
    raise CmdRefError(f'no wire form for {type(v).__name__} {v!r}'[:200])


def validate_client(msg, lenient=True):
    try:
        wire = from_client(msg)
    except (CmdRefError, osc_ref.OscError) as e:
        return [Problem('client_form', str(msg[0]) if msg else '?', str(e))]
    return validate(wire, lenient)
