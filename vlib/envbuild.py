"""Calls of the envelope constructors from JSON specs (C19, C20)."""

import copy

from vlib import env_ref as R


def _env():
    from sc3.synth.envelope import Env
    return Env


ENV_KEYS = ['levels', 'times', 'curves', 'rel', 'loop', 'offset']
ENV_KW = {'levels': 'levels', 'times': 'times', 'curves': 'curves',
          'rel': 'release_node', 'loop': 'loop_node', 'offset': 'offset'}


def call_args(spec, keys, kwnames, positional, cp=copy.deepcopy):
    """Arguments from the keys present in the spec (deep copies: sc3 may keep
    or change the lists it is given; C20 passes cp = identity to hand over
    long-lived objects). Positional for the longest present prefix when
    asked, keywords otherwise."""
    args, kw = [], {}
    prefix = positional
    for k in keys:
        if k in spec:
            val = cp(spec[k])
            if prefix:
                args.append(val)
            else:
                kw[kwnames[k]] = val
        else:
            prefix = False
    return args, kw


def build_env(spec, cp=copy.deepcopy):
    if 'ctor' in spec:
        return build_ctor(spec, cp)
    args, kw = call_args(spec, ENV_KEYS, ENV_KW, spec.get('pos', False), cp)
    return _env()(*args, **kw)


STEP_KEYS = ['levels', 'times', 'rel', 'loop', 'offset']
STEP_KW = {'levels': 'levels', 'times': 'times', 'rel': 'release_level',
           'loop': 'loop_level', 'offset': 'offset'}


def build_ctor(case, cp=copy.deepcopy):
    name = case['ctor']
    if name == 'step':
        args, kw = call_args(case, STEP_KEYS, STEP_KW, case.get('pos', False),
                             cp)
        return _env().step(*args, **kw)
    if name == 'pairs':
        pairs = cp(case['pairs'])
        if 'curves' in case:
            return _env().pairs(pairs, cp(case['curves']))
        return _env().pairs(pairs)
    if name == 'xyc':
        return _env().xyc(cp(case['xyc']))
    params = [k for k, _ in R.CTORS[name][0]]
    args, kw = call_args(case['args'], params, {k: k for k in params},
                         case.get('pos', False), cp)
    return getattr(_env(), name)(*args, **kw)


