"""Reference model of what sc3 documents it sends for a message / bundle given
as Python lists (shared by C06 C07 C14 C17; companion of osc_ref.py).

Sources: docstrings of `OscInterface.send_msg/send_bundle`
(sc3/base/_oscinterface.py), `NetAddr.send_msg/send_bundle`
(sc3/base/netaddr.py), which port sclang's NetAddr.sendMsg/sendBundle:

* message  = [address, arg, ...]; bundle = [time, element, ...] where an
  element is a message list or a bundle list (first item int/float/None)
* None, False, [] -> int32 0; True -> int32 1; int -> int32; float -> float32
* str -> OSC-string (UTF-8); the strings '[' and ']' are array markers
* bytes / bytearray / memoryview -> blob
* non-empty list argument -> blob holding the encoded message (first item a
  str) or bundle (first item a number or None, second item a list); any other
  list is invalid
* bundle time: None or negative -> "immediately"; otherwise latency from the
  logical time of the sending thread; a nested bundle's time must be >= the
  enclosing one (None enclosing: unchecked)

The model returns osc_ref.Message / osc_ref.Bundle structures, or raises
`Refuse(reason, must)`: must=True when the value has no representation (the
library has to raise), must=False when the library is documented/allowed to
raise but a faithful encoding also exists (`TimeBase(lenient=True)` returns
that faithful encoding instead of raising).
"""

import math
from fractions import Fraction

from . import osc_ref as R

F32_MAX = 3.4028234663852886e38


class Refuse(Exception):
    def __init__(self, reason, must=True):
        super().__init__(reason)
        self.reason = reason
        self.must = must


class TimeBase:
    """How a latency becomes a timetag.

    mode 'rt' : None/negative -> 1 (immediately); else
                floor((latency + send_time) * 2**32) + offset
                (offset = SystemClock's elapsed->OSC offset, an int).
    mode 'nrt': None/negative -> 0; else floor(latency * 2**32), plus
                send_time when sent from inside a routine.
    All arithmetic exact (Fractions of the given doubles)."""

    def __init__(self, mode, offset=0, send_time=0.0, in_routine=False,
                 lenient=False):
        self.mode = mode
        self.lenient = lenient   # encode faithfully what may be refused
        self.offset = offset
        self.send_time = send_time
        self.in_routine = in_routine

    def immediate(self, t):
        return t is None or t < 0

    def timetag(self, t):
        if t is not None and isinstance(t, float) and not math.isfinite(t):
            raise Refuse('time_not_finite')
        if self.mode == 'rt':
            if self.immediate(t):
                return R.IMMEDIATELY
            # sc3 adds in floating point first: reproduce the double sum
            tt = int(Fraction(float(t + self.send_time)) * 2 ** 32) \
                + self.offset
        else:
            if self.immediate(t):
                t = 0.0
            if self.in_routine:
                t = t + self.send_time
            tt = int(Fraction(float(t)) * 2 ** 32)
        if not 0 <= tt <= R.UINT64_MAX:
            raise Refuse('timetag_range')
        return tt


def is_msg_list(x):
    return isinstance(x, list) and bool(x) and isinstance(x[0], str)


def is_bundle_arg(x):
    """A list argument that the docs call a bundle."""
    return (isinstance(x, list) and len(x) > 1
            and (x[0] is None or (isinstance(x[0], (int, float))
                                  and not isinstance(x[0], bool)))
            and isinstance(x[1], list))


def is_bundle_elem(x):
    return (isinstance(x, list) and bool(x)
            and (x[0] is None or (isinstance(x[0], (int, float))
                                  and not isinstance(x[0], bool))))


def expect_msg(msg, tb):
    """[address, arg...] -> osc_ref.Message (or Refuse)."""
    address = msg[0]
    tags = []
    stack = [[]]
    for a in msg[1:]:
        if a is None:
            tags.append('i')
            stack[-1].append(0)
        elif isinstance(a, bool):
            tags.append('i')
            stack[-1].append(int(a))
        elif isinstance(a, list):
            if not a:
                tags.append('i')
                stack[-1].append(0)
            elif is_msg_list(a):
                tags.append('b')
                stack[-1].append(R.encode_packet(expect_msg(a, tb)))
            elif is_bundle_arg(a):
                tags.append('b')
                stack[-1].append(R.encode_packet(expect_bundle(a, tb)))
            else:
                raise Refuse('bad_list')
        elif isinstance(a, str):
            if a == '[':
                tags.append('[')
                new = []
                stack[-1].append(new)
                stack.append(new)
            elif a == ']':
                if len(stack) < 2:
                    raise Refuse('unbalanced_array')
                tags.append(']')
                stack.pop()
            else:
                if '\x00' in a:
                    raise Refuse('nul_in_str')
                try:
                    a.encode('utf-8')
                except UnicodeEncodeError:
                    raise Refuse('str_not_utf8')
                tags.append('s')
                stack[-1].append(a)
        elif isinstance(a, int):
            if not R.INT32_MIN <= a <= R.INT32_MAX:
                raise Refuse('int_range')
            tags.append('i')
            stack[-1].append(a)
        elif isinstance(a, float):
            if math.isfinite(a) and abs(a) > F32_MAX:
                try:
                    v = R.f32(a)      # rounds down to F32_MAX: fine
                except R.OscEncodeError:
                    # IEEE round-to-nearest gives inf; refusing is allowed
                    if not tb.lenient:
                        raise Refuse('float_overflow', must=False)
                    v = math.copysign(math.inf, a)
            else:
                v = R.f32(a)
            tags.append('f')
            stack[-1].append(v)
        elif isinstance(a, (bytes, bytearray, memoryview)):
            if len(a) == 0 and not tb.lenient:
                # python-osc documents "BuildError if the value was empty"
                raise Refuse('empty_blob', must=False)
            tags.append('b')
            stack[-1].append(bytes(a))
        else:
            raise Refuse('unsupported_type')
    if len(stack) != 1:
        raise Refuse('unbalanced_array')
    return R.Message(address, ''.join(tags), stack[0])


_NOPARENT = object()


def expect_bundle(bndl, tb, parent=_NOPARENT):
    """[time, element...] -> osc_ref.Bundle (or Refuse).

    Nested time rule. OSC 1.0: the enclosed timetag must be >= the enclosing
    one -> anything else has to be refused. sc3 documents the check on the
    latencies as given (None enclosing: no check; enclosed None or smaller:
    ValueError), which also refuses some harmless pairs (-1 in -2): allowed.
    """
    time = bndl[0]
    tt = tb.timetag(time)
    if parent is not _NOPARENT:
        ptime, ptt = parent
        if tt < ptt:
            raise Refuse('nested_time')
        if ptime is not None and (time is None or ptime > time) \
                and not tb.lenient:
            raise Refuse('nested_time_doc', must=False)
    elements = []
    for e in bndl[1:]:
        if is_msg_list(e):
            elements.append(expect_msg(e, tb))
        elif is_bundle_elem(e):
            elements.append(expect_bundle(e, tb, (time, tt)))
        else:
            raise Refuse('bad_element')
    return R.Bundle(tt, elements)


def expect_packet(x, tb):
    return expect_msg(x, tb) if is_msg_list(x) else expect_bundle(x, tb)


# --- walkers used by predicates and labels ---------------------------------------

def walk_args(x, fn, _depth=0):
    """Call fn(arg, depth) for every argument of message list x, descending
    into message-/bundle-shaped list arguments and bundle elements."""
    if is_msg_list(x):
        for a in x[1:]:
            fn(a, _depth)
            if isinstance(a, list) and a:
                walk_args(a, fn, _depth + 1)
    elif isinstance(x, list) and x:
        for e in x[1:]:
            if isinstance(e, list):
                walk_args(e, fn, _depth)


def collect(x, pred):
    out = []
    walk_args(x, lambda a, d: out.append(a) if pred(a) else None)
    return out


def is_blob(a):
    return isinstance(a, (bytes, bytearray, memoryview))
