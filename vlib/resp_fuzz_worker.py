"""C18 / E6 - coverage-guided generator of datagrams (atheris, optional).

Runs in its own process (libFuzzer owns the process it runs in):

    python resp_fuzz_worker.py <sc3_path> <corpus_dir> <runs> <seconds> <seed>

Instruments only sc3.base._osclib and feeds `OscPacket(data)` - the parser
that OscInterface._handle_request calls - so that libFuzzer collects, in
<corpus_dir>, byte strings that reach new parser branches.  There is no oracle
in here: every exception is what the receiver's catch-all would swallow. The
oracle is the 'datagram' executor of checks/c18.py, which replays each corpus
file through the real receiver.  An input whose parse exceeds the same
deterministic line budget as in the check is saved as hang-<sha1> (and the
parse is aborted) so that an endless loop does not stall the fuzzer.
"""

import hashlib
import os
import sys


def main():
    sc3_path, corpus, runs, seconds, seed = sys.argv[1:6]
    sys.path.insert(0, sc3_path)
    deps = os.path.join(os.path.dirname(os.path.dirname(
        os.path.abspath(__file__))), '.deps')
    if os.path.isdir(deps):
        sys.path.append(deps)
    import logging
    logging.disable(logging.CRITICAL)
    import atheris
    with atheris.instrument_imports(include=['sc3.base._osclib']):
        import sc3.base._osclib as oli
    target_file = os.path.abspath(oli.__file__)

    class Budget(BaseException):
        pass

    state = {'n': 0, 'budget': 0}

    def local(frame, event, arg):
        if event == 'line':
            state['n'] += 1
            if state['n'] > state['budget']:
                raise Budget()
        return local

    def glob(frame, event, arg):
        if frame.f_code.co_filename == target_file:
            return local
        return None

    def one(data):
        state['n'] = 0
        state['budget'] = 2000 + 100 * len(data)
        sys.settrace(glob)
        try:
            oli.OscPacket(data)
        except Budget:
            name = 'hang-' + hashlib.sha1(data).hexdigest()
            with open(os.path.join(corpus, name), 'wb') as f:
                f.write(data)
        except Exception:
            pass
        finally:
            sys.settrace(None)

    atheris.Setup([sys.argv[0], corpus, f'-runs={runs}',
                   f'-max_total_time={seconds}', f'-seed={seed}',
                   '-max_len=512', '-timeout=30', '-print_final_stats=0',
                   '-verbosity=0'], one)
    atheris.Fuzz()


if __name__ == '__main__':
    main()
