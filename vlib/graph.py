"""E1: graph specs, builder, term normaliser, decoded-definition analysis.

A graph spec is plain JSON (see DESIGN.md E1):

  {'name': str,
   'params': [{'name': 'p0', 'default': 0.5, 'rate': 'kr'|'ir'|'tr'|'ar'}],
   'nodes': [node, ...],        # SSA, operands are indices of earlier nodes
   'sinks': [sink, ...]}

nodes:  {'k':'c','v':num} | {'k':'p','i':n} | {'k':'u','cls','rate','args'}
        {'k':'ch','a':ref,'i':n} | {'k':'un','op','a'} | {'k':'bin','op','a','b'}
        {'k':'madd','a','m','d'[,'with':[refs],'i':n]} | {'k':'muladd','a','m','d'}
        {'k':'sum3','xs'} | {'k':'sum4','xs'} | {'k':'sum','xs'}
unit args: int ref | ['lit', v] | 'tag'
sinks:  {'cls','rate','args':[...same...],'xs':[ref | ['lit', 0]]}
"""

import math
import struct

TAG0 = 10000       # unit tags: TAG0 + node index
SINKTAG0 = 20000   # sink tags: SINKTAG0 + sink index
RATE_NUM = {'ir': 0, 'kr': 1, 'ar': 2, 'scalar': 0, 'control': 1, 'audio': 2}
RATE_ORD = {'scalar': 0, 'control': 1, 'audio': 2}
RATE_LONG = {'ir': 'scalar', 'kr': 'control', 'ar': 'audio'}


def f32(v):
    return struct.unpack('>f', struct.pack('>f', v))[0]


# --- operator tables (transcribed from SuperCollider's Opcodes.h) ------------

UNARY_OPCODES = [
    'neg', 'not', 'isNil', 'notNil', 'bitNot', 'abs', 'asFloat', 'asInteger',
    'ceil', 'floor', 'frac', 'sign', 'squared', 'cubed', 'sqrt', 'exp',
    'reciprocal', 'midicps', 'cpsmidi', 'midiratio', 'ratiomidi', 'dbamp',
    'ampdb', 'octcps', 'cpsoct', 'log', 'log2', 'log10', 'sin', 'cos', 'tan',
    'asin', 'acos', 'atan', 'sinh', 'cosh', 'tanh', 'rand', 'rand2',
    'linrand', 'bilinrand', 'sum3rand', 'distort', 'softclip', 'coin',
    'digitValue', 'silence', 'thru', 'rectWindow', 'hanWindow', 'welWindow',
    'triWindow', 'ramp', 'scurve']

BINARY_OPCODES = [
    '+', '-', '*', 'div', '/', 'mod', '==', '!=', '<', '>', '<=', '>=',
    'min', 'max', 'bitAnd', 'bitOr', 'bitXor', 'lcm', 'gcd', 'round',
    'roundUp', 'trunc', 'atan2', 'hypot', 'hypotApx', 'pow', 'leftShift',
    'rightShift', 'unsignedRightShift', 'fill', 'ring1', 'ring2', 'ring3',
    'ring4', 'difsqr', 'sumsqr', 'sqrsum', 'sqrdif', 'absdif', 'thresh',
    'amclip', 'scaleneg', 'clip2', 'excess', 'fold2', 'wrap2', 'firstArg',
    'rrand', 'exprand']

# how the user spells a unary operator on a UGen -> server operator name
UNARY_METHODS = {
    'neg': 'neg', '__neg__': 'neg', 'not_': 'not', 'abs': 'abs',
    '__abs__': 'abs', 'bitnot': 'bitNot', '__invert__': 'bitNot',
    'as_int': 'asInteger', 'as_float': 'asFloat', 'ceil': 'ceil',
    'floor': 'floor', '__ceil__': 'ceil', '__floor__': 'floor', 'frac': 'frac', 'sign': 'sign', 'squared': 'squared',
    'cubed': 'cubed', 'sqrt': 'sqrt', 'exp': 'exp',
    'reciprocal': 'reciprocal', 'midicps': 'midicps', 'cpsmidi': 'cpsmidi',
    'midiratio': 'midiratio', 'ratiomidi': 'ratiomidi', 'dbamp': 'dbamp',
    'ampdb': 'ampdb', 'octcps': 'octcps', 'cpsoct': 'cpsoct', 'log': 'log',
    'log2': 'log2', 'log10': 'log10', 'sin': 'sin', 'cos': 'cos',
    'tan': 'tan', 'asin': 'asin', 'acos': 'acos', 'atan': 'atan',
    'sinh': 'sinh', 'cosh': 'cosh', 'tanh': 'tanh', 'rand': 'rand',
    'rand2': 'rand2', 'linrand': 'linrand', 'bilinrand': 'bilinrand',
    'sum3rand': 'sum3rand', 'distort': 'distort', 'softclip': 'softclip',
    'coin': 'coin', 'rectwindow': 'rectWindow', 'hanwindow': 'hanWindow',
    'welwindow': 'welWindow', 'triwindow': 'triWindow', 'ramp': 'ramp',
    'scurve': 'scurve'}

# Python infix operators (work with a number on either side)
INFIX = {'+': '+', '-': '-', '*': '*', '/': '/', '//': 'div', '%': 'mod',
         '**': 'pow', '<<': 'leftShift', '>>': 'rightShift', '&': 'bitAnd',
         '|': 'bitOr', '^': 'bitXor'}
# comparisons and named methods: receiver must be the unit generator
BINARY_METHODS = {
    '<': '<', '>': '>', '<=': '<=', '>=': '>=', '==': '==', '!=': '!=',
    'min': 'min', 'max': 'max', 'bitand': 'bitAnd', 'bitor': 'bitOr',
    'bitxor': 'bitXor', 'lcm': 'lcm', 'gcd': 'gcd', 'round': 'round',
    'roundup': 'roundUp', 'trunc': 'trunc', 'atan2': 'atan2',
    'hypot': 'hypot', 'hypotx': 'hypotApx', 'pow': 'pow',
    'lshift': 'leftShift', 'rshift': 'rightShift',
    'urshift': 'unsignedRightShift', 'ring1': 'ring1', 'ring2': 'ring2',
    'ring3': 'ring3', 'ring4': 'ring4', 'difsqr': 'difsqr',
    'sumsqr': 'sumsqr', 'sqrsum': 'sqrsum', 'sqrdif': 'sqrdif',
    'absdif': 'absdif', 'thresh': 'thresh', 'amclip': 'amclip',
    'scaleneg': 'scaleneg', 'clip2': 'clip2', 'excess': 'excess',
    'fold2': 'fold2', 'wrap2': 'wrap2', 'first_arg': 'firstArg',
    'rrand': 'rrand', 'exprand': 'exprand'}

import operator as _op
_PYINFIX = {'+': _op.add, '-': _op.sub, '*': _op.mul, '/': _op.truediv,
            '//': _op.floordiv, '%': _op.mod, '**': _op.pow,
            '<<': _op.lshift, '>>': _op.rshift, '&': _op.and_, '|': _op.or_,
            '^': _op.xor, '<': _op.lt, '>': _op.gt, '<=': _op.le,
            '>=': _op.ge, '==': _op.eq, '!=': _op.ne}


# --- unit catalogue (hand written; `pure` is the harness's own judgement of
#     "side-effect free", not read from the library) ---------------------------
# arg kinds: 'sig' any signal not faster than the unit; 'eq' signal at exactly
# the unit's rate; 'tag' the identifying constant; ('lit', v) fixed literal.

CATALOGUE = {
    # pure oscillators / filters
    'SinOsc': dict(rates=['ar', 'kr'], args=['sig', 'tag'], pure=True),
    'LFSaw': dict(rates=['ar', 'kr'], args=['sig', 'tag'], pure=True),
    'LFPulse': dict(rates=['ar', 'kr'], args=['sig', 'tag', 'sig'], pure=True),
    'Impulse': dict(rates=['ar', 'kr'], args=['sig', 'tag'], pure=True),
    'VarSaw': dict(rates=['ar', 'kr'], args=['sig', 'tag', 'sig'], pure=True),
    'LPF': dict(rates=['ar', 'kr'], args=['eq', 'tag'], pure=True),
    'HPF': dict(rates=['ar', 'kr'], args=['eq', 'tag'], pure=True),
    'Lag': dict(rates=['ar', 'kr'], args=['eq', 'tag'], pure=True),
    'Decay': dict(rates=['ar', 'kr'], args=['eq', 'tag'], pure=True),
    'OnePole': dict(rates=['ar', 'kr'], args=['eq', 'tag'], pure=True),
    'Ringz': dict(rates=['ar', 'kr'], args=['eq', 'sig', 'tag'], pure=True),
    'Integrator': dict(rates=['ar', 'kr'], args=['eq', 'tag'], pure=True),
    'LinExp': dict(rates=['ar', 'kr'],
                   args=['eq', 'sig', 'sig', 'sig', 'tag'], pure=True),
    'DelayN': dict(rates=['ar', 'kr'], args=['eq', 'tag', 'sig'], pure=True),
    'CombN': dict(rates=['ar', 'kr'], args=['eq', 'tag', 'sig', 'sig'],
                  pure=True),
    # stateful / side-effecting
    'Dust': dict(rates=['ar', 'kr'], args=['tag'], pure=False),
    'LFNoise0': dict(rates=['ar', 'kr'], args=['tag'], pure=False),
    'LFNoise1': dict(rates=['ar', 'kr'], args=['tag'], pure=False),
    'Crackle': dict(rates=['ar', 'kr'], args=['tag'], pure=False),
    'Rand': dict(rates=['new'], args=['sig', 'tag'], pure=False,
                 rate='scalar'),
    'IRand': dict(rates=['new'], args=['sig', 'tag'], pure=False,
                  rate='scalar'),
    'TRand': dict(rates=['ar', 'kr'], args=['sig', 'tag', 'sig'], pure=False),
    'Line': dict(rates=['ar', 'kr'], args=['sig', 'sig', 'sig', 'tag'],
                 pure=False),
    'XLine': dict(rates=['ar', 'kr'], args=['sig', 'sig', 'sig', 'tag'],
                  pure=False),
    'Phasor': dict(rates=['ar', 'kr'],
                   args=['sig', 'sig', 'sig', 'sig', 'tag'], pure=False),
    'Sweep': dict(rates=['ar', 'kr'], args=['sig', 'tag'], pure=False),
    'PulseCount': dict(rates=['ar', 'kr'], args=['eq', 'tag'], pure=False),
    'Schmidt': dict(rates=['ar', 'kr'], args=['sig', 'tag', 'sig'],
                    pure=False),
    'Trig1': dict(rates=['ar', 'kr'], args=['sig', 'tag'], pure=False),
    'MantissaMask': dict(rates=['ar', 'kr'], args=['sig', 'tag'], pure=False),
    # multi output
    'Pan2': dict(rates=['ar', 'kr'], args=['eq', 'sig', 'tag'], pure=False,
                 nout=2),
    'In': dict(rates=['ar', 'kr'], args=['tag', ('lit', 3)], pure=False,
               nout=3, emit=[0]),
    'PlayBuf': dict(rates=['ar', 'kr'],
                    args=[('lit', 2), 'tag', 'sig', 'sig', 'sig', ('lit', 1),
                          ('lit', 0)],
                    pure=False, nout=2, emit=[1, 2, 3, 4, 5, 6]),
}

# sinks: args precede the channel list; 'tag' is the bus number
SINKS = {
    'Out': dict(rates=['ar', 'kr'], args=['tag']),
    'ReplaceOut': dict(rates=['ar', 'kr'], args=['tag']),
    'OffsetOut': dict(rates=['ar'], args=['tag']),
    'XOut': dict(rates=['ar', 'kr'], args=['tag', 'sig']),
    'SendTrig': dict(rates=['ar', 'kr'], args=['eq', 'tag', 'sig'],
                     nochannels=True),
    'Free': dict(rates=['kr'], args=['sig', 'tag'], nochannels=True, nout=1),
    'Pause': dict(rates=['kr'], args=['sig', 'tag'], nochannels=True, nout=1),
    # a filter by class, used for its done action: never dead code
    'DetectSilence': dict(rates=['ar', 'kr'], args=['eq', 'tag', 'sig', 'sig'],
                          nochannels=True, nout=1),
    # no bus argument: identified by its class (at most one per graph)
    'LocalOut': dict(rates=['ar', 'kr'], args=[], unique=True),
}


def emitted_kinds(entry):
    """Kinds of the inputs as they appear in the emitted unit."""
    if 'emit' in entry:
        return [entry['args'][j] for j in entry['emit']]
    return entry['args']


# --- terms and the ring normaliser -------------------------------------------

C0 = ('c', 0.0)
C1 = ('c', 1.0)


def const(v):
    v = f32(float(v))
    if v == 0.0:
        v = 0.0   # -0.0 == 0.0 as far as every shortcut in scope can tell
    return ('c', v)


def is_c(t, v=None):
    return t[0] == 'c' and (v is None or t[1] == v)


def mk_neg(t):
    if t[0] == 'c':
        return const(-t[1])
    if t[0] == 'neg':
        return t[1]
    if t[0] == 'sum':
        return mk_sum([(-s, x) for s, x in t[1]])
    return ('neg', t)


def mk_sum(items):
    flat = []

    def push(s, t):
        if t[0] == 'sum':
            for s2, t2 in t[1]:
                push(s * s2, t2)
        elif t[0] == 'neg':
            push(-s, t[1])
        elif t[0] == 'c':
            if t[1] == 0.0:
                return
            flat.append((1, const(s * t[1])))
        else:
            flat.append((s, t))

    for s, t in items:
        push(s, t)
    if not flat:
        return C0
    if len(flat) == 1:
        s, t = flat[0]
        return t if s == 1 else mk_neg(t)
    return ('sum', tuple(sorted(flat, key=repr)))


def mk_prod(factors):
    flat = []
    sign = 1

    def push(t):
        nonlocal sign
        if t[0] == 'prod':
            for x in t[1]:
                push(x)
        elif t[0] == 'neg':
            sign = -sign
            push(t[1])
        elif t[0] == 'c' and t[1] == 1.0:
            return
        elif t[0] == 'c' and t[1] == -1.0:
            sign = -sign
        elif t[0] == 'multi':
            raise ValueError('multi-out unit used as a signal')
        else:
            flat.append(t)

    for t in factors:
        push(t)
    if any(is_c(t, 0.0) for t in flat):
        return C0
    if not flat:
        r = C1
    elif len(flat) == 1:
        r = flat[0]
    else:
        r = ('prod', tuple(sorted(flat, key=repr)))
    return r if sign == 1 else mk_neg(r)


def mk_div(a, b):
    if is_c(b, 1.0):
        return a
    if is_c(b, -1.0):
        return mk_neg(a)
    return ('op', '/', (a, b))


def mk_binop(name, a, b):
    if name == '+':
        return mk_sum([(1, a), (1, b)])
    if name == '-':
        return mk_sum([(1, a), (-1, b)])
    if name == '*':
        return mk_prod([a, b])
    if name == '/':
        return mk_div(a, b)
    return ('op', name, (a, b))


def mk_unop(name, a):
    if name == 'neg':
        return mk_neg(a)
    return ('op1', name, (a,))


def leaves(t, out=None):
    """Tags of unit leaves occurring in a term."""
    if out is None:
        out = set()
    if t[0] == 'u':
        out.add(t[1])
    elif t[0] in ('op', 'op1'):
        for x in t[2]:
            leaves(x, out)
    elif t[0] == 'sum':
        for _, x in t[1]:
            leaves(x, out)
    elif t[0] == 'prod':
        for x in t[1]:
            leaves(x, out)
    elif t[0] == 'neg':
        leaves(t[1], out)
    return out


# --- control layout for simple (scalar default) parameters -------------------

def param_slots(params):
    """Reference layout: groups ir, tr, ar, kr in that order, declaration
    order inside a group. Returns {param index: slot}."""
    slots = {}
    k = 0
    for grp in ('ir', 'tr', 'ar', 'kr'):
        for i, p in enumerate(params):
            if p['rate'] == grp:
                slots[i] = k
                k += 1
    return slots


PARAM_RATE = {'ir': 'scalar', 'tr': 'control', 'ar': 'audio', 'kr': 'control'}
PARAM_UNIT = {'ir': 'Control', 'tr': 'TrigControl', 'ar': 'AudioControl',
              'kr': 'Control'}


# --- source side: spec -> terms (the meaning the function describes) ---------

class SpecSemantics:
    """Incremental: construct with params, then add_node() in order (the
    generator does this while it draws); or pass a whole spec."""

    def __init__(self, spec=None, params=None):
        self.params = spec['params'] if spec else params
        self.slots = param_slots(self.params)
        self.slot_rate = {self.slots[i]: PARAM_RATE[p['rate']]
                          for i, p in enumerate(self.params)}
        self.tag_rate = {}
        self.nodes = []
        self.terms = []     # term per node; ('multi', tag) for multi-out units
        self.rates = []     # 'scalar' | 'control' | 'audio'
        self.values = []    # exact python number when the node is a number
        self.sinks = []
        if spec:
            for n in spec['nodes']:
                self.add_node(n)
            self.sinks = spec['sinks']

    def rate_of_term(self, t):
        k = t[0]
        if k == 'c':
            return 'scalar'
        if k == 'u' or k == 'multi':
            return self.tag_rate[t[1]]
        if k == 'ctl':
            return self.slot_rate[t[1]]
        if k in ('op', 'op1'):
            subs = t[2]
        elif k == 'sum':
            subs = [x for _, x in t[1]]
        elif k == 'prod':
            subs = t[1]
        elif k == 'neg':
            subs = [t[1]]
        else:
            raise ValueError(t)
        return max((self.rate_of_term(x) for x in subs), key=RATE_ORD.get)

    def is_num(self, i):
        return self.values[i] is not None

    def arg_term(self, a, tag):
        if a == 'tag':
            return const(tag)
        if isinstance(a, list):
            return const(a[1])
        return self.terms[a]

    def add_node(self, n):
        i = len(self.nodes)
        self.nodes.append(n)
        t, v = self.node(i, n)
        if t[0] == 'c' and v is None:
            raise ValueError(f'node {i} {n}: constant term without value')
        self.terms.append(t)
        self.values.append(v)
        self.rates.append(self.rate_of_term(t))
        return i

    def node(self, i, n):
        k = n['k']
        V = self.values
        T = self.terms
        if k == 'c':
            return const(n['v']), n['v']
        if k == 'p':
            return ('ctl', self.slots[n['i']]), None
        if k == 'u':
            ent = CATALOGUE[n['cls']]
            self.tag_rate[TAG0 + i] = ent.get('rate') or RATE_LONG[n['rate']]
            if ent.get('nout', 1) > 1:
                return ('multi', TAG0 + i), None
            return ('u', TAG0 + i, 0), None
        if k == 'ch':
            return ('u', TAG0 + n['a'], n['i']), None
        if k == 'un':
            return mk_unop(UNARY_METHODS[n['op']], T[n['a']]), None
        if k == 'bin':
            a, b = n['a'], n['b']
            if V[a] is not None and V[b] is not None:
                v = _PYINFIX[n['op']](V[a], V[b])   # plain Python arithmetic
                return const(v), v
            name = INFIX.get(n['op']) or BINARY_METHODS[n['op']]
            t = mk_binop(name, T[a], T[b])
            v = None
            if t[0] == 'c':
                # the only number-producing shortcut of a binary operator
                # with a signal operand: multiplication by a literal zero
                v = 0.0
            return t, v
        if k in ('madd', 'muladd'):
            a, m, d = n['a'], n['m'], n['d']
            t = mk_sum([(1, mk_prod([T[a], T[m]])), (1, T[d])])
            v = None
            if t[0] == 'c':
                # mul (or input) is a literal zero and add is a number
                v = V[d]
            return t, v
        if k == 'sum':
            # ChannelList.sum() is a left fold starting from the number 0:
            # while the accumulator is still a plain number, adding another
            # plain number is ordinary Python arithmetic
            acc_v, acc_t = 0, const(0)
            for x in n['xs']:
                if acc_v is not None and V[x] is not None:
                    acc_v = acc_v + V[x]
                    acc_t = const(acc_v)
                else:
                    acc_t = mk_sum([(1, acc_t), (1, T[x])])
                    acc_v = None
            return acc_t, acc_v
        if k in ('sum3', 'sum4'):
            xs = n['xs']
            t = mk_sum([(1, T[x]) for x in xs])
            v = None
            if all(V[x] is not None for x in xs):
                v = 0
                for x in xs:
                    v = v + V[x]
            return t, v
        raise ValueError(k)

    def unit_inputs(self, i):
        """Expected (normalised) input terms of tagged unit node i, in the
        order the unit is emitted."""
        n = self.nodes[i]
        ent = CATALOGUE[n['cls']]
        args = n['args']
        if 'emit' in ent:
            args = [args[j] for j in ent['emit']]
        return [self.arg_term(a, TAG0 + i) for a in args]

    def sink_inputs(self, j):
        s = self.sinks[j]
        ins = [self.arg_term(a, SINKTAG0 + j) for a in s['args']]
        for x in s.get('xs', []):
            ins.append(const(x[1]) if isinstance(x, list) else self.terms[x])
        return ins

    def must_keep(self):
        """Tags of units that may not be dropped: impure units and sinks, and
        every unit whose output occurs in the (normalised) inputs of a kept
        unit."""
        keep = set()
        work = []
        for i, n in enumerate(self.nodes):
            if n['k'] == 'u' and not CATALOGUE[n['cls']]['pure']:
                keep.add(TAG0 + i)
                work.append(i)
        pending = []
        for j in range(len(self.sinks)):
            pending.extend(self.sink_inputs(j))
        while work or pending:
            for t in pending:
                for tag in leaves(t):
                    if tag not in keep:
                        keep.add(tag)
                        work.append(tag - TAG0)
            pending = []
            if work:
                i = work.pop()
                pending = self.unit_inputs(i)
        return keep


# --- building the spec with the library ---------------------------------------

class Builder:
    """Executes a spec inside a SynthDef graph function."""

    def __init__(self, spec, fail_at=None, fail_exc=None):
        self.spec = spec
        self.fail_at = fail_at      # node index at which to raise (C20)
        self.fail_exc = fail_exc
        self.created = []

    def make_func(self):
        ps = self.spec['params']
        sig = ', '.join(
            f"{p['name']}" + (f":'{p['rate']}'" if p['rate'] != 'kr' else '')
            + f"={p['default']!r}" for p in ps)
        names = ', '.join(p['name'] for p in ps)
        src = f'def _graph({sig}):\n    return _body([{names}])\n'
        ns = {'_body': self.body}
        exec(src, ns)
        return ns['_graph']

    def arg_value(self, a, tag, vals):
        if a == 'tag':
            return tag
        if isinstance(a, list):
            return a[1]
        return vals[a]

    def body(self, params):
        from sc3.synth import ugen as ugn
        from sc3.synth.ugens import installed_ugens as U
        from sc3.synth.ugen import ChannelList, MulAdd, Sum3, Sum4
        spec = self.spec
        vals = []
        for i, n in enumerate(spec['nodes']):
            if self.fail_at == i:
                raise self.fail_exc
            k = n['k']
            if k == 'c':
                v = n['v']
            elif k == 'p':
                v = params[n['i']]
            elif k == 'u':
                cls = U[n['cls']]
                args = [self.arg_value(a, TAG0 + i, vals) for a in n['args']]
                v = getattr(cls, n['rate'])(*args)
            elif k == 'ch':
                v = vals[n['a']][n['i']]
            elif k == 'un':
                a = vals[n['a']]
                op = n['op']
                if op == '__neg__':
                    v = -a
                elif op == '__abs__':
                    v = abs(a)
                elif op == '__invert__':
                    v = ~a
                elif op == '__ceil__':
                    v = math.ceil(a)
                elif op == '__floor__':
                    v = math.floor(a)
                else:
                    v = getattr(a, op)()
            elif k == 'bin':
                a, b = vals[n['a']], vals[n['b']]
                op = n['op']
                if n.get('fn'):
                    from sc3.base import builtins as bi
                    v = getattr(bi, op)(a, b)
                elif op in _PYINFIX:
                    v = _PYINFIX[op](a, b)
                else:
                    v = getattr(a, op)(b)
            elif k == 'madd' and 'with' in n:
                chans = [vals[x] for x in n['with']]
                chans.insert(n['i'], vals[n['a']])
                v = ChannelList(chans).madd(vals[n['m']],
                                            vals[n['d']])[n['i']]
            elif k == 'madd':
                v = vals[n['a']].madd(vals[n['m']], vals[n['d']])
            elif k == 'muladd':
                v = MulAdd.new(vals[n['a']], vals[n['m']], vals[n['d']])
            elif k == 'sum3':
                v = Sum3.new(*[vals[x] for x in n['xs']])
            elif k == 'sum4':
                v = Sum4.new(*[vals[x] for x in n['xs']])
            elif k == 'sum':
                v = ChannelList([vals[x] for x in n['xs']]).sum()
            else:
                raise ValueError(k)
            vals.append(v)
        if self.fail_at == len(spec['nodes']):
            raise self.fail_exc
        for j, s in enumerate(spec['sinks']):
            cls = U[s['cls']]
            args = [self.arg_value(a, SINKTAG0 + j, vals) for a in s['args']]
            if 'xs' in s:
                xs = [x[1] if isinstance(x, list) else vals[x]
                      for x in s['xs']]
                if len(xs) == 1 and s.get('unwrap'):
                    xs = xs[0]
                args.append(xs)
            getattr(cls, s['rate'])(*args)
        self.vals = vals

    def build(self):
        from sc3.synth.synthdef import SynthDef
        if getattr(self, '_fn', None) is None:
            self._fn = self.make_func()
        sd = SynthDef(self.spec['name'], self._fn)
        self.synthdef = sd
        return def_bytes(sd)


def def_bytes(sd):
    """bytes of a definition. as_bytes() hands out a memoryview over a
    temporary BytesIO; when the SynthDef<->UGen reference cycle is later
    collected CPython may free the BytesIO first ("deallocated BytesIO object
    has exported buffers", then a crash), so the view is copied and released
    at once."""
    mv = sd.as_bytes()
    data = bytes(mv)
    if isinstance(mv, memoryview):
        sd._bytes = None
        mv.release()
    return data


# --- decoded side ------------------------------------------------------------------

OPERATOR_UNITS = {'BinaryOpUGen', 'UnaryOpUGen', 'MulAdd', 'Sum3', 'Sum4'}
CONTROL_UNITS = {'Control', 'TrigControl', 'AudioControl', 'LagControl'}


class Decoded:
    """Term view of one parsed definition."""

    def __init__(self, d):
        self.d = d
        self.units = d['units']
        self.memo = {}
        self.errors = []

    def const_of(self, u, slot):
        a, b = self.units[u]['inputs'][slot]
        if a != -1:
            return None
        return self.d['constants'][b]

    def wire(self, pair):
        a, b = pair
        if a == -1:
            return const(self.d['constants'][b])
        return self.unit_term(a, b)

    def tag_of(self, ui):
        u = self.units[ui]
        ent = CATALOGUE.get(u['name']) or SINKS.get(u['name'])
        if ent is None:
            return None
        kinds = emitted_kinds(ent)
        if 'tag' not in kinds:
            return None
        slot = kinds.index('tag')
        if slot >= len(u['inputs']):
            return None
        c = self.const_of(ui, slot)
        if c is None or c != int(c):
            return None
        return int(c)

    def unit_term(self, ui, out):
        key = (ui, out)
        if key in self.memo:
            return self.memo[key]
        u = self.units[ui]
        name = u['name']
        ins = u['inputs']
        if name == 'BinaryOpUGen':
            if not 0 <= u['special'] < len(BINARY_OPCODES) or len(ins) != 2:
                t = ('bad', ui)
            else:
                t = mk_binop(BINARY_OPCODES[u['special']],
                             self.wire(ins[0]), self.wire(ins[1]))
        elif name == 'UnaryOpUGen':
            if not 0 <= u['special'] < len(UNARY_OPCODES) or len(ins) != 1:
                t = ('bad', ui)
            else:
                t = mk_unop(UNARY_OPCODES[u['special']], self.wire(ins[0]))
        elif name == 'MulAdd' and len(ins) == 3:
            t = mk_sum([(1, mk_prod([self.wire(ins[0]), self.wire(ins[1])])),
                        (1, self.wire(ins[2]))])
        elif name in ('Sum3', 'Sum4') and len(ins) == int(name[3]):
            t = mk_sum([(1, self.wire(x)) for x in ins])
        elif name in CONTROL_UNITS:
            t = ('ctl', u['special'] + out)
        elif name == 'DC' and len(ins) == 1 and ins[0][0] == -1:
            t = const(self.d['constants'][ins[0][1]])   # audio-rate constant
        else:
            tag = self.tag_of(ui)
            t = ('u', tag, out) if tag is not None else ('unknown', ui, out)
        self.memo[key] = t
        return t

    def input_rate(self, pair):
        a, b = pair
        if a == -1:
            return 0
        return self.units[a]['outputs'][b] if b < len(
            self.units[a]['outputs']) else self.units[a]['rate']
