"""C14 - reference semantics of events and event streams, written from the
SuperCollider documentation (Event help, "Pattern Guide 07: Value
Conversions", Pbind / Pmono / Ppar / Pchain / Pfindur / Pn / Pseq help
files), not from sc3.  No sc3 import.

Key chains (Pattern Guide 07, "Pitch conversions", "Amplitude conversion",
"Timing conversions"; Event.sc default parent event):

    note      = explicit, else degreeToKey(degree + mtranspose, scale)
    midinote  = explicit, else ((note + gtranspose + root) / stepsPerOctave
                                + octave - 5) * (12 * log2(octaveRatio)) + 60
    freq      = explicit, else midicps(midinote + ctranspose) * harmonic
    played    = freq + detune                   ("detunedFreq")
    amp       = explicit, else dbamp(db)
    delta     = explicit, else dur * stretch
    sustain   = explicit, else dur * legato * stretch

A key that the event does not give takes its documented default (degree 0,
mtranspose 0, gtranspose 0, root 0, octave 5, ctranspose 0, harmonic 1,
detune 0, major scale in 12-tone equal temperament, db -20 = amp 0.1, dur 1,
stretch 1, legato 0.8).

Where the port documents something of its own it is followed and marked:

* velocity: the port documents a linear velocity -> amp mapping ("0.1amp ==
  -20dB == 12vel, linear mapping", amp = velocity / 127), used when neither
  amp nor db is given (SuperCollider's default event has no such chain).
* harmonic on an explicit freq: SuperCollider applies harmonic inside the
  freq function, so an explicit freq is only detuned; the port's comments
  call harmonic and detune "modifiers of freq" and apply both to an explicit
  freq too.  `Pitch.played_alt` carries the other reading; callers accept
  either.
* scales are (degrees, tuning) pairs; a tuning is a list of semitone values
  (SuperCollider: "an Array of semitone values") plus an octave ratio.  In
  SuperCollider a Scale's stepsPerOctave is 12 * log2(octaveRatio) and
  degreeToKey returns semitones; the port counts note values in tuning steps
  (degrees index the tuning; "steps per octave (spo)").  Both are the same
  documented formula with a different stepsPerOctave, so the reference takes
  stepsPerOctave as a parameter `spo` and places scale degree i at the
  fraction  tuning[degrees[i]] / (12 * log2(octaveRatio))  of the octave:
      degreeToKey(d) = spo * (d div size) + spo * that fraction
  which is SuperCollider's result for spo = 12 * log2(octaveRatio) and the
  port's for equal temperaments with spo = len(tuning).
* integer degrees only (the ".1 = sharp" accidental notation of sclang is
  not documented for the port and not generated).
"""

import math
from fractions import Fraction as F

DEFAULTS = {
    'degree': 0, 'mtranspose': 0, 'gtranspose': 0.0, 'root': 0.0,
    'octave': 5.0, 'ctranspose': 0.0, 'harmonic': 1.0, 'detune': 0.0,
    'amp': 0.1, 'db': -20.0, 'dur': 1.0, 'stretch': 1.0, 'legato': 0.8,
    'pan': 0.0, 'out': 0, 'trig': 0.5,
}
MAJOR = {'degrees': [0, 2, 4, 5, 7, 9, 11], 'tuning': None}
PITCH_MAIN = ('freq', 'midinote', 'note', 'degree')
PITCH_MODS = ('mtranspose', 'gtranspose', 'root', 'octave', 'ctranspose',
              'scale')
DEFAULT_FREQ = 440.0 * 2.0 ** ((60 - 69) / 12.0)


def midicps(m):
    return 440.0 * 2.0 ** ((m - 69.0) / 12.0)


def dbamp(db):
    return 10.0 ** (db / 20.0)


def close(a, b, rel=1e-9, abs_=1e-12):
    a = float(a)
    b = float(b)
    return abs(a - b) <= max(rel * max(abs(a), abs(b)), abs_)


# --- scales -----------------------------------------------------------------------

def tuning_semitones(scale):
    """Semitone values of the scale's tuning and its octave ratio."""
    t = scale.get('tuning')
    if t is None:
        return [float(i) for i in range(12)], 2.0
    if t['kind'] == 'et':
        n = t['n']
        return [i * (12.0 / n) for i in range(n)], 2.0
    return [float(x) for x in t['semis']], float(t.get('ratio', 2.0))


def tuning_is_equal(scale):
    """True when the tuning divides its octave ratio into equal steps with
    ratio 2 (the only tunings for which 'degrees index the tuning' and
    'tuning values are semitones' say the same thing)."""
    t = scale.get('tuning')
    if t is None or t['kind'] == 'et':
        return True
    semis, ratio = tuning_semitones(scale)
    if ratio != 2.0:
        return False
    n = len(semis)
    return all(close(s, i * 12.0 / n, 1e-12) for i, s in enumerate(semis))


def degree_to_key(scale, degree, spo):
    degrees = scale['degrees']
    semis, ratio = tuning_semitones(scale)
    octv, idx = divmod(int(degree), len(degrees))    # floor, as sclang div/%
    per_octave = 12.0 * math.log2(ratio)             # semitones per octave
    return spo * octv + semis[degrees[idx]] * (spo / per_octave)


# --- key chains --------------------------------------------------------------------

class Pitch:
    pass


def resolve_pitch(k, scale=None, spo=None):
    """k: explicit numeric keys of the event; scale: spec or None (default
    major); spo: stepsPerOctave of the scale (None: 12 * log2(ratio) for the
    default scale, len(tuning) for ratio-2 tunings)."""
    sc = scale or MAJOR
    semis, ratio = tuning_semitones(sc)
    if spo is None:
        spo = float(len(semis)) * math.log2(ratio)
    g = lambda n: k.get(n, DEFAULTS[n])
    p = Pitch()
    if 'note' in k:
        p.note = k['note']
    else:
        p.note = degree_to_key(sc, g('degree') + g('mtranspose'), spo)
    if 'midinote' in k:
        p.midinote = k['midinote']
    else:
        p.midinote = ((p.note + g('gtranspose') + g('root')) / spo
                      + g('octave') - 5.0) * (12.0 * math.log2(ratio)) + 60.0
    h, d = g('harmonic'), g('detune')
    if 'freq' in k:
        p.freq = [k['freq']]
        p.played = k['freq'] * h + d       # port: modifiers of freq
        p.played_alt = k['freq'] + d       # SuperCollider: detunedFreq only
    else:
        base = midicps(p.midinote + g('ctranspose'))
        p.freq = [base * h, base]          # SC lookup / port lookup
        p.played = base * h + d
        p.played_alt = p.played
    return p


def pitch_zone(k, scale=None):
    """Which part of the chain decides the played pitch: 'freq', 'midinote',
    'note', 'degree' (the most specific explicit main key) or 'default'."""
    for m in PITCH_MAIN:
        if m in k:
            return m
    return 'default'


def resolve_amp(k):
    if 'amp' in k:
        return k['amp']
    if 'db' in k:
        return dbamp(k['db'])
    if 'velocity' in k:
        return k['velocity'] / 127        # port-documented linear mapping
    return DEFAULTS['amp']


def unrest(v):
    return v['rest'] if isinstance(v, dict) and 'rest' in v else v


def is_rest_value(v):
    return isinstance(v, dict) and 'rest' in v


def is_rest(ev):
    """Event help, "Rests": an event is a rest when its type is \\rest or any
    of its values is a Rest."""
    return ev.get('type') == 'rest' or any(
        is_rest_value(v) for v in ev.values())


def fr(x):
    return x if isinstance(x, F) else F(x)


def resolve_delta(ev):
    g = lambda n: fr(unrest(ev.get(n, DEFAULTS[n])))
    if ev.get('delta') is not None:
        return fr(unrest(ev['delta']))
    return g('dur') * g('stretch')


def resolve_sustain(ev):
    g = lambda n: fr(unrest(ev.get(n, DEFAULTS[n])))
    if ev.get('sustain') is not None:
        return fr(unrest(ev['sustain']))
    return g('dur') * g('legato') * g('stretch')


def delta_is_rest_object(ev):
    """The value an Event hands back as its delta is a Rest object when it
    is computed from a Rest-wrapped dur or stretch (or is an explicit Rest);
    the stream player must still wait that long."""
    if ev.get('delta') is not None:
        return is_rest_value(ev['delta'])
    return is_rest_value(ev.get('dur')) or is_rest_value(ev.get('stretch'))


def nice(x):
    """Dyadic rational with a small denominator: float arithmetic on such
    numbers is exact, so times are compared exactly."""
    try:
        d = fr(unrest(x)).denominator
    except (TypeError, ValueError):
        return False
    return d <= 1024 and d & (d - 1) == 0


# --- event stream composition -------------------------------------------------------
#
# node :=
#   {'k': 'pbind', 'id': L, 'inst': i, 'events': [ev, ...]}    ev = dict of
#   {'k': 'pmono', 'id': L, 'inst': i, 'artic': b, 'events': [...]}   values
#   {'k': 'ppar', 'kids': [node, ...]}
#   {'k': 'pseq', 'kids': [node, ...], 'rep': n}
#   {'k': 'pn', 'kid': node, 'rep': n}
#   {'k': 'pchain', 'over': [dict, ...], 'kid': node}     Pchain(Pbind(over), kid)
#   {'k': 'pdur', 'dur': d, 'kid': node}                  Pfindur
#   {'k': 'pdelta', 't': t, 'kid': node}                  (silent event, then kid)
#
# evaluate(node, proto) -> (items, total) with items = [Item] in emission
# order, times relative to the node's start (Fractions), total = duration of
# the node's whole event sequence (sum of the deltas it yields).

class Item:
    __slots__ = ('t', 'ev', 'leaf', 'k', 'mono', 'restdelta', 'inst')

    def __init__(self, t, ev, leaf, k, mono, restdelta, inst):
        self.t = t
        self.ev = ev
        self.leaf = leaf
        self.k = k
        self.mono = mono
        self.restdelta = restdelta
        self.inst = inst

    def shifted(self, dt):
        return Item(self.t + dt, self.ev, self.leaf, self.k, self.mono,
                    self.restdelta, self.inst)

    def with_ev(self, ev):
        return Item(self.t, ev, self.leaf, self.k, self.mono,
                    delta_is_rest_object(ev) if self.restdelta is not None
                    else None, self.inst)


def evaluate(node, proto=None, first=None, leak=False, trunc=False):
    """-> (items, total). leak=True / trunc=True make the model reproduce
    two known defects of sc3 (Pchain, Pdur; see `_evaluate`)."""
    items, total, _ = _evaluate(node, dict(proto or {}), first,
                                (leak, trunc))
    return items, total


def delta_is_int(ev):
    """The number an event computes as its delta is a Python int."""
    isint = lambda v: isinstance(v, int) and not isinstance(v, bool)
    if ev.get('delta') is not None:
        return isint(ev['delta'])
    return isint(ev.get('dur')) and isint(ev.get('stretch'))


def _evaluate(node, proto, first, leak):
    """-> (items, total, ret).

    `first`/`ret` exist only to reproduce, when `leak` is set, a known defect
    of sc3 (known finding pchain_returns_inner_event): a Pchain whose outer
    pattern ends before the inner one returns the inner pattern's already
    fetched event instead of its input event, and the enclosing Pseq/Pn hands
    that event to the next pattern as the input of its first event. `first`
    is the event the node's first event is built on (None: the proto), `ret`
    what the node returns to its parent.

    With the second flag of `leak` (known finding pdur_int_delta_truncated)
    the shortened delta of the event a Pdur cuts is converted to int when the
    event's own delta is an int."""
    leaking, trunc = leak
    k = node['k']
    if k in ('pbind', 'pmono'):
        items = []
        t = F(0)
        for i, vals in enumerate(node['events']):
            ev = dict(first) if (i == 0 and first is not None) else dict(proto)
            ev.update(vals)
            items.append(Item(t, ev, node['id'], i, k == 'pmono',
                              delta_is_rest_object(ev), node['inst']))
            t += resolve_delta(ev)
        return items, t, None
    if k in ('pseq', 'pn'):
        kids = node['kids'] if k == 'pseq' else [node['kid']]
        items, t = [], F(0)
        for _ in range(node['rep']):
            for kid in kids:
                its, tot, first = _evaluate(kid, proto, first, leak)
                items.extend(x.shifted(t) for x in its)
                t += tot
        return items, t, first
    if k == 'pdelta':
        dt = fr(node['t'])
        if dt <= 0:
            dt = F(0)
        elif first is not None:
            dt *= fr(unrest(first.get('stretch', 1)))
        its, tot, ret = _evaluate(node['kid'], proto, first, leak)
        return [x.shifted(dt) for x in its], tot + dt, ret
    if k == 'ppar':
        merged = []
        total = F(0)
        for ci, kid in enumerate(node['kids']):
            its, tot, _ = _evaluate(kid, proto, first if ci == 0 else None,
                                    leak)
            total = max(total, tot)
            for x in its:
                y = x.shifted(0)
                y.restdelta = None     # Ppar hands on plain numbers as deltas
                merged.append((y.t, ci, len(merged), y))
        merged.sort(key=lambda m: (m[0], m[2]))
        return [m[3] for m in merged], total, None
    if k == 'pchain':
        its, tot, _ = _evaluate(node['kid'], proto, first, leak)
        out, total = _chain(node, its, tot)
        ret = None
        if leaking and len(node['over']) < len(its):
            ret = dict(its[len(node['over'])].ev)
        return out, total, ret
    if k == 'pdur':
        its, tot, _ = _evaluate(node['kid'], proto, first, leak)
        d = fr(node['dur'])
        # Pfindur's tolerance (default 0.001): an event whose end comes
        # within the tolerance below d counts as reaching d (its end is
        # rounded up to a multiple of the tolerance before the comparison)
        tol = fr(node.get('tol', F(1, 1000)))
        up = lambda t: -((-t) // tol) * tol
        # an item that starts at t > 0 starts where an earlier event of the
        # stream (an item or a silent filler) ended: the event whose end
        # reaches d is the last one, nothing that would start there or later
        # is played
        kept, reached = [], False
        for x in its:
            if x.t > 0 and up(x.t) >= d:
                reached = True
                break
            kept.append(x)
        if not reached and up(tot) >= d:
            reached = True
        if reached:
            if trunc and kept:
                last = kept[-1]
                if last.restdelta is not None and delta_is_int(last.ev) \
                        and last.t + resolve_delta(last.ev) >= d:
                    d = last.t + int(d - last.t)
            return kept, d, None
        return its, tot, None
    raise ValueError(k)


def _chain(node, its, tot):
    """Pchain(Pbind(over), kid): every event of kid is updated with the
    next values of `over`; the stream ends with the shorter of the two.
    Only used over kids whose items are in plain sequence (no Ppar below) so
    that item i is the i-th event of the kid."""
    over = node['over']
    n = min(len(over), len(its))
    out = []
    shift = F(0)
    for i in range(n):
        x = its[i]
        ev = dict(x.ev)
        ev.update(over[i])
        y = x.with_ev(ev)
        y.t = x.t + shift
        # the update may change the event's delta (dur/stretch keys)
        old = resolve_delta(x.ev)
        new = resolve_delta(ev)
        shift += new - old
        out.append(y)
    if n < len(its):
        total = its[n].t + shift      # up to the first dropped event
    else:
        total = tot + shift
    return out, total
