"""E3: program DSL interpreter (runs a generated program against the public
sc3 API, in whichever mode the process was initialised) - see DESIGN.md E3.

program = {'clocks': [{'tempo': x, 'beats': b|None}],
           'routines': {name: {'body': [op, ...], 'nest': 0|1|2}},
           'top': [op, ...], 'tail': seconds,
           'abandon': [op, ...]}   (NRT) run before main.reset(), then top
ops (JSON lists):
  ['log', tag]                      record logical time (and beats) here
  ['wait', d]                       yield d
  ['yield', v]                      yield a non-number (stops rescheduling)
  ['play', r, clock, quant[, how]]  clock: None | 'sys' | 'app' | int index;
                                    how: 'deco' (@routine.run) | 'run'
                                    (Routine.run) | absent (r.play)
  ['sched', clock, delta, r]        clock.sched(delta, routine r)
  ['pause', r] ['resume', r] ['stop', r]
  ['tempo', c, v] ['beats', c, v] ['beats_add', c, d] ['meter', c, v]
  ['etempo', c, v]                  clock.etempo(v) (NRT programs only)
  ['busy', d]                       the step takes d seconds of physical time
                                    (RT: time.sleep; NRT: nothing)
  ['next', r]                       (top level) routine r is stepped by hand:
                                    r.next() from the main thread
  ['tsleep', d]                     (top level, RT) the main thread waits d s
  ['msg', tag [, [lat, elem...]]]   addr.send_msg('/m', tag [, bundle-shaped list])
  ['bundle', lat, elems]            addr.send_bundle(lat, *elems); elems are
                                    ['/b', tag] or [sublat, elem...]
  ['cwait', k] ['csignal', k] ['ctest', k, bool] ['cunhang', k]
  ['fwait', k] ['fset', k, v]
  ['seed', s] ['rand', fn, args]
  ['raise', name]
The trace is a list of dict records in execution order.
"""

TARGET = ('127.0.0.1', 57110)


class UserError(Exception):
    pass


EXC = {'ValueError': ValueError, 'KeyError': KeyError, 'UserError': UserError}


class Interp:
    def __init__(self, prog, t0_reader=None):
        from sc3.base.main import main
        from sc3.base import clock as clk
        from sc3.base import stream as stm
        from sc3.base import builtins as bi
        from sc3.base.netaddr import NetAddr
        self.main, self.clk, self.stm, self.bi = main, clk, stm, bi
        self.prog = prog
        self.trace = []
        self.addr = NetAddr(*TARGET)
        self.errors = []
        self.t0 = 0.0

    def now(self):
        return self.main.current_tt._seconds - self.t0

    def clock_of(self, ref):
        if ref is None:
            return None
        if ref == 'sys':
            return self.clk.SystemClock
        if ref == 'app':
            return self.clk.AppClock
        return self.clocks[ref]

    def clock_name(self, c):
        if c is self.clk.SystemClock:
            return 'sys'
        if c is self.clk.AppClock:
            return 'app'
        for i, x in enumerate(self.clocks):
            if x is c:
                return i
        return '?'

    def setup(self):
        """Create clocks, routines, conditions (at logical time t0)."""
        stm, clk = self.stm, self.clk
        self.t0 = self.main.current_tt._seconds
        self.clocks = []
        for c in self.prog.get('clocks', []):
            self.clocks.append(clk.TempoClock(c['tempo'], c.get('beats')))
        # a condition's test is a plain value or any callable (program key
        # 'cond_kinds': bool | func | method | partial | callable)
        import functools
        self.flags = [False] * 4
        flags = self.flags

        class Probe:
            def __init__(self, k):
                self.k = k

            def is_set(self):
                return flags[self.k]

            def __call__(self):
                return flags[self.k]

        def get(k):
            return flags[k]
        kinds = list(self.prog.get('cond_kinds', [])) + ['bool'] * 4
        self.cond_kinds = kinds[:4]
        self.conds = []
        for k in range(4):
            kind = self.cond_kinds[k]
            test = {'bool': False, 'func': (lambda k=k: flags[k]),
                    'method': Probe(k).is_set,
                    'partial': functools.partial(get, k),
                    'callable': Probe(k)}[kind]
            self.conds.append(stm.Condition(test))
        self.flows = [stm.FlowVar() for _ in range(4)]
        self.routines = {}
        for name, r in self.prog['routines'].items():
            rt = stm.Routine(self.make_gen(name, r['body']))
            # 'nest': n - the body runs in a routine nested n levels deep
            # inside the routine that is played (embedded in it): by the
            # documentation the whole nest behaves as the one routine
            for lvl in range(r.get('nest', 0)):
                rt = stm.Routine(self.make_wrapper(name, rt, lvl))
            self.routines[name] = rt

    def teardown(self):
        for c in self.clocks:
            try:
                c.stop()
            except Exception:
                pass

    def rec(self, **kw):
        self.trace.append(kw)

    def make_wrapper(self, name, inner, lvl):
        stm = self.stm

        def wrapper(inval):
            yield from stm.embed(inner, inval)
        wrapper.__qualname__ = f'prog.{name}.nest{lvl}'
        return wrapper

    def make_gen(self, name, body):
        interp = self

        def gen(inval):
            for op in body:
                r = interp.do(name, op)
                if r is not None:
                    kind, val = r
                    if kind == 'yield':
                        yield val
                    elif kind == 'from':
                        got = yield from val
                        if op[0] == 'fwait':
                            interp.rec(kind='flow', r=name, k=op[1],
                                       value=got, secs=interp.now())
        gen.__qualname__ = f'prog.{name}'
        return gen

    def do(self, who, op):
        """Execute one op as routine `who` (None = main thread). Returns
        None, ('yield', v) or ('from', generator)."""
        k = op[0]
        main, bi = self.main, self.bi
        if k == 'log':
            # (a nested routine is driven by the clock of the routine
            # that is played)
            tt = main.current_tt.thread_player
            c = tt._clock
            beats = c.beats if isinstance(c, self.clk.TempoClock) else None
            self.rec(kind='log', r=who, tag=op[1], secs=self.now(),
                     beats=beats, clock=self.clock_name(c))
        elif k == 'wait':
            return ('yield', op[1])
        elif k == 'yield':
            # ('inf': the infinite delta - never rescheduled)
            return ('yield', float('inf') if op[1] == 'inf' else op[1])
        elif k == 'play':
            r = self.routines[op[1]]
            q = op[3]
            if isinstance(q, list):
                q = tuple(q)
            how = op[4] if len(op) > 4 else None
            if how in ('deco', 'run') and r.state == r.State.Init \
                    and not self.prog['routines'][op[1]].get('nest'):
                # the convenience spellings: @routine.run(clock, quant) /
                # Routine.run(func, clock, quant) create and play at once
                stm = self.stm
                fn = r.func
                if how == 'deco':
                    new = stm.routine.run(self.clock_of(op[2]), q)(fn)
                else:
                    new = stm.Routine.run(fn, self.clock_of(op[2]), q)
                self.routines[op[1]] = new
            else:
                r.play(self.clock_of(op[2]), q)
        elif k == 'sched':
            # clock.sched(delta, routine): delta in the target clock's unit
            # from the caller's logical time
            c = self.clock_of(op[1]) or main.current_tt._clock
            c.sched(op[2], self.routines[op[3]])
        elif k == 'pause':
            self.guard(who, op, self.routines[op[1]].pause)
        elif k == 'resume':
            self.guard(who, op, self.routines[op[1]].resume)
        elif k == 'stop':
            self.guard(who, op, self.routines[op[1]].stop)
        elif k == 'tempo':
            self.clocks[op[1]].tempo = op[2]
        elif k == 'etempo':
            self.clocks[op[1]].etempo(op[2])
        elif k == 'busy':
            import sc3.base.main as M
            if main is M.RtMain:
                M.time.sleep(op[1])
        elif k == 'tsleep':
            # (top level, RT simulation) the main thread lets time pass
            if getattr(self, 'sim', None) is not None:
                lock = self.main._main_lock
                lock.release()
                try:
                    self.sim.run_until(self.sim.now + op[1])
                finally:
                    lock.acquire()
        elif k == 'next':
            # caller's logical time (= physical time for the main thread)
            with main._main_lock:       # one action, as Routine.next is
                self.rec(kind='next_call', r=who, h=op[1], secs=self.now(),
                         phys=main.elapsed_time() - self.t0)
                try:
                    self.routines[op[1]].next()
                except (self.stm.StopStream, self.stm.PausedStream):
                    pass
        elif k == 'beats':
            self.clocks[op[1]].beats = op[2]
        elif k == 'beats_add':
            c = self.clocks[op[1]]
            c.beats = c.beats + op[2]
        elif k == 'meter':
            self.clocks[op[1]].beats_per_bar = op[2]
        elif k == 'msg':
            import copy
            # optional third item: a bundle-shaped list argument (completion
            # message), sent inside the message as a blob
            self.addr.send_msg('/m', op[1], *copy.deepcopy(op[2:]))
        elif k == 'bundle':
            import copy
            elems = copy.deepcopy(op[2])    # the case itself stays pristine
            for _ in range(2 if len(op) > 3 and op[3] == 'twice' else 1):
                # 'twice': the same list objects are sent again, as a user
                # keeping a prepared bundle around would
                try:
                    self.addr.send_bundle(op[1], *elems)
                except ValueError as e:
                    self.rec(kind='refused', r=who, op=op, secs=self.now())
        elif k == 'cwait':
            return ('from', self.conds[op[1]].wait())
        elif k == 'csignal':
            self.conds[op[1]].signal()
        elif k == 'ctest':
            if self.cond_kinds[op[1]] == 'bool':
                self.conds[op[1]].test = op[2]
            else:
                self.flags[op[1]] = op[2]
        elif k == 'cunhang':
            self.conds[op[1]].unhang()
        elif k == 'fwait':
            return ('from', self.flows[op[1]].value)
        elif k == 'fset':
            try:
                self.flows[op[1]].value = op[2]
            except Exception as e:
                self.rec(kind='rebind_refused', r=who, k=op[1],
                         secs=self.now())
        elif k == 'seed':
            main.current_tt.rand_seed = op[1]
        elif k == 'rand':
            val = getattr(bi, op[1])(*op[2])
            self.rec(kind='rand', r=who, fn=op[1], value=val,
                     secs=self.now())
        elif k == 'raise':
            raise EXC[op[1]]('injected')
        else:
            raise ValueError(op)
        return None

    def guard(self, who, op, call):
        try:
            call()
        except self.stm.RoutineException:
            self.rec(kind='self_refused', r=who, op=op, secs=self.now())

    def run_top(self):
        # The top level runs as one action under the library's lock (as a
        # code block evaluated by the interpreter does): otherwise a clock
        # thread could run a routine started by an earlier statement - and
        # spend physical time, or change a tempo - between two top-level
        # statements, which the model takes to happen at one instant and in
        # the written order. ('tsleep' gives the lock back while it waits.)
        with self.main._main_lock:
            for op in self.prog['top']:
                self.do(None, op)


def run_nrt(prog):
    """Whole program in NRT mode. Returns dict(trace, score list, raw hex,
    elapsed)."""
    from sc3.base.main import main
    main.reset()
    it = Interp(prog)
    it.setup()
    if prog.get('abandon'):
        # statements whose pending tasks are dropped by main.reset() before
        # the program proper starts (same clocks, routines of their own)
        for op in prog['abandon']:
            it.do(None, op)
        main.reset()
    it.run_top()
    score = main.process(prog.get('tail', 0))
    out = {'trace': it.trace, 'score': score.list, 'raw': bytes(score.raw),
           'elapsed': main.elapsed_time()}
    main.reset()
    return out


def run_rt(sim, prog, tape, horizon):
    """Whole program in simulated RT mode (vlib/rtsim.py). Returns dict(trace,
    dgrams [(hex, target)], t0, jitter, errors)."""
    from sc3.base.main import main
    from sc3.base import clock as clk
    sim.tape = list(tape)
    sim.tape_pos = 0
    # no state of an earlier case leaks into this one
    main._in_awake_call = False
    main.current_tt = main.main_tt
    sim.total_jitter = 0.0
    sim.thread_errors = []
    clk.SystemClock.clear()
    clk.AppClock.clear()
    sim.settle()
    sent = []
    iface = main._osc_interface
    old_send = iface._send
    iface._send = lambda msg, target=None: sent.append(
        (bytes(msg.dgram).hex(), list(target) if target else None))
    it = Interp(prog)
    it.sim = sim
    try:
        it.setup()
        it.run_top()
        sim.run_until(sim.now + horizon)
    finally:
        iface._send = old_send
        it.teardown()
        sim.settle()
        sim.threads = [t for t in sim.threads if t.state != 'finished']
    offset = clk.SystemClock._elapsed_osc_offset
    it.rec(kind='end', current_is_main=main.current_tt is main.main_tt,
           in_awake=bool(main._in_awake_call))
    return {'trace': it.trace, 'dgrams': sent, 't0': it.t0,
            'osc_offset': offset, 'jitter': sim.total_jitter,
            'tape_used': sim.tape_pos,
            'errors': [f'{n}: {e!r}' for n, e in sim.thread_errors]}
