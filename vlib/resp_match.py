"""C18 - reference OSC 1.0 address-pattern matcher and pair generator.

Written from the text of "The Open Sound Control 1.0 Specification", section
"OSC Message Dispatching and Pattern Matching" - not from sc3, liblo or
sclang.  No sc3 import.

The clauses used (quoted from the specification):

* "An OSC Address Pattern matches an OSC Address if 1. the OSC Address and
  the OSC Address Pattern contain the same number of parts; and 2. each part
  of the OSC Address Pattern matches the corresponding part of the OSC
  Address."   (parts = the substrings between '/' characters)
* "A part of an OSC Address Pattern matches a part of an OSC Address if every
  consecutive character in the OSC Address Pattern matches the next
  consecutive substring of the OSC Address and every character in the OSC
  Address is matched by something in the OSC Address Pattern."
* '?' matches any single character; '*' matches any sequence of zero or more
  characters; "[string]" matches any character in the string, where inside
  the brackets "two characters separated by a minus sign indicate the range
  of characters between the given two in ASCII collating sequence (a minus
  sign at the end of the string has no special meaning)" and "an exclamation
  point at the beginning of a bracketed string negates the sense of the
  list (... anywhere besides the first character after the open bracket has
  no special meaning)"; "{foo,bar}" matches any of the strings in the
  comma-separated list; any other character matches only itself.

Because matching is part by part and '/' never belongs to a part, no
wildcard can match a '/'.

Patterns the text does not define (unclosed or empty brackets/braces, a
reversed range, a leading or doubled '-', reserved characters inside
brackets/braces, empty alternatives, stray ']' '}' ',' '#' ' ') are
*unspecified*: `match` returns None for them and a check must not demand a
verdict (it may still demand that nothing raises).

API
---
    match(pattern, address, loose=False, drop_trailing_minus=False)
        -> True | False | None
       loose=True: diagnostic variant in which the whole address is one
       part, so '*', '?' and negated sets may match '/' (used only to
       *classify* a disagreement, never as the oracle).
       drop_trailing_minus=True: diagnostic variant in which a '-' before
       the closing bracket is discarded instead of being a member.
    prefix_matches(pattern, address, loose=False) -> bool
       some proper, non-empty prefix of `address` is matched over its whole
       length (diagnostic for "re.match instead of re.fullmatch").
    has_wildcard(pattern) -> bool
    pair_strategy() -> Hypothesis strategy of {'cls','path','pattern'}
    pattern_for(draw, path) / near_miss(...) helpers used by the history stage
"""

RESERVED = set(' #*,/?[]{}')
# characters an address part may consist of in generated cases: letters and
# digits plus printable characters that are ordinary in OSC but special in
# regular expressions or inside brackets
PLAIN = 'abcxyz012'
SPICY = '.+()^$|\\-!_~'


class _Unspecified(Exception):
    pass


def _parse_set(body, drop_trailing_minus):
    """body: the text between '[' and ']' -> (negated, frozenset of chars)."""
    neg = False
    if body.startswith('!'):
        neg = True
        body = body[1:]
    if not body:
        raise _Unspecified('empty bracket list')
    if any(c in RESERVED for c in body):
        raise _Unspecified('reserved character inside brackets')
    chars = set()
    i = 0
    n = len(body)
    while i < n:
        c = body[i]
        if c == '-':
            if i == n - 1 and i > 0:
                # "a minus sign at the end of the string has no special
                # meaning": it is a member like any other character
                if not drop_trailing_minus:
                    chars.add('-')
                i += 1
                continue
            raise _Unspecified('minus sign not between two characters')
        if i + 2 < n and body[i + 1] == '-':
            hi = body[i + 2]
            if hi == '-' or ord(hi) < ord(c):
                raise _Unspecified('reversed or doubled range')
            chars.update(chr(k) for k in range(ord(c), ord(hi) + 1))
            i += 3
            continue
        chars.add(c)
        i += 1
    return neg, frozenset(chars)


def tokenize(text, drop_trailing_minus=False, allow_slash=False):
    """Pattern text of one part -> token list. Tokens: ('lit', c), ('any',),
    ('star',), ('set', negated, chars), ('alt', (strings...))."""
    toks = []
    i = 0
    n = len(text)
    while i < n:
        c = text[i]
        if c == '?':
            toks.append(('any',))
        elif c == '*':
            toks.append(('star',))
        elif c == '[':
            j = text.find(']', i + 1)
            if j < 0:
                raise _Unspecified('unclosed [')
            toks.append(('set',) + _parse_set(text[i + 1:j],
                                              drop_trailing_minus))
            i = j
        elif c == '{':
            j = text.find('}', i + 1)
            if j < 0:
                raise _Unspecified('unclosed {')
            alts = text[i + 1:j].split(',')
            for a in alts:
                if not a:
                    raise _Unspecified('empty alternative')
                if any(ch in RESERVED for ch in a):
                    raise _Unspecified('reserved character inside braces')
            toks.append(('alt', tuple(alts)))
            i = j
        elif c == '/' and allow_slash:
            toks.append(('lit', '/'))
        elif c in RESERVED:
            raise _Unspecified(f'stray {c!r}')
        else:
            toks.append(('lit', c))
        i += 1
    return toks


def _match_tokens(toks, s, prefix_ok=False):
    """Does the token list match the string `s` over its whole length?
    With prefix_ok: over a proper non-empty prefix of it.  Set-of-positions
    simulation (no backtracking blow-up)."""
    pos = {0}
    for t in toks:
        nxt = set()
        kind = t[0]
        for p in pos:
            if kind == 'lit':
                if p < len(s) and s[p] == t[1]:
                    nxt.add(p + 1)
            elif kind == 'any':
                if p < len(s):
                    nxt.add(p + 1)
            elif kind == 'star':
                nxt.update(range(p, len(s) + 1))
            elif kind == 'set':
                if p < len(s) and ((s[p] in t[2]) != t[1]):
                    nxt.add(p + 1)
            elif kind == 'alt':
                for a in t[1]:
                    if s.startswith(a, p):
                        nxt.add(p + len(a))
        pos = nxt
        if not pos:
            return False
    if prefix_ok:
        return any(0 < p < len(s) for p in pos)
    return len(s) in pos


def match(pattern, address, loose=False, drop_trailing_minus=False):
    """True/False per OSC 1.0, None when the pattern is not defined by the
    text (see module docstring)."""
    if not pattern.startswith('/') or not address.startswith('/'):
        return None
    try:
        if loose:
            toks = tokenize(pattern, drop_trailing_minus, allow_slash=True)
            return _match_tokens(toks, address)
        pparts = pattern.split('/')[1:]
        aparts = address.split('/')[1:]
        ptoks = [tokenize(p, drop_trailing_minus) for p in pparts]
        if len(pparts) != len(aparts):
            return False
        return all(_match_tokens(t, a) for t, a in zip(ptoks, aparts))
    except _Unspecified:
        return None


def prefix_matches(pattern, address, loose=False, drop_trailing_minus=False):
    """Some proper non-empty prefix of `address` (cut at any character) is
    matched over its whole length.  Strict mode: the prefix is split into
    parts like an address; loose mode: wildcards may cross '/'."""
    try:
        if loose:
            toks = tokenize(pattern, drop_trailing_minus, allow_slash=True)
            return _match_tokens(toks, address, prefix_ok=True)
    except _Unspecified:
        return False
    for k in range(1, len(address)):
        if match(pattern, address[:k],
                 drop_trailing_minus=drop_trailing_minus) is True:
            return True
    return False


def has_wildcard(pattern):
    return any(c in pattern for c in '?*[{')


def well_formed_address(path):
    """A plain OSC address: '/'-separated non-empty parts without reserved
    characters."""
    if not path.startswith('/'):
        return False
    parts = path.split('/')[1:]
    return all(p and not any(c in RESERVED for c in p) for p in parts)


def explain(pattern, address, got):
    """Name of the disagreement class between an implementation verdict
    `got` (bool) and the reference, or None when they agree / the reference
    is silent.  One class per root cause:

    prefix_match_accepted   accepted although only a proper prefix of the
                            address is matched (whole-length clause)
    wildcard_crosses_slash  accepted only if '*', '?' or '[!..]' may match
                            '/' (part-by-part clause)
    prefix_or_crossing      either of the two alone explains it
    prefix_and_crossing     needs both of them
    bracket_trailing_minus  rejected only if the '-' before ']' is dropped
    false_accept / false_reject   anything else
    """
    ref = match(pattern, address)
    if ref is None or ref == got:
        return None
    if got:
        crossing = match(pattern, address, loose=True)
        prefix = prefix_matches(pattern, address)
        if crossing and prefix:
            return 'prefix_or_crossing'
        if crossing:
            return 'wildcard_crosses_slash'
        if prefix:
            return 'prefix_match_accepted'
        if prefix_matches(pattern, address, loose=True):
            return 'prefix_and_crossing'
        return 'false_accept'
    if match(pattern, address, drop_trailing_minus=True) is False:
        return 'bracket_trailing_minus'
    return 'false_reject'


# --- generation ------------------------------------------------------------------
# Everything below builds Hypothesis strategies; cases are plain dicts.

def _st():
    from hypothesis import strategies as st
    return st


def part_strategy(spicy=0.25):
    st = _st()
    ch = st.one_of(st.sampled_from(PLAIN), st.sampled_from(PLAIN),
                   st.sampled_from(PLAIN), st.sampled_from(SPICY))
    return st.text(ch, min_size=1, max_size=4)


def path_strategy(min_parts=1, max_parts=3):
    st = _st()
    return st.lists(part_strategy(), min_size=min_parts,
                    max_size=max_parts).map(lambda ps: '/' + '/'.join(ps))


def _other_char(c, k):
    pool = [x for x in PLAIN + '._~' if x != c]
    return pool[k % len(pool)]


def pattern_part(draw, part, wild=0.6, star=True):
    """Pattern text that matches `part` over its whole length by
    construction (every wildcard kind is drawn)."""
    st = _st()
    out = []
    i = 0
    n = len(part)
    while i < n:
        c = part[i]
        r = draw(st.integers(0, 99))
        if r >= wild * 100:
            out.append(c)
            i += 1
        elif r < 10:
            out.append('?')
            i += 1
        elif r < 22 and star:
            # '*' swallowing 0..rest characters
            k = draw(st.integers(0, n - i))
            out.append('*')
            i += k
        elif r < 32:
            # list containing c
            others = draw(st.text(st.sampled_from(PLAIN + '._^'),
                                  max_size=2))
            if c in '-!':
                # '!' only means negation when first, '-' only means a
                # range between two characters: put them last
                members = 'q' + others + c
            elif draw(st.booleans()):
                members = c + others
            else:
                members = others + c
            out.append('[' + members + ']')
            i += 1
        elif r < 40 and c.isalnum():
            lo = chr(max(ord(c) - draw(st.integers(0, 2)),
                         ord('0') if c.isdigit() else ord('a')))
            hi = chr(min(ord(c) + draw(st.integers(0, 2)),
                         ord('9') if c.isdigit() else ord('z')))
            extra = draw(st.sampled_from(['', '', 'Q', '-']))
            out.append('[' + lo + '-' + hi + extra + ']')
            i += 1
        elif r < 48:
            oc = _other_char(c, draw(st.integers(0, 20)))
            oc2 = _other_char(c, draw(st.integers(0, 20)))
            out.append('[!' + oc + (oc2 if oc2 not in '-!' else '') + ']')
            i += 1
        else:
            k = draw(st.integers(1, n - i))
            sub = part[i:i + k]
            alt = draw(st.text(st.sampled_from(PLAIN + '.+'), min_size=1,
                               max_size=3))
            alts = [sub, alt] if draw(st.booleans()) else [alt, sub]
            if draw(st.integers(0, 3)) == 0:
                # an alternative that is a proper prefix of the right one
                # listed first (the whole-length clause must still hold)
                alts = [sub[:max(1, len(sub) - 1)]] + alts
            out.append('{' + ','.join(alts) + '}')
            i += k
    if star and draw(st.integers(0, 9)) == 0:
        out.insert(draw(st.integers(0, len(out))), '*')   # '*' matching ''
    return ''.join(out)


def pattern_for(draw, path, wild=0.6, star=True):
    parts = path.split('/')[1:]
    return '/' + '/'.join(pattern_part(draw, p, wild, star) for p in parts)


def _ensure_wild(draw, path, tries=3, star=True):
    pat = path
    for _ in range(tries):
        pat = pattern_for(draw, path, star=star)
        if has_wildcard(pat):
            return pat
    parts = path.split('/')[1:]
    return '/' + '/'.join(['?' + p[1:] for p in parts[:1]] + parts[1:])


MALFORMED_BITS = ['[', '[ab', '{a', '{a,b', 'a}', 'b]', '[c-a]', '[]', '[!]',
                  '{}', '{a,}', '[a-b-c]', '[-a]', '[a[b]', 'a,b', 'a#b',
                  '{a{b}}', '[a*]', '{a?,b}']


def pair(draw):
    """One (class, responder path, incoming address-as-pattern) case."""
    st = _st()
    cls = draw(st.sampled_from(
        ['match', 'match', 'prefix', 'prefix', 'suffix', 'suffix', 'near',
         'near', 'cross', 'exact', 'malformed']))
    path = draw(path_strategy(1, 3))
    if cls == 'match':
        pat = _ensure_wild(draw, path)
    elif cls == 'exact':
        pat = path if draw(st.integers(0, 2)) else draw(path_strategy(1, 3))
    elif cls == 'prefix':
        # the pattern matches a proper prefix of the path: either whole
        # leading parts, or a cut inside the last retained part
        tail = draw(st.one_of(
            part_strategy().map(lambda p: '/' + p),
            st.text(st.sampled_from(PLAIN), min_size=1, max_size=2),
            path_strategy(1, 2)))
        pat = pattern_for(draw, path, wild=draw(st.sampled_from([0, .5])))
        path = path + tail
    elif cls == 'suffix':
        head = draw(st.one_of(
            part_strategy().map(lambda p: '/' + p),
            path_strategy(1, 2)))
        pat = pattern_for(draw, path, wild=draw(st.sampled_from([0, .5])),
                          star=draw(st.integers(0, 3)) == 0)
        if draw(st.booleans()):
            path = head + path                 # extra leading parts
        else:
            path = '/' + draw(st.sampled_from(PLAIN)) + path[1:]
    elif cls == 'cross':
        # a wildcard would have to match '/'
        extra = draw(path_strategy(1, 2))
        full = path + extra
        how = draw(st.integers(0, 4))
        if how == 0:
            pat = pattern_for(draw, path, wild=0.3) + '*'
        elif how == 1:
            pat = path + '?' + extra[1:]
        elif how == 2:
            pat = path + '[!a]' + extra[1:]
        elif how == 3:
            pat = '/*'
        else:
            pat = path[:-1] + '*' + extra[-1]
        path = full
    elif cls == 'near':
        pat = _ensure_wild(draw, path, star=draw(st.integers(0, 3)) == 0)
        how = draw(st.integers(0, 5))
        parts = path.split('/')[1:]
        k = draw(st.integers(0, len(parts) - 1))
        p = parts[k]
        j = draw(st.integers(0, len(p) - 1))
        if how == 0:                      # one character differs
            parts[k] = p[:j] + _other_char(p[j], draw(st.integers(0, 20))) \
                + p[j + 1:]
        elif how == 1:                    # one character fewer
            parts[k] = (p[:j] + p[j + 1:]) or 'q'
        elif how == 2:                    # one character more
            parts[k] = p[:j] + draw(st.sampled_from(PLAIN)) + p[j:]
        elif how == 3:                    # one part fewer / more
            if len(parts) > 1:
                parts.pop(k)
            else:
                parts.append(draw(part_strategy()))
        elif how == 4:                    # negated list that contains it
            ppat = pat.split('/')[1:]
            ppat[k] = p[:j] + '[!' + p[j].replace('-', 'q').replace('!', 'q') \
                + 'Q]' + p[j + 1:]
            if p[j] in '-!':
                ppat[k] = p[:j] + '[Q]' + p[j + 1:]
            pat = '/' + '/'.join(ppat)
        else:                             # alternatives without the right one
            ppat = pat.split('/')[1:]
            ppat[k] = '{' + p + 'q,' + 'q' + p + '}'
            pat = '/' + '/'.join(ppat)
        path = '/' + '/'.join(parts)
    else:  # malformed
        bit = draw(st.sampled_from(MALFORMED_BITS))
        parts = path.split('/')[1:]
        k = draw(st.integers(0, len(parts) - 1))
        pp = list(parts)
        pp[k] = pp[k] + bit if draw(st.booleans()) else bit + pp[k]
        pat = '/' + '/'.join(pp)
    return {'cls': cls, 'path': path, 'pattern': pat}


def pair_strategy():
    st = _st()
    return st.composite(lambda draw: pair(draw))()
