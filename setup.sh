#!/bin/sh
# Offline setup: make sure hypothesis is importable by /venv/bin/python.
set -e
cd "$(dirname "$0")"
if ! /venv/bin/python -c "import hypothesis" 2>/dev/null; then
  /venv/bin/pip install --no-index --find-links /opt/veriftools/wheels --target ./.deps hypothesis
fi
if ! PYTHONPATH=./.deps /venv/bin/python -c "import atheris" 2>/dev/null; then
  /venv/bin/pip install --no-index --find-links /opt/veriftools/wheels --target ./.deps atheris || true
fi
exit 0
