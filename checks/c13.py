"""C13 - Patterns denote the sequences their definitions say, compositionally.

Oracle: vlib/pat_model.py (denotational interpreter written from the pattern
documentation) + blueprint laws (metamorphic); see DESIGN.md C13.
"""

import itertools
import json
import operator
import signal

from hypothesis import strategies as st

from vlib.core import Stage, Reject, Violation, V, sc3_origin
from vlib import pat_model as M

PROPERTY = 'C13'
LEVEL = 'exploration'
MODE = 'nrt'
SHARDS = {'quick': 2, 'thorough': 16}
MANIFEST = {
    'technique': 'model-based property testing: recursive Hypothesis grammar '
                 'of pattern expressions interpreted by an independent '
                 'denotational reference model, plus metamorphic blueprint '
                 'laws (stream independence, pattern immutability, seed '
                 'determinism)',
    'category': 'exploration',
    'text': 'Generated pattern expressions (nesting depth <= 4 quick / 5 '
            'thorough) over Pseq Pser Pn Plen Pdrop Pstutter Pclump Pflatten '
            'Pdiff Pconst Pswitch Pswitch1 Place Ptuple Pslide Pseries Pgeom '
            'Pcollect Pselect Preject Pif Pwrap, unary/binary/n-ary operator '
            'patterns with numbers on either side and Pseed-wrapped random '
            'patterns, with finite and infinite repeats, are built as real '
            'sc3 patterns; list(p), stream.next() step by step and '
            'stream.all() must equal the sequence computed by the reference '
            'interpreter (infinite ones through a bounded prefix); two '
            'streams of one pattern pulled in a generated interleaving must '
            'each equal a fresh stream, the deep structural snapshot of the '
            'pattern must be unchanged; seeded random atoms must be '
            'reproducible, isolated from the outer generator and only yield '
            'what their class documents; operator operands must be pulled '
            'left to right; a stream driven with next(value) must hand each '
            'value to the function patterns called in that step, whatever '
            'plain values or sub-patterns were embedded before them.',
    'note': 'Trusted: the reference interpreter (one clause per class citing '
            'the SuperCollider help text it encodes; the repo guide '
            'docs/guides/patterns.md is empty). Inputs the documentation '
            'leaves open (Pconst source ending early, offsets/indices '
            'outside the list, Pflatten of nested lists, length arguments '
            'given as patterns, negative counts) are not generated or are '
            'rejected. Random atoms have no model: they are checked by '
            'documented laws (length, membership, no immediate repetition, '
            'same permutation per repeat, zero weight never) and by '
            'composing their stand-alone seeded sequence.',
}
RULE = (
    'expr stage: recursive strategy of pattern specs (JSON dicts), nesting '
    'depth <= 4 (quick) / 5 (thorough); leaves are ints in -4..9 and dyadic '
    'floats; list items are a number (2/3) or a sub-pattern (1/3); repeats '
    'from {0,1,2,3,inf}; parameters of Pstutter/Pclump/Pslide/Pseries/Pgeom/'
    'Pwrap are numbers or finite/infinite parameter patterns; indices of '
    'Pswitch/Pswitch1 are int patterns reduced modulo the list size; list '
    'valued expressions (Pclump, Ptuple and wrappers of them) are generated '
    'as a separate kind so that operators only meet numbers. Each case also '
    'carries the prefix bound n (6/12/20) and an interleaving schedule. '
    'Non-trivial = nesting depth >= 3 and a filter pattern whose source '
    'contains a list pattern one of whose items is a finite, non-empty '
    'sub-pattern. seeded stage: random atom x seed x embedding form. order '
    'stage: operator/Ptuple trees over call-logging Pcollect leaves; '
    'non-trivial = at least two logged operands of different length. '
    'inval stage: trees of Pseq/Pser/Pn/Pswitch/Pclump/Plen over numbers '
    'and Plen(Pfunc(lambda inval: inval), 1..2) leaves, pulled with '
    'next(1000+k); non-trivial = an input value of a step k >= 1 appears '
    'beside plain values. '
    'Distinct by sha1 of the canonical case JSON.')
ASSUMPTIONS = [
    'A pattern ends as soon as a parameter stream it needs a value from has '
    'ended (SC Pattern Guide); the order of pulls among parameter streams is '
    'asserted only for operator patterns and Ptuple (left to right).',
    'An infinitely repeated pattern that never yields denotes nothing (it '
    'hangs in SuperCollider too); such inputs are rejected via a fuel bound '
    'in the model.',
    'Numeric kernels reached through patterns (mod, wrap, clip, roundup) '
    'are only exercised with int bounds on ints and dyadic floats; their own '
    'laws belong to C15.',
    'Random patterns are only used below Pseed (statement: "under the same '
    'random seed").',
]

CASE_TIMEOUT = 10   # CPU seconds; a hang in sc3 is reported, not waited for


def setup(ctx):
    global stm, bi, ptt, P, OPEN_FINDINGS
    from vlib.core import load_known
    OPEN_FINDINGS = set(load_known(PROPERTY))
    from sc3.base import stream as stm
    from sc3.base import builtins as bi
    from sc3.seq import pattern as ptt
    from sc3.seq.patterns import listpatterns as lp
    from sc3.seq.patterns import filterpatterns as fp
    from sc3.seq.patterns import valuepatterns as vp
    from sc3.seq.patterns import funcpatterns as up

    class P:
        pass
    for mod in (lp, fp, vp, up):
        for k, val in vars(mod).items():
            if isinstance(val, type) and issubclass(val, ptt.Pattern):
                setattr(P, k, val)


# --- building the real pattern from a spec ------------------------------------

REAL_COLLECT = {
    'add1': lambda x: x + 1,
    'dbl': lambda x: x * 2,
    'neg': lambda x: -x,
    'sq': lambda x: x * x,
    'const7': lambda x: 7,
    'half': lambda x: x / 2,
    'add1_inval': lambda x, inval: x + 1,
}
REAL_TEST = {
    'odd': lambda x: x % 2 == 1,
    'pos': lambda x: x > 0,
    'lt3': lambda x: x < 3,
    'ne0': lambda x: x != 0,
    'true': lambda x: True,
    'false': lambda x: False,
}


def rep(r):
    return float('inf') if r == 'inf' else r


def build(x, funcs=None):
    if not isinstance(x, dict):
        return x
    B = lambda y: build(y, funcs)
    t = x['t']
    if t in ('Pseq', 'Pser'):
        return getattr(P, t)([B(i) for i in x['list']], rep(x['rep']),
                             x['off'])
    if t == 'Place':
        lst = [[B(j) for j in i] if isinstance(i, list) else B(i)
               for i in x['list']]
        return P.Place(lst, rep(x['rep']), x['off'])
    if t == 'Ptuple':
        return P.Ptuple([B(i) for i in x['list']], rep(x['rep']))
    if t in ('Pswitch', 'Pswitch1'):
        return getattr(P, t)([B(i) for i in x['list']], B(x['which']))
    if t == 'Pslide':
        return P.Pslide([B(i) for i in x['list']], length=B(x['len']),
                        step=B(x['step']), start=x['start'], wrap=x['wrap'],
                        repeats=rep(x['rep']))
    if t == 'Pseries':
        return P.Pseries(x['start'], B(x['step']), rep(x['len']))
    if t == 'Pgeom':
        return P.Pgeom(x['start'], B(x['grow']), rep(x['len']))
    if t == 'Pn':
        return P.Pn(B(x['pat']), rep(x['rep']))
    if t in ('Plen', 'Pdrop', 'Pstutter', 'Pclump', 'Pflatten'):
        return getattr(P, t)(B(x['pat']), B(x['n']))
    if t == 'Pdiff':
        return P.Pdiff(B(x['pat']))
    if t == 'Pconst':
        return P.Pconst(B(x['pat']), x['sum'])
    if t == 'Pwrap':
        return P.Pwrap(B(x['pat']), B(x['lo']), B(x['hi']))
    if t == 'Pseed':
        return P.Pseed(B(x['seed']), B(x['pat']))
    if t == 'Pcollect':
        f = (funcs or {}).get(x['f']) or REAL_COLLECT[x['f']]
        return P.Pcollect(f, B(x['pat']))
    if t in ('Pselect', 'Preject'):
        return getattr(P, t)(REAL_TEST[x['f']], B(x['pat']))
    if t == 'Pif':
        return P.Pif(B(x['cond']), B(x['a']), B(x['b']))
    if t == 'Pinval':
        # the value handed to next(): Pfunc's function gets it as argument
        return P.Pfunc(lambda inval: inval)
    if t == 'unop':
        a = B(x['a'])
        return {'neg': operator.neg, 'abs': abs, 'pos': operator.pos}[
            x['op']](a)
    if t == 'binop':
        a, b = B(x['a']), B(x['b'])
        op = x['op']
        if op == 'min':
            return bi.min(a, b)
        if op == 'max':
            return bi.max(a, b)
        if op in ('round', 'roundup', 'trunc'):
            return getattr(bi, op)(a, b)   # builtin function spelling
        return getattr(operator, op)(a, b)   # python dispatch, incl. reflected
    if t == 'narop':
        a = B(x['a'])
        meth = getattr(a, x['op'])
        if not callable(meth):
            # Pslide keeps its `wrap` flag in an instance attribute that
            # shadows the operator method; the builtin function form
            # (bi.wrap(p, lo, hi)) reaches the same _compose_narop
            meth = lambda *args: getattr(bi, x['op'])(a, *args)
        return meth(*[B(y) for y in x['args']])
    if t in ('Prand', 'Pxrand', 'Pshuffle'):
        return getattr(P, t)([B(i) for i in x['list']], rep(x['rep']))
    if t == 'Pwrand':
        return P.Pwrand([B(i) for i in x['list']], list(x['weights']),
                        rep(x['rep']))
    if t == 'Pwhite':
        return P.Pwhite(x['lo'], x['hi'], rep(x['len']))
    raise ValueError(t)


def snapshot(o, depth=0):
    """Deep structural snapshot of a pattern object as plain data (never
    compares patterns with ==, which they overload)."""
    if depth > 40:
        return ('deep',)
    if isinstance(o, ptt.Pattern):
        return ('pat', type(o).__name__,
                sorted((k, snapshot(val, depth + 1))
                       for k, val in vars(o).items()))
    if isinstance(o, (list, tuple)):
        return (type(o).__name__, [snapshot(i, depth + 1) for i in o])
    if isinstance(o, dict):
        return ('dict', sorted((repr(k), snapshot(val, depth + 1))
                               for k, val in o.items()))
    if o is None or isinstance(o, (bool, int, float, str)):
        return (type(o).__name__, repr(o))
    return ('obj', type(o).__name__, id(o))


class Hang(Exception):
    pass


def _alarm(signum, frame):
    raise Hang()


class guard:
    """A case that does not come back is a violation, not a stuck run."""

    # CPU time of this process, not wall time: a loaded machine must not
    # turn a slow case into a report

    def __enter__(self):
        self.old = signal.signal(signal.SIGVTALRM, _alarm)
        # (repeating: should the code under test swallow the exception -
        # a broad except inside a loop - it is raised again a second later)
        signal.setitimer(signal.ITIMER_VIRTUAL, CASE_TIMEOUT, 1.0)

    def __exit__(self, *exc):
        signal.setitimer(signal.ITIMER_VIRTUAL, 0)
        signal.signal(signal.SIGVTALRM, self.old)
        return False


def take(it, n):
    return list(itertools.islice(it, n))


def short(x, limit=700):
    s = json.dumps(x, default=repr)
    return s if len(s) <= limit else s[:limit] + '...'


# --- random atoms: documented laws + stand-alone seeded reference -------------

def member_values(atom):
    """Every value an embedded item of the atom's list can contribute (items
    are numbers or deterministic finite sub-patterns)."""
    vals = []
    for item in atom['list']:
        if isinstance(item, dict):
            out, fin = M.denote(item, 64)
            vals.extend(out)
        else:
            vals.append(item)
    return vals


def scalar_items(atom):
    return all(not isinstance(i, dict) for i in atom['list'])


def check_atom(atom, seq, v, where):
    """What the class documentation says about one seeded embedding."""
    t = atom['t']
    if t == 'Pwhite':
        lo, hi = atom['lo'], atom['hi']
        v.check(len(seq) == atom['len'], 'pwhite_length',
                lambda: f'{where}: {short(atom)} gave {len(seq)} values')
        v.check(all(lo <= x <= hi for x in seq), 'pwhite_out_of_range',
                lambda: f'{where}: {short(atom)} -> {seq}')
        if type(lo) is int and type(hi) is int:
            v.check(all(type(x) is int for x in seq), 'pwhite_not_int',
                    lambda: f'{where}: {short(atom)} -> {seq}')
        return
    members = member_values(atom)
    v.check(all(any(M.same(x, m) for m in members) for x in seq),
            'random_list_non_member',
            lambda: f'{where}: {short(atom)} -> {seq}')
    if not scalar_items(atom):
        return
    lst = atom['list']
    if t in ('Prand', 'Pxrand', 'Pwrand'):
        # "embed one item from the list at random for each repeat"
        v.check(len(seq) == atom['rep'], 'random_list_length',
                lambda: f'{where}: {short(atom)} gave {len(seq)} values')
    if t == 'Pxrand' and len(set(lst)) == len(lst):
        # "never repeats the same element twice in a row"
        v.check(all(a != b for a, b in zip(seq, seq[1:])),
                'pxrand_repeated',
                lambda: f'{where}: {short(atom)} -> {seq}')
    if t == 'Pwrand':
        dead = [x for x, w in zip(lst, atom['weights']) if w == 0]
        live = [x for x, w in zip(lst, atom['weights']) if w != 0]
        v.check(not any(x in dead and x not in live for x in seq),
                'pwrand_zero_weight_chosen',
                lambda: f'{where}: {short(atom)} -> {seq}')
    if t == 'Pshuffle':
        # "returns a shuffled version of the list item by item, with n
        # repeats": the same permutation of the whole list every repeat
        n = len(lst)
        v.check(len(seq) == n * atom['rep'], 'pshuffle_length',
                lambda: f'{where}: {short(atom)} gave {len(seq)} values')
        blocks = [seq[i:i + n] for i in range(0, len(seq), n)]
        v.check(all(sorted(b) == sorted(lst) for b in blocks),
                'pshuffle_not_a_permutation',
                lambda: f'{where}: {short(atom)} -> {seq}')
        v.check(all(b == blocks[0] for b in blocks), 'pshuffle_reshuffled',
                lambda: f'{where}: {short(atom)} -> {seq}')


def seeded_once(seed, atom):
    """One stand-alone seeded embedding of a (finite) random atom, as a new
    real pattern: Pseed(Pseq([seed]), atom)."""
    p = P.Pseed(P.Pseq([seed], 1), build(atom))
    return take(iter(p), 200)


class RandomSource:
    """random_source of the model: the stand-alone sequence of the seeded
    atom, checked against the atom's documented laws, memoised per case."""

    def __init__(self, v):
        self.v = v
        self.memo = {}
        self.used = 0

    def __call__(self, seed, atom):
        key = json.dumps([seed, atom], sort_keys=True)
        if key not in self.memo:
            seq = seeded_once(seed, atom)
            check_atom(atom, seq, self.v, f'seed {seed}')
            self.memo[key] = seq
        self.used += 1
        return iter(self.memo[key])


# --- expr stage -----------------------------------------------------------------

def model_eval(spec, n, model):
    try:
        return M.denote(spec, n, model=model)
    except M.Diverged:
        raise Reject()
    except Hang:
        # the reference model itself ran out of CPU time (a filter that
        # never lets anything through over ever-growing integers): the
        # expression has no value to compare with
        raise Reject()
    except M.Undecided:
        raise Reject()
    except (OverflowError, ZeroDivisionError):
        raise Reject()


def nontrivial_expr(spec):
    if M.depth(spec) < 3:
        return False
    for f in M.walk(spec):
        if f['t'] not in M.FILTER_CLASSES:
            continue
        src = f.get('pat')
        for l in M.walk(src):
            if l['t'] not in M.LIST_CLASSES:
                continue
            for item in l['list']:
                for it in (item if isinstance(item, list) else [item]):
                    if isinstance(it, dict) and not any(
                            s['t'] == 'Pseed' for s in M.walk(it)):
                        try:
                            out, fin = M.denote(it, 40, fuel=5000)
                        except Exception:
                            continue
                        if fin and out:
                            return True
    return False


QUIRKS = {
    # event of the model -> (quirk of the model, violation kind = finding key)
    'pslide_nowrap_below_list': ('pslide_negative_index',
                                 'pslide_nowrap_negative_index'),
}


def run_expr(case, v):
    return _run_expr_known(case, v)


def _observed(case, v, quirks=()):
    """One pass of the oracle; an exception from inside sc3 becomes a
    violation of the same kind the runner would give it."""
    model = M.Model(RandomSource(v), quirks=quirks)
    try:
        with guard():
            info = _run_expr(case, v, model)
    except Hang:
        v.fail('no_progress', f'no result within {CASE_TIMEOUT}s of CPU time')
        info = {}
    except Exception as e:
        where = sc3_origin(e)
        if where is None or isinstance(e, (Reject, Violation)):
            raise
        v.fail(f'sc3_raised:{type(e).__name__}@{where}', repr(e))
        info = {}
    return info, model


def _run_expr_known(case, v):
    """Report against the documented meaning; if that fails and the model
    went through a clause with a known finding, accept *only* a library
    behaviour that is exactly the known deviation (then reported under the
    finding's own kind), anything else stays an ordinary violation."""
    v1 = V()
    info, model = _observed(case, v1)
    if v1.items:
        for ev, (quirk, kind) in QUIRKS.items():
            # only while the finding is open (status "known"): once it is
            # fixed every deviation is reported again
            if ev not in model.events or kind not in OPEN_FINDINGS:
                continue
            v2 = V()
            try:
                _observed(case, v2, quirks=(quirk,))
                exact = not v2.items
            except M.QuirkRaises as q:
                exact = any(x.kind.startswith(f'sc3_raised:{q.args[0]}@')
                            for x in v1.items) and len(v1.items) == 1
            except Reject:
                # behind the deviating clause the expression reaches an
                # input the documentation does not decide (or that never
                # yields): it cannot be judged while the finding is open
                raise
            if exact:
                v.fail(kind, v1.items[0].detail)
                return info
    v.items.extend(v1.items)
    return info


def _run_expr(case, v, model):
    spec, n, sched = case['spec'], case['n'], case['sched']
    rs = model.random_source
    exp, finite = model_eval(spec, n, model)
    pulls = n + 1

    p = build(spec)
    snap0 = snapshot(p)

    def compare(got, kind, what):
        """got: up to n+1 values pulled from a fresh stream."""
        if finite:
            ok = len(got) == len(exp)
            v.check(ok, kind + '_length',
                    lambda: f'{what}: {len(got)} values {short(got)}, '
                            f'model {len(exp)} {short(exp)}')
        else:
            ok = len(got) == pulls
            v.check(ok, kind + '_ended_early',
                    lambda: f'{what}: ended after {len(got)} values '
                            f'{short(got)}, model continues {short(exp)}')
        m = min(len(got), len(exp))
        v.check(M.same_seq(got[:m], exp[:m]), kind + '_values',
                lambda: f'{what}: {short(got)} model {short(exp)}')

    # 1. iteration protocol
    got = take(iter(p), pulls)
    compare(got, 'list', 'list(p)')

    # 2. stream.next() step by step; StopStream exactly at the end
    s = stm.stream(p)
    step = []
    ended = False
    for _ in range(pulls):
        try:
            step.append(s.next())
        except stm.StopStream:
            ended = True
            break
    compare(step, 'next', 'stream.next()')
    if finite and len(step) == len(exp):
        v.check(ended, 'next_no_stop', 'no StopStream at the end')

    # 3. stream.all() (unbounded: only when the pattern was seen to end)
    if finite and not v.items:
        got = stm.stream(p).all()
        compare(got, 'all', 'stream.all()')

    # 4. blueprint: two streams pulled in the generated interleaving
    streams = [stm.stream(p), stm.stream(p)]
    outs = [[], []]
    done = [False, False]

    def pull(i):
        if done[i] or len(outs[i]) >= pulls:
            return
        try:
            outs[i].append(streams[i].next())
        except stm.StopStream:
            done[i] = True

    for w in sched:
        pull(1 if w else 0)
    for i in (0, 1):
        while not done[i] and len(outs[i]) < pulls:
            pull(i)
    compare(outs[0], 'interleaved', 'stream A of two')
    compare(outs[1], 'interleaved', 'stream B of two')

    # 5. the pattern is unchanged and still gives the same sequence
    snap1 = snapshot(p)
    v.check(snap0 == snap1, 'pattern_mutated',
            lambda: f'snapshot before {short(snap0)} after {short(snap1)}')
    got = take(iter(p), pulls)
    compare(got, 'rerun', 'list(p) after other streams were used')

    # 6. embedded in place by a list pattern / repeated by Pn
    if finite and len(exp) <= n // 2:
        got = take(iter(P.Pseq([97, p, 98], 1)), pulls + 2)
        want = [97] + exp + [98]
        v.check(M.same_seq(got, want), 'embedded_in_place',
                lambda: f'Pseq([97, p, 98]): {short(got)} model {short(want)}')
        got = take(iter(P.Pn(p, 2)), 2 * len(exp) + 1)
        v.check(M.same_seq(got, exp + exp), 'repeated_by_pn',
                lambda: f'Pn(p, 2): {short(got)} model {short(exp + exp)}')

    classes = sorted({s['t'] if s['t'] not in ('unop', 'binop', 'narop')
                      else s['t'] + ':' + s['op'] for s in M.walk(spec)})
    labels = ['class:' + c for c in classes]
    labels.append('finite' if finite else 'infinite')
    labels.append(f'depth:{M.depth(spec)}')
    if finite and not exp:
        labels.append('empty')
    if any(isinstance(x, (list, tuple)) for x in exp):
        labels.append('list_valued')
    if any(isinstance(x, float) for x in exp):
        labels.append('float_valued')
    if rs.used:
        labels.append('seeded_random')
    if any(s.get('rep') == 'inf' or s.get('len') == 'inf'
           for s in M.walk(spec)):
        labels.append('has_inf_repeat')
    nt = nontrivial_expr(spec)
    if nt:
        labels.append('nontrivial')
    return {'nontrivial': nt, 'labels': labels}


# --- expr strategy ----------------------------------------------------------------

INT_LEAF = st.integers(-4, 9)
FLOAT_LEAF = st.sampled_from([0.5, 1.5, -2.5, 0.25, 2.0, -0.75, 3.5])
REPS = st.sampled_from([1, 1, 1, 1, 2, 2, 2, 3, 3, 'inf', 'inf', 'inf', 0])
COUNTS = st.sampled_from([3, 2, 4, 5, 1, 7, 2, 3, 4, 5, 'inf', 'inf', 'inf', 0])
FD = st.fixed_dictionaries


def leaf(ints):
    if ints:
        return INT_LEAF
    return st.one_of(INT_LEAF, INT_LEAF, INT_LEAF, FLOAT_LEAF)


def fix_list(d):
    """offset inside the list; an endlessly repeated list keeps at least one
    plain number so that every cycle yields."""
    d = dict(d)
    lst = list(d['list'])
    if d.get('rep') == 'inf' and d['t'] in ('Pseq', 'Place', 'Pser') and all(
            isinstance(i, dict) for i in lst):
        lst.append(1)
    d['list'] = lst
    if 'off' in d:
        d['off'] = d['off'] % len(lst)
    return d


def just(t):
    return st.just(t)


_memo = {}


def flat_seq(ints, lo=None, hi=None, reps=REPS):
    lf = leaf(ints) if lo is None else st.integers(lo, hi)
    return FD({'t': just('Pseq'), 'list': st.lists(lf, min_size=1, max_size=5),
               'rep': reps, 'off': st.integers(0, 4)}).map(fix_list)


def count_param(lo):
    """Pstutter/Pclump/Pslide counts: a number, an endless or a finite
    pattern of small counts."""
    return st.one_of(
        st.integers(max(lo, 1), 3), st.integers(max(lo, 1), 3),
        flat_seq(True, lo, 3, st.sampled_from(['inf', 'inf', 1, 2])))


def int_param(lo, hi):
    return st.one_of(
        st.integers(lo, hi), st.integers(lo, hi),
        flat_seq(True, lo, hi, st.sampled_from(['inf', 'inf', 1, 2])))


def E0(ints):
    key = ('E0', ints)
    if key in _memo:
        return _memo[key]
    lf = leaf(ints)
    grow = st.sampled_from([2, -1, 3, -2, 1, 0] if ints else
                           [2, -1, 3, 0.5, 1.5, -2, 1])
    s = st.one_of(
        flat_seq(ints), flat_seq(ints),
        FD({'t': just('Pser'),
            'list': st.lists(lf, min_size=1, max_size=5),
            'rep': COUNTS, 'off': st.integers(0, 4)}).map(fix_list),
        FD({'t': just('Pseries'), 'start': lf, 'step': lf,
            'len': COUNTS}),
        FD({'t': just('Pgeom'), 'start': lf, 'grow': grow, 'len': COUNTS}),
    )
    _memo[key] = s
    return s


def atoms(ints, sub=None):
    """Random atoms (only ever placed below Pseed)."""
    num = st.integers(-4, 9)
    item = num if sub is None else st.one_of(num, num, num, sub)
    lst = st.lists(item, min_size=2, max_size=5)
    uniq = st.lists(num, min_size=2, max_size=5, unique=True)
    rp = st.integers(1, 5)

    def wr(d):
        w = list(d['weights'])[:len(d['list'])]
        w += [1] * (len(d['list']) - len(w))
        if not any(w):
            w[0] = 1
        return dict(d, weights=w)
    return st.one_of(
        FD({'t': just('Prand'), 'list': lst, 'rep': rp}),
        FD({'t': just('Prand'), 'list': lst, 'rep': rp}),
        FD({'t': just('Pxrand'), 'list': uniq, 'rep': rp}),
        FD({'t': just('Pxrand'), 'list': lst, 'rep': rp}),
        FD({'t': just('Pwrand'), 'list': lst,
            'weights': st.lists(st.sampled_from([0, 1, 1, 2, 0.5]),
                                min_size=2, max_size=5),
            'rep': rp}).map(wr),
        FD({'t': just('Pwhite'), 'lo': st.integers(-3, 2),
            'hi': st.integers(3, 9), 'len': rp}),
        FD({'t': just('Pshuffle'), 'list': uniq,
            'rep': st.integers(1, 3)}),
    )


def seeds():
    k = st.integers(0, 50)
    return st.one_of(
        k, k,
        FD({'t': just('Pseq'), 'list': st.lists(k, min_size=1, max_size=3),
            'rep': st.sampled_from([1, 1, 2]), 'off': just(0)}))


def E(d, ints=False):
    """num-kind pattern specs of nesting depth <= d + 1."""
    if d <= 0:
        return E0(ints)
    key = ('E', d, ints)
    if key in _memo:
        return _memo[key]
    lf = leaf(ints)
    sub = E(d - 1, ints)
    isub = E(d - 1, True)
    item = st.one_of(lf, lf, sub)
    items = st.lists(item, min_size=1, max_size=4)
    src = st.one_of(sub, sub, sub, sub, sub, sub, sub, lf)

    def which(size_of):
        # index streams: ints reduced modulo the list size
        def mk(d_):
            size = len(d_['list'])
            w = d_['which']
            if isinstance(w, dict):
                w = {'t': 'binop', 'op': 'mod', 'a': w, 'b': size}
            else:
                w = w % size
            return dict(d_, which=w)
        return mk

    place_item = st.one_of(lf, lf, sub,
                           st.lists(st.one_of(lf, lf, sub),
                                    min_size=1, max_size=3))
    posleaf = st.integers(1, 4) if ints else st.one_of(
        st.integers(1, 4), st.sampled_from([0.5, 1.5, 0.25]))
    cmpop = st.sampled_from(['lt', 'le', 'gt', 'ge', 'eq', 'ne'])
    arith = st.sampled_from(['add', 'sub', 'mul', 'min', 'max', 'add', 'sub'])
    cond = st.one_of(
        FD({'t': just('binop'), 'op': cmpop, 'a': sub,
            'b': st.integers(-1, 5)}),
        FD({'t': just('binop'), 'op': cmpop, 'a': st.integers(-1, 5),
            'b': sub}),
        FD({'t': just('Pseq'),
            'list': st.lists(st.sampled_from([True, False, 0, 1, 2]),
                             min_size=1, max_size=5),
            'rep': st.sampled_from([1, 2, 'inf', 'inf']), 'off': just(0)}))
    tests = st.sampled_from(['odd', 'pos', 'lt3', 'ne0', 'odd', 'pos', 'lt3',
                             'ne0', 'true', 'false'])
    cfun = st.sampled_from(
        ['add1', 'dbl', 'neg', 'sq', 'const7', 'add1_inval'] +
        ([] if ints else ['half']))
    alts = [
        # list patterns with embedded sub-patterns
        FD({'t': just('Pseq'), 'list': items, 'rep': REPS,
            'off': st.integers(0, 3)}).map(fix_list),
        FD({'t': just('Pseq'), 'list': items, 'rep': REPS,
            'off': st.integers(0, 3)}).map(fix_list),
        FD({'t': just('Pser'), 'list': items, 'rep': COUNTS,
            'off': st.integers(0, 3)}).map(fix_list),
        FD({'t': just('Place'),
            'list': st.lists(place_item, min_size=1, max_size=4),
            'rep': REPS, 'off': st.integers(0, 3)}).map(fix_list),
        FD({'t': just('Pswitch'), 'list': items,
            'which': st.one_of(isub, isub, st.integers(0, 3))}
           ).map(which(None)),
        FD({'t': just('Pswitch1'), 'list': items,
            'which': st.one_of(isub, isub, st.integers(0, 3))}
           ).map(which(None)),
        FD({'t': just('Pslide'), 'list': items, 'len': count_param(0),
            'step': int_param(-2, 3), 'start': st.integers(0, 3),
            'wrap': st.sampled_from([True, True, False]),
            'rep': st.sampled_from([1, 2, 3, 4, 'inf'])}).map(
                lambda d_: dict(d_, start=d_['start'] % len(d_['list']))),
        # series with stream-valued step
        FD({'t': just('Pseries'), 'start': lf,
            'step': st.one_of(sub, int_param(-2, 3)), 'len': COUNTS}),
        FD({'t': just('Pgeom'), 'start': lf,
            'grow': st.one_of(
                flat_seq(True, -2, 2, st.sampled_from(['inf', 1, 2])),
                st.sampled_from([2, -1] if ints else [2, -1, 0.5, 1.5])),
            'len': COUNTS}),
        # filter patterns
        FD({'t': just('Pn'), 'pat': src, 'rep': REPS}),
        FD({'t': just('Plen'), 'pat': src,
            'n': st.sampled_from([3, 2, 1, 4, 5, 6, 7, 2, 3, 4, 5, 0])}),
        FD({'t': just('Pdrop'), 'pat': src,
            'n': st.sampled_from([1, 0, 1, 2, 2, 3, 5])}),
        FD({'t': just('Pstutter'), 'pat': src, 'n': count_param(0)}),
        FD({'t': just('Pflatten'), 'pat': st.one_of(L(d - 1, ints),
                                                   L(d - 1, ints), sub),
            'n': st.sampled_from([1, 1, 2])}),
        FD({'t': just('Pdiff'), 'pat': src}),
        FD({'t': just('Pconst'),
            'pat': st.one_of(
                FD({'t': just('Pseq'),
                    'list': st.lists(st.one_of(posleaf, posleaf, sub),
                                     min_size=1, max_size=4),
                    'rep': just('inf'), 'off': just(0)}).map(fix_list),
                sub),
            'sum': st.integers(2, 12)}),
        FD({'t': just('Pwrap'), 'pat': src, 'lo': int_param(-2, 1),
            'hi': int_param(2, 6)}),
        FD({'t': just('Pcollect'), 'f': cfun, 'pat': src}),
        FD({'t': just('Pselect'), 'f': tests, 'pat': sub}),
        FD({'t': just('Preject'), 'f': tests, 'pat': sub}),
        FD({'t': just('Pseed'), 'seed': seeds(),
            'pat': atoms(ints, flat_seq(True, -4, 9,
                                        st.sampled_from([1, 2])))}),
        # function patterns
        FD({'t': just('Pif'), 'cond': cond, 'a': st.one_of(sub, lf),
            'b': st.one_of(sub, lf)}),
        # operator patterns
        FD({'t': just('unop'), 'op': st.sampled_from(['neg', 'abs', 'pos']),
            'a': sub}),
        FD({'t': just('binop'), 'op': arith, 'a': sub, 'b': lf}),
        FD({'t': just('binop'), 'op': arith, 'a': lf, 'b': sub}),
        FD({'t': just('binop'), 'op': arith, 'a': sub, 'b': sub}),
        FD({'t': just('binop'), 'op': just('mod'), 'a': sub,
            'b': st.one_of(st.integers(2, 5),
                           flat_seq(True, 2, 5,
                                    st.sampled_from(['inf', 1, 2])))}),
        FD({'t': just('binop'), 'op': just('floordiv'), 'a': sub,
            'b': st.sampled_from([2, 3, -2])}),
        FD({'t': just('narop'), 'op': st.sampled_from(['clip', 'wrap']),
            'a': sub,
            'args': st.tuples(int_param(-2, 1), int_param(2, 6)).map(list)}),
    ]
    if not ints:
        alts.append(FD({'t': just('binop'), 'op': just('truediv'), 'a': sub,
                        'b': st.sampled_from([2, 4, -2, 0.5])}))
        # quantising builtins (their results are floats), either operand a
        # plain number or a pattern
        quantise = st.sampled_from(['round', 'roundup', 'trunc'])
        quantum = st.one_of(st.sampled_from([2, 3, 4, 0.5]),
                            flat_seq(True, 2, 5,
                                     st.sampled_from(['inf', 1, 2])))
        alts.append(FD({'t': just('binop'), 'op': quantise, 'a': sub,
                        'b': quantum}))
        alts.append(FD({'t': just('binop'), 'op': quantise,
                        'a': st.one_of(st.integers(-9, 20),
                                       st.sampled_from([0.5, 7.25, -3.5])),
                        'b': flat_seq(True, 2, 5,
                                      st.sampled_from(['inf', 1, 2]))}))
    s = st.one_of(*alts)
    _memo[key] = s
    return s


def L(d, ints=False):
    """list-kind pattern specs: every value is a flat list of numbers
    (Pclump and kind-preserving wrappers)."""
    key = ('L', d, ints)
    if key in _memo:
        return _memo[key]
    src = E(max(d - 1, 0), ints) if d > 0 else E0(ints)
    base = FD({'t': just('Pclump'), 'pat': src, 'n': count_param(1)})
    if d <= 0:
        s = base
    else:
        sub = L(d - 1, ints)
        s = st.one_of(
            base, base, base,
            FD({'t': just('Pseq'),
                'list': st.lists(sub, min_size=1, max_size=3),
                'rep': st.sampled_from([1, 2, 'inf']),
                'off': st.integers(0, 2)}).map(fix_list),
            FD({'t': just('Pn'), 'pat': sub, 'rep': REPS}),
            FD({'t': just('Plen'), 'pat': sub,
                'n': st.sampled_from([2, 1, 3, 4, 5, 0])}),
            FD({'t': just('Pdrop'), 'pat': sub, 'n': st.integers(0, 3)}),
            FD({'t': just('Pstutter'), 'pat': sub, 'n': count_param(0)}),
            FD({'t': just('Pswitch1'),
                'list': st.lists(sub, min_size=2, max_size=2),
                'which': flat_seq(True, 0, 1)}),
        )
    _memo[key] = s
    return s


def T(d, ints=False):
    """tuple-kind specs: Ptuple over numbers and num-kind patterns, and
    wrappers that keep the kind."""
    sub = E(max(d - 1, 0), ints)
    lf = leaf(ints)
    base = FD({'t': just('Ptuple'),
               'list': st.lists(st.one_of(lf, sub, sub), min_size=1,
                                max_size=3),
               'rep': st.sampled_from([1, 1, 2, 3, 'inf'])})
    return st.one_of(
        base, base,
        FD({'t': just('Pn'), 'pat': base, 'rep': REPS}),
        FD({'t': just('Pstutter'), 'pat': base, 'n': count_param(0)}),
        FD({'t': just('Pclump'), 'pat': base, 'n': count_param(1)}),
        FD({'t': just('Pseq'), 'list': st.lists(base, min_size=1, max_size=2),
            'rep': st.sampled_from([1, 2]), 'off': just(0)}),
    )


def expr_cases(depth):
    top = st.one_of(E(depth - 1), E(depth - 1), E(depth - 1), E(depth - 1),
                    E(depth - 1, True), L(depth - 1), T(depth - 1))
    return FD({'spec': top, 'n': st.sampled_from([6, 12, 20]),
               'sched': st.lists(st.booleans(), min_size=0, max_size=30)})


# --- seeded stage -------------------------------------------------------------------

def run_seeded(case, v):
    with guard():
        try:
            return _run_seeded(case, v)
        except Hang:
            v.fail('no_progress', f'no result within {CASE_TIMEOUT}s of CPU time')
            return {}


def _run_seeded(case, v):
    atom, seed, seed2 = case['atom'], case['seed'], case['seed2']
    labels = ['atom:' + atom['t'], 'form:' + case['form']]

    def noise():
        # draws from the outer (main thread) generator; their values are
        # never looked at
        for _ in range(case['noise']):
            bi.rand(100)

    a = seeded_once(seed, atom)
    check_atom(atom, a, v, f'seed {seed}')
    noise()
    b = seeded_once(seed, atom)
    v.check(M.same_seq(a, b), 'seed_not_deterministic',
            lambda: f'{short(atom)} seed {seed}: {a} then {b}')
    c = seeded_once(seed2, atom)
    check_atom(atom, c, v, f'seed {seed2}')

    # one pattern object, several streams, outer generator disturbed
    p = P.Pseed(P.Pseq([seed], 1), build(atom))
    snap0 = snapshot(p)
    s1, s2 = stm.stream(p), stm.stream(p)
    o1, o2 = [], []
    for w in case['sched']:
        try:
            (o2 if w else o1).append((s2 if w else s1).next())
        except stm.StopStream:
            pass
        noise()
    o1 += s1.all()
    o2 += s2.all()
    v.check(M.same_seq(o1, a) and M.same_seq(o2, a), 'seeded_streams_interfere',
            lambda: f'{short(atom)} seed {seed}: alone {a}, '
                    f'interleaved {o1} / {o2}')
    v.check(snapshot(p) == snap0, 'pattern_mutated', short(atom))

    form = case['form']
    n = 3 * (len(a) + len(c)) + 2
    if form == 'const_seed':
        # a number as seed: the identical sequence, again and again
        got = take(iter(P.Pseed(seed, build(atom))), 3 * len(a))
        v.check(M.same_seq(got, a * 3), 'seed_restart_differs',
                lambda: f'Pseed({seed}, {short(atom)}): {got}, alone {a}')
    elif form == 'seed_list':
        got = take(iter(P.Pseed(P.Pseq([seed, seed2, seed], 1),
                                build(atom))), n)
        v.check(M.same_seq(got, a + c + a), 'seed_restart_differs',
                lambda: f'seeds {[seed, seed2, seed]} {short(atom)}: {got}, '
                        f'alone {a} / {c}')
    elif form == 'in_context':
        # the seeded sequence does not depend on where it is embedded or on
        # another seeded sibling being pulled in between
        q = P.Pseq([5, P.Pseed(P.Pseq([seed], 1), build(atom)), 6], 1) + \
            P.Pn(P.Pseed(P.Pseq([seed2], 1), build(atom)), float('inf'))
        got = take(iter(q), n)
        left = [5] + a + [6]
        right = (c * (len(left) // max(len(c), 1) + 1))[:len(left)]
        want = [x + y for x, y in zip(left, right)]
        v.check(M.same_seq(got, want), 'seeded_context_dependent',
                lambda: f'{short(atom)}: {got} expected {want}')
    return {'nontrivial': len(a) >= 2 and form != 'plain', 'labels': labels}


def seeded_cases():
    return FD({
        'atom': atoms(True),
        'seed': st.integers(0, 1000), 'seed2': st.integers(0, 1000),
        'noise': st.integers(0, 3),
        'sched': st.lists(st.booleans(), max_size=12),
        'form': st.sampled_from(['plain', 'const_seed', 'seed_list',
                                 'in_context']),
    })


# --- order stage ----------------------------------------------------------------------

def run_order(case, v):
    with guard():
        try:
            return _run_order(case, v)
        except Hang:
            v.fail('no_progress', f'no result within {CASE_TIMEOUT}s of CPU time')
            return {}


def _run_order(case, v):
    spec = case['spec']
    names = sorted({s['f'] for s in M.walk(spec) if s['t'] == 'Pcollect'})
    mlog, rlog = [], []

    def logger(log, name):
        def f(x):
            log.append(name)
            return x
        return f
    mfuncs = {nm: logger(mlog, nm) for nm in names}
    rfuncs = {nm: logger(rlog, nm) for nm in names}
    try:
        exp = list(itertools.islice(
            M.Model(collect_funcs=mfuncs, fuel=20000).seq(spec), 200))
    except (M.Diverged, M.Undecided, OverflowError, ZeroDivisionError):
        raise Reject()
    if len(exp) >= 200:
        raise Reject()
    got = take(iter(build(spec, rfuncs)), 201)
    v.check(M.same_seq(got, exp), 'operator_values',
            lambda: f'{short(got)} model {short(exp)}')
    v.check(rlog == mlog, 'operand_pull_order',
            lambda: f'operands asked {rlog}, left to right is {mlog}')
    lens = {len(s['pat']['list']) * s['pat']['rep']
            for s in M.walk(spec) if s['t'] == 'Pcollect'}
    return {'nontrivial': len(names) >= 2 and len(lens) >= 2,
            'labels': [f'operands:{len(names)}']}


def order_cases():
    num = st.integers(-4, 9)
    leafp = FD({'t': just('Pcollect'), 'f': just(None),
                'pat': FD({'t': just('Pseq'),
                           'list': st.lists(num, min_size=1, max_size=4),
                           'rep': st.integers(1, 2), 'off': just(0)})})

    def tree(d):
        if d <= 0:
            return leafp
        sub = tree(d - 1)
        arg = st.one_of(sub, sub, num)
        return st.one_of(
            leafp,
            FD({'t': just('unop'), 'op': just('neg'), 'a': sub}),
            FD({'t': just('binop'),
                'op': st.sampled_from(['sub', 'add', 'mul', 'min']),
                'a': sub, 'b': arg}),
            FD({'t': just('binop'),
                'op': st.sampled_from(['sub', 'add', 'mul', 'min']),
                'a': arg, 'b': sub}),
            FD({'t': just('narop'), 'op': just('clip'), 'a': sub,
                'args': st.tuples(arg, arg).map(list)}),
        )

    def root(d):
        sub = tree(d)
        return st.one_of(
            sub, sub,
            # embedded by a list pattern (Punop/Pnarop have an __embed__ of
            # their own besides the stream classes)
            FD({'t': just('Pseq'), 'list': st.tuples(sub, sub).map(list),
                'rep': just(1), 'off': just(0)}),
            FD({'t': just('Ptuple'),
                'list': st.tuples(sub, st.one_of(sub, num),
                                  st.one_of(sub, num)).map(list),
                'rep': just(1)}))

    def name(spec):
        # operands are named in reading order
        spec = json.loads(json.dumps(spec))
        k = itertools.count()
        for s in M.walk(spec):
            if s['t'] == 'Pcollect':
                s['f'] = 'log%d' % next(k)
        return {'spec': spec}
    return st.one_of(root(1), root(2), root(2)).map(name)


# --- known findings ---------------------------------------------------------------------

def _has(case, t):
    spec = case.get('spec') or case.get('atom')
    return any(s['t'] == t for s in M.walk(spec))


def classify_known(stage, case, viol):
    # kind only given when the library output equals, value for value, the
    # model with python negative indexing in Pslide(wrap=False)
    if (viol.kind == 'pslide_nowrap_negative_index' and stage == 'expr'
            and any(s['t'] == 'Pslide' and not s['wrap']
                    for s in M.walk(case['spec']))):
        return 'pslide_nowrap_negative_index'
    # Pshuffle cannot be embedded at all on the supported Pythons
    if (viol.kind == 'sc3_raised:TypeError@base/builtins.py:shuffle'
            and stage in ('expr', 'seeded') and _has(case, 'Pshuffle')):
        return 'pshuffle_typeerror'
    return None


# --- input values -----------------------------------------------------------------
#
# A stream may be handed a value with every next(value); Pfunc's function gets
# the value of the step in which it is called, whatever was embedded before
# it ("inval", Streams-Patterns-Events tutorial; the library threads it through
# every __embed__). The reference model has no notion of it: the leaf is
# modelled as an endless stream of one marker number, and the marker found at
# position k of the modelled sequence is replaced by the value sent at step k.
# Only structure patterns that hand a pulled value out in the step they pull
# it are generated (list patterns, Pn, Plen, Pswitch, Ptuple, Pclump): no
# arithmetic over the marker, no Pstutter.

MARK = 7777.25
INVAL0 = 1000


def inval_model_spec(x):
    if isinstance(x, list):
        return [inval_model_spec(i) for i in x]
    if isinstance(x, dict):
        if x['t'] == 'Pinval':
            return {'t': 'Pn', 'pat': MARK, 'rep': 'inf'}
        return {k: inval_model_spec(val) for k, val in x.items()}
    return x


def put_invals(val, k):
    if isinstance(val, (list, tuple)):
        return type(val)(put_invals(i, k) for i in val)
    if isinstance(val, float) and val == MARK:
        return INVAL0 + k
    return val


def run_inval(case, v):
    spec, n = case['spec'], case['n']
    model = M.Model(RandomSource(v))
    try:
        with guard():
            exp, finite = model_eval(inval_model_spec(spec), n, model)
            exp = [put_invals(val, k) for k, val in enumerate(exp)]
            s = stm.stream(build(spec))
            got = []
            try:
                for k in range(n + 1):
                    got.append(s.next(INVAL0 + k))
            except stm.StopStream:
                pass
    except Hang:
        v.fail('no_progress', f'no result within {CASE_TIMEOUT}s of CPU time')
        return {'nontrivial': False, 'labels': []}
    if finite:
        v.check(len(got) == len(exp), 'inval_length',
                lambda: f'next(value): {len(got)} values {short(got)}, '
                        f'model {len(exp)} {short(exp)}')
    else:
        v.check(len(got) == n + 1, 'inval_ended_early',
                lambda: f'next(value): ended after {short(got)}, model '
                        f'continues {short(exp)}')
    m = min(len(got), len(exp))
    v.check(M.same_seq(got[:m], exp[:m]), 'inval_values',
            lambda: f'next({INVAL0}+k): {short(got)} model {short(exp)}')
    flat = [x for val in exp for x in (val if isinstance(val, (list, tuple))
                                       else [val])]
    late = any(isinstance(x, int) and x > INVAL0 for x in flat)
    plain = any(not (isinstance(x, int) and x >= INVAL0) for x in flat)
    labels = []
    if late:
        labels.append('input_value_of_a_later_step')
    if late and plain:
        labels.append('plain_values_between')
    return {'nontrivial': late and plain, 'labels': labels}


def inval_cases():
    num = st.one_of(st.integers(-4, 9),
                    st.sampled_from([0.5, 2.5, -1.25]))
    leaf = st.one_of(
        num, num,
        st.fixed_dictionaries({'t': st.just('Plen'),
                               'pat': st.just({'t': 'Pinval'}),
                               'n': st.integers(1, 2)}))

    def node(children):
        elems = st.lists(children, min_size=1, max_size=4)
        reps = st.integers(1, 3)
        return st.one_of(
            st.fixed_dictionaries({'t': st.just('Pseq'), 'list': elems,
                                   'rep': reps, 'off': st.just(0)}),
            st.fixed_dictionaries({'t': st.just('Pser'), 'list': elems,
                                   'rep': st.integers(1, 6),
                                   'off': st.just(0)}),
            st.fixed_dictionaries({'t': st.just('Pn'), 'pat': children,
                                   'rep': st.integers(1, 2)}),
            st.fixed_dictionaries({
                't': st.just('Pswitch'),
                'list': st.lists(children, min_size=2, max_size=3),
                'which': st.fixed_dictionaries({
                    't': st.just('Pseq'),
                    'list': st.lists(st.integers(0, 1), min_size=1,
                                     max_size=4),
                    'rep': st.integers(1, 2), 'off': st.just(0)})}),
            st.fixed_dictionaries({'t': st.just('Pclump'), 'pat': children,
                                   'n': st.integers(1, 3)}),
            st.fixed_dictionaries({'t': st.just('Plen'), 'pat': children,
                                   'n': st.integers(1, 5)}),
        )
    tree = st.recursive(leaf, node, max_leaves=8).filter(
        lambda x: isinstance(x, dict) and x['t'] != 'Plen')
    return st.fixed_dictionaries({'spec': tree, 'n': st.integers(4, 14)})


def stages(ctx):
    depth = 5 if ctx.tier == 'thorough' else 4
    return [
        Stage('expr', run_expr, expr_cases(depth), quick=2000, thorough=15000),
        Stage('seeded', run_seeded, seeded_cases(), quick=300, thorough=2000),
        Stage('order', run_order, order_cases(), quick=300, thorough=2000),
        Stage('inval', run_inval, inval_cases(), quick=400, thorough=3000),
    ]
