"""C18 - Incoming messages reach exactly the responders that should fire.

Stages (DESIGN.md C18):
  match      (responder path, incoming address-as-pattern) pairs against a
             reference matcher written from the OSC 1.0 text
  match_enum bounded-exhaustive: every pattern of <=3 tokens over a 10-token
             alphabet against every address of <=4 characters over {a,b,/}
  history    op histories on OscFunc / OscFunc.matching interleaved with
             datagrams delivered through OscInterface._handle_request in real
             RT mode; model = enabled responders whose filters accept
  registries add/remove/run histories on private subclasses of the system /
             server action registries and of NotificationCenter
  datagram   hostile datagrams (mutations of valid packets) delivered to the
             receiver under a deterministic line-step budget
  datagram_atheris  (thorough tier, optional) corpus grown by atheris/libFuzzer
             on sc3.base._osclib in a child process, each entry judged by the
             datagram executor through the real receiver
"""

import logging
import struct
import sys
import threading
import time
import weakref
from fractions import Fraction

from hypothesis import strategies as st

from vlib.core import Stage, HarnessError
from vlib import osc_ref
from vlib import resp_match as rm
from vlib import resp_dgram as rd

PROPERTY = 'C18'
LEVEL = 'exploration'
MODE = 'rt'
SHARDS = {'quick': 2, 'thorough': 16}
RULE = (
    'match: Hypothesis pairs (responder path, message address read as an OSC '
    '1.0 pattern) built together in classes match / prefix-only / '
    'suffix-only / near-miss / slash-crossing / exact / malformed over '
    'literals ? * [] [!] ranges {,} and regex-special literals, compared '
    'with a part-by-part reference matcher; non-trivial = the pattern has a '
    'wildcard and the reference gives a verdict. match_enum: all patterns '
    'of <=3 tokens over {a b / * ? [ab] [!a] [a-b] {a,ab} {b,ba}} x all '
    'addresses of <=4 characters over {a b /}. history: 4-30 ops (new exact/'
    'matching responder with src_id, recv_port, arg_template of values/'
    'None/predicates incl. longer than the message; enable, disable, '
    'one_shot, free, func replacement, permanent, CmdPeriod.run()) '
    'interleaved with messages and bundles encoded by the reference codec '
    'and delivered through OscUdpInterface._handle_request on two ports '
    'from three senders, completion awaited by a sentinel scheduled on '
    'SystemClock; non-trivial = some message must invoke >=2 responders, >=2 '
    'deliveries must invoke something and a state-changing op lies between '
    'them. registries: 3-25 add/remove/remove_all/run/do_once/defer ops on '
    'private subclasses of CmdPeriod/StartUp/ShutDown, add/remove/'
    "remove_server/run on ServerBoot/Quit/Tree with keys 'all', 'default', "
    'two Server objects, register/unregister/notify/one-shot on '
    'NotificationCenter; non-trivial = a run/notify with >=2 registered '
    'actions after a removal. datagram: valid message/bundle (nesting <=3, '
    'or 20-1000 deep) mutated by truncation, bit flips, int32 splices '
    '(-2^31..2^31-1 and near-boundary) into element-size/blob-size fields, '
    'chopping 1-8 tail bytes, overwriting the first byte of an element, '
    'type-tag overrides with unbalanced brackets, bad UTF-8, inserted/'
    'appended bytes, or raw byte strings; non-trivial = the mutated packet '
    'still starts with "#bundle\\0" or "/" and differs from the valid one. '
    'Distinct by sha1 of the canonical case JSON.'
    ' tcp stage: responders and messages delivered over a NetAddr.connect() TCP connection from a local peer.')
RULE += ' ' + (
    'Responder functions have four required parameters, defaulted parameters, *args, or an extra defaulted parameter.')
ASSUMPTIONS = [
    'The message address is the pattern and the responder path the plain '
    'address (OSC 1.0; OscFunc.matching docstring: "path should not contain '
    'wildcards"); matching responders are only created on plain addresses.',
    'Patterns the OSC 1.0 text does not define (unclosed/empty brackets or '
    'braces, reversed range, leading minus, empty alternative, reserved '
    'characters in lists) get no verdict for matching responders; only '
    '"nothing raises / other responders still fire" is demanded.',
    'Registration order = order of the latest enable(). It is asserted '
    'between responders of one dispatcher on the same path, and between an '
    'exact responder registered before a matching responder on the same '
    'path (exact dispatcher registered first). The relative order of '
    'matching responders on *different* paths hit by one pattern is grouped '
    'by path in sc3 (as in sclang); the statement is read per path and this '
    'is only counted (label multi_path_match), not asserted.',
    'An arg_template position beyond the end of the message: a concrete '
    'value there rejects, None or a predicate there is left undecided '
    '(sclang passes nil); only "no exception, other responders still fire" '
    'is demanded.',
    'enable() after free() and T/F/N arguments are not generated (their '
    'meaning is not documented). After func replacement on a pending '
    'one-shot the one-shot status is undecided.',
    'Re-adding an action that is still registered: its position (kept or '
    'moved to the end) is not asserted, the latest args are.',
    'Actions that add or remove *other* actions while a registry runs are '
    'not generated (snapshot semantics are not documented); do_once / '
    'register_one_shot self-removal is.',
    'Datagram well-formedness = vlib.osc_ref strict decode (type tag string '
    'may be missing, as OSC 1.0 allows for old senders). For nesting deeper '
    'than 16 only safety (no escape, termination, next datagram) is checked.',
    'Termination is decided by a line-event budget (2000 + 100 per byte; '
    'terminating parses were measured at <= 40 per byte + 17) on '
    'sc3.base._osclib/_oscinterface in the receiving thread, never by wall '
    'clock. A sentinel that does not run within 60 s is a harness error.',
    'time argument: reception time for messages and "immediately" bundles '
    '(bracketed by two reads of main.elapsed_time()); for a timetag T the '
    'elapsed-time image of T within 1e-5 s.',
]
EXHAUSTIVE_SCOPE = (
    'match_enum: patterns "/"+t1..tk, k<=3, t in {a,b,/,*,?,[ab],[!a],[a-b],'
    '{a,ab},{b,ba}} without empty parts (900) x all addresses over {a,b,/} '
    'with <=4 characters after the leading "/" and no empty part (50)')

MANIFEST = {
    'technique': 'model-based property testing of op histories through the '
                 'real receive path (RT mode, sentinel-synchronised), '
                 'differential testing against a reference OSC 1.0 pattern '
                 'matcher (Hypothesis + bounded-exhaustive), byte-level '
                 'mutation fuzzing of datagrams with a deterministic step '
                 'budget',
    'category': 'exploration',
    'text': 'Generated (path, pattern) pairs are decided by a part-by-part '
            'reference matcher; generated histories of responder creation/'
            'enable/disable/one_shot/free/func replacement/permanent/'
            'CmdPeriod interleaved with reference-encoded datagrams are '
            'replayed against sc3 in real-time mode and against a model '
            '(enabled responders whose path, source, port and template '
            'accept, once each, in registration order, with msg/time/'
            'sender/port); registries are compared with insertion-ordered '
            'models; mutated datagrams must invoke nothing unless '
            'well-formed, never escape or loop, and leave the receiver '
            'working.',
    'note': 'Trusted: the reference matcher (vlib/resp_match.py), the '
            'reference codec (vlib/osc_ref.py), the history model in this '
            'file. Dispatch runs on the real SystemClock thread; the schedule '
            'is made deterministic by delivering one datagram at a time and '
            'awaiting a sentinel.',
}

SENDERS = [['127.0.0.1', 57110], ['127.0.0.1', 9000], ['10.0.0.7', 9000]]

PREDS = {
    'is_int': lambda x: isinstance(x, int) and not isinstance(x, bool),
    'is_num': lambda x: isinstance(x, (int, float))
    and not isinstance(x, bool),
    'is_str': lambda x: isinstance(x, str),
    'positive': lambda x: isinstance(x, (int, float))
    and not isinstance(x, bool) and x > 0,
    'never': lambda x: False,
    'always': lambda x: True,
}

G = {}   # process-wide handles filled by setup()


# --- setup -------------------------------------------------------------------------

class _Capture(logging.Handler):
    """Collects the exceptions sc3 logs (clock thread catch-all, receiver
    catch-all) so that a swallowed exception can be named in a violation."""

    def __init__(self):
        super().__init__(level=logging.ERROR)
        self.records = []

    def emit(self, record):
        ei = record.exc_info
        if not ei or ei[0] is None:
            return
        tb = ei[2]
        where = '?'
        root = G.get('sc3_root', '')
        while tb is not None:
            code = tb.tb_frame.f_code
            if code.co_filename.startswith(root):
                where = getattr(code, 'co_qualname', code.co_name)
            tb = tb.tb_next
        import re
        name = 're.error' if isinstance(ei[1], re.error) \
            else ei[0].__name__
        self.records.append((record.name.rsplit('.', 1)[-1], name, where,
                             repr(ei[1])[:200]))


def _free_port():
    import socket
    s = socket.socket(socket.AF_INET, socket.SOCK_DGRAM)
    s.bind(('127.0.0.1', 0))
    p = s.getsockname()[1]
    s.close()
    return p


def setup(ctx):
    import os
    import sc3
    from sc3.base.main import main
    from sc3.base import responders, systemactions, model, clock, netaddr
    from sc3.base import _oscinterface, _osclib
    from sc3.synth.server import Server
    G.update(
        main=main, OscFunc=responders.OscFunc, responders=responders,
        sac=systemactions, mdl=model, SystemClock=clock.SystemClock,
        NetAddr=netaddr.NetAddr, osci=_oscinterface, Server=Server,
        sc3_root=os.path.dirname(os.path.abspath(sc3.__file__)) + os.sep,
        traced={os.path.abspath(_osclib.__file__),
                os.path.abspath(_oscinterface.__file__)})
    if 'capture' not in G:
        cap = _Capture()
        for name in ('sc3.base.clock', 'sc3.base._oscinterface'):
            lg = logging.getLogger(name)
            lg.setLevel(logging.ERROR)
            lg.propagate = False
            lg.addHandler(cap)
        G['capture'] = cap
    if 'ifaces' not in G:
        mainif = main._osc_interface
        extra = None
        for _ in range(20):
            p = _free_port()
            try:
                main.open_udp_port(p)
            except OSError:
                continue
            extra = _oscinterface.OscInterface._local_endpoints.get(
                ('127.0.0.1', p))
            if extra is not None:
                break
        if extra is None:
            raise HarnessError('could not open a second UDP port')
        G['ifaces'] = {'main': mainif, 'extra': extra}
    if 'server2' not in G:
        G['server2'] = Server('c18-other', netaddr.NetAddr(
            '127.0.0.1', 57190))


def settle():
    """Wait until everything scheduled on SystemClock so far has run: a
    sentinel scheduled after the dispatches sorts after them (FIFO among
    equal times, time never earlier); the queue is re-checked under the
    lock in case the wall clock stepped backwards."""
    clk = G['SystemClock']
    for _ in range(50):
        ev = threading.Event()
        clk.sched(0, lambda: ev.set())
        if not ev.wait(60):
            raise HarnessError('SystemClock did not run the sentinel in 60 s')
        with clk._sched_cond:
            if clk._task_queue.empty():
                return
    raise HarnessError('SystemClock queue never drained')


# --- stage: match --------------------------------------------------------------------

def _sc3_match(pattern, path):
    import re
    try:
        return bool(G['responders']._match_osc_address_pattern(pattern, path))
    except re.error:
        return 're.error'
    except RecursionError:
        return 'RecursionError'


def _verdict_class(pattern, path, ref):
    if ref is None:
        return 'unspecified'
    if ref:
        return 'match'
    if rm.prefix_matches(pattern, path):
        return 'prefix_only'
    for k in range(1, len(path)):
        if path[k - 1] == '/' and rm.match(pattern, '/' + path[k:]) is True:
            return 'suffix_only'
        if rm.match(pattern, '/' + path[k + 1:]) is True:
            return 'suffix_only'
    return 'miss'


def check_pair(pattern, path, v, labels):
    ref = rm.match(pattern, path)
    got = _sc3_match(pattern, path)
    if not isinstance(got, bool):
        if ref is None:
            labels.add('raised_on_unspecified')
            v.fail('malformed_pattern_raises',
                   f'pattern {pattern!r} vs path {path!r}: {got}')
        else:
            v.fail('matcher_raised',
                   f'pattern {pattern!r} vs path {path!r}: {got}; '
                   f'reference says {ref}')
        return ref
    why = rm.explain(pattern, path, got)
    if why is not None:
        labels.add('disagree:' + why)
        v.fail(why, f'pattern {pattern!r} vs responder path {path!r}: sc3 '
                    f'says {got}, OSC 1.0 says {ref}')
    return ref


def run_match(case, v):
    pattern, path = case['pattern'], case['path']
    labels = {'gen:' + case['cls']}
    ref = check_pair(pattern, path, v, labels)
    labels.add('ref:' + _verdict_class(pattern, path, ref))
    wild = rm.has_wildcard(pattern)
    if wild:
        for c, name in (('?', 'q'), ('*', 'star'), ('[!', 'neg'), ('[', 'set'),
                        ('{', 'alt'), ('-', 'range_or_minus')):
            if c in pattern:
                labels.add('has:' + name)
    return {'nontrivial': wild and ref is not None, 'labels': sorted(labels)}


ENUM_TOKENS = ['a', 'b', '/', '*', '?', '[ab]', '[!a]', '[a-b]', '{a,ab}',
               '{b,ba}']


def _enum_addresses():
    out = []
    import itertools
    for n in range(1, 5):
        for t in itertools.product('ab/', repeat=n):
            s = '/' + ''.join(t)
            if '//' in s or s.endswith('/'):
                continue
            out.append(s)
    return out


def enum_cases(ctx):
    import itertools
    k = 0
    for n in range(1, 4):
        for t in itertools.product(ENUM_TOKENS, repeat=n):
            pat = '/' + ''.join(t)
            if '//' in pat or pat.endswith('/'):
                continue
            if k % ctx.nshards == ctx.shard:
                yield {'pattern': pat}
            k += 1


def run_match_enum(case, v):
    pattern = case['pattern']
    labels = set()
    for path in G.setdefault('enum_addresses', _enum_addresses()):
        check_pair(pattern, path, v, labels)
    return {'nontrivial': rm.has_wildcard(pattern), 'labels': sorted(labels)}


# --- stage: history ------------------------------------------------------------------

def _py_args(args):
    """JSON case args -> python values for the reference encoder."""
    out = []
    for a in args:
        if isinstance(a, dict):
            out.append(bytes.fromhex(a['blob']))
        elif isinstance(a, list):
            out.append(_py_args(a))
        else:
            out.append(a)
    return out


def _tmpl_verdict(tmpl, args):
    res = 'accept'
    for i, item in enumerate(tmpl):
        pred = PREDS[item['pred']] if isinstance(item, dict) else None
        if i >= len(args):
            if item is None or pred is not None:
                res = 'dontcare'
                continue
            return 'reject'
        a = args[i]
        if pred is not None:
            if not pred(a):
                return 'reject'
        elif item is not None and item != a:
            return 'reject'
    return res


class MR:
    """Model of one responder."""

    def __init__(self, rid, spec, seq):
        self.rid = rid
        self.kind = spec['kind']
        self.path = spec['path']
        self.src = spec.get('src')
        self.recv = spec.get('recv')
        self.tmpl = spec.get('tmpl')
        self.enabled = True
        self.freed = False
        self.permanent = False
        self.oneshot = False
        self.oneshot_fuzzy = False
        self.fired = False
        self.gen = 0
        self.seq = seq
        self.cp_stale = False       # classification aid only (see below)
        self.quirk_hit = False
        self.obj = None

    def verdict(self, addr, args, sender, port, ports):
        """('must'|'mustnot'|'dontcare', reason)."""
        if not self.enabled:
            if self.fired:
                return 'mustnot', 'fired_one_shot'
            return 'mustnot', 'freed' if self.freed else 'disabled'
        dc = False
        if self.kind == 'exact':
            if self.path != addr:
                return 'mustnot', 'path'
        else:
            r = rm.match(addr, self.path)
            if r is False:
                return 'mustnot', 'path'
            if r is None:
                dc = True
        if self.src is not None:
            if self.src[0] != sender[0] or (
                    self.src[1] is not None and self.src[1] != sender[1]):
                return 'mustnot', 'src'
        if self.recv is not None and ports[self.recv] != port:
            return 'mustnot', 'port'
        if self.tmpl is not None:
            t = _tmpl_verdict(self.tmpl, args)
            if t == 'reject':
                return 'mustnot', 'tmpl'
            if t == 'dontcare':
                dc = True
        if self.oneshot_fuzzy and self.fired:
            dc = True
        return ('dontcare' if dc else 'must'), ''


class History:
    def __init__(self, v):
        self.v = v
        self.rs = []
        self.log = []
        self.seq = 0
        self.labels = set()
        self.ports = {k: i.port for k, i in G['ifaces'].items()}
        self.disp_seq = {}
        self.disp_counter = 0
        self.cmdperiods = 0
        self.deliveries_with_must = 0
        self.max_must = 0
        self.change_between = False
        self._changed_since_hit = False
        self._note_dispatchers()

    # dispatcher registration order (only to decide when the cross-dispatcher
    # order clause may be asserted)
    def _note_dispatchers(self):
        OscFunc = G['OscFunc']
        for name, d in (('exact', OscFunc._default_dispatcher),
                        ('matching', OscFunc._default_matching_dispatcher)):
            if d.registered and name not in self.disp_seq:
                self.disp_counter += 1
                self.disp_seq[name] = self.disp_counter
            elif not d.registered:
                self.disp_seq.pop(name, None)

    def _callback(self, rid, gen, raises=False, shape=0):
        log = self.log

        def cb(msg, time, addr, recv_port):
            log.append((rid, gen, msg, time, addr, recv_port))
            if raises:
                raise ValueError('generated: responder function fails')
        # other signatures a responder function may have; the four values
        # must arrive all the same ('missing' never equals a real value)
        if shape == 1:
            self.labels.add('function_with_defaults')
            return lambda msg, time='missing', addr='missing', \
                recv_port='missing': cb(msg, time, addr, recv_port)
        if shape == 2:
            self.labels.add('function_with_varargs')
            return lambda *args: cb(*args)
        if shape == 3:
            self.labels.add('function_with_extra_parameter')
            return lambda msg, time, addr, recv_port, extra=None: cb(
                msg, time, addr, recv_port)
        return cb

    def _pick(self, k):
        if not self.rs:
            return None
        return self.rs[k % len(self.rs)]

    def op(self, op):
        name = op[0]
        OscFunc, NetAddr = G['OscFunc'], G['NetAddr']
        if name == 'new':
            spec = op[1]
            self.seq += 1
            m = MR(len(self.rs), spec, self.seq)
            src = None if m.src is None else NetAddr(m.src[0], m.src[1])
            recv = None if m.recv is None else self.ports[m.recv]
            tmpl = None if m.tmpl is None else [
                PREDS[x['pred']] if isinstance(x, dict) else x
                for x in m.tmpl]
            if spec.get('tmpl_bare'):
                tmpl = tmpl[0]
                self.labels.add('bare_template')
            ctor = OscFunc if m.kind == 'exact' else OscFunc.matching
            if spec.get('raises'):
                self.labels.add('raising_function')
            m.obj = ctor(self._callback(m.rid, 0, spec.get('raises', False),
                                        spec.get('shape', 0)),
                         m.path, src, recv, arg_template=tmpl)
            self.rs.append(m)
            self.labels.add('new:' + m.kind)
            if m.tmpl is not None:
                self.labels.add('with_template')
            if m.src is not None:
                self.labels.add('with_src')
            if m.recv is not None:
                self.labels.add('with_recv_port')
            self._changed_since_hit = True
        elif name == 'cmdperiod':
            G['sac'].CmdPeriod.run()
            self.cmdperiods += 1
            for m in self.rs:
                if m.enabled and not m.permanent:
                    m.enabled = False
                    m.freed = True
                elif m.enabled and m.permanent and m.cp_stale:
                    m.quirk_hit = True
            self.labels.add('cmdperiod')
            self._changed_since_hit = True
        else:
            m = self._pick(op[1])
            if m is None:
                return
            if name == 'enable':
                if m.freed:
                    return        # outside the documented domain
                m.obj.enable()
                if not m.enabled:
                    self.seq += 1
                    m.seq = self.seq
                    m.enabled = True
                    self.labels.add('re_enable')
            elif name == 'disable':
                m.obj.disable()
                if m.enabled and not m.permanent:
                    m.cp_stale = False
                m.enabled = False
            elif name == 'free':
                m.obj.free()
                m.enabled = False
                m.freed = True
            elif name == 'one_shot':
                m.obj.one_shot()
                m.oneshot = True
                self.labels.add('one_shot')
            elif name == 'func':
                m.gen += 1
                m.obj.func = self._callback(m.rid, m.gen)
                # (the one-shot wrapper is the function: replacing it on a
                # live responder drops the one-shot, also when the responder
                # was armed a second time after an earlier replacement)
                if m.oneshot and not m.freed:
                    m.oneshot = False
                    m.oneshot_fuzzy = True
                self.labels.add('func_replaced')
            elif name == 'permanent':
                val = bool(op[2])
                m.obj.permanent = val
                m.permanent = val
                if val and not m.freed:
                    # classification aid: sc3 registers the CmdPeriod hook
                    # when permanent is set on a disabled responder
                    m.cp_stale = not m.enabled
                elif not val:
                    m.cp_stale = False
                self.labels.add('permanent')
            self._changed_since_hit = True
        self._note_dispatchers()
        self._check_flags(f'after op {op}')

    def _check_flags(self, where):
        """The public `enabled` attribute must agree with the model after
        every step; a disagreement is reported once and the model follows
        sc3 so that later steps are judged from the real state."""
        for m in self.rs:
            got = bool(m.obj.enabled)
            if got == m.enabled:
                continue
            desc = (f'{where}: responder {m.rid} ({m.kind} {m.path!r} '
                    f'permanent={m.permanent}) has enabled={got}, expected '
                    f'{m.enabled}')
            if m.quirk_hit and not got:
                self.v.fail('permanent_freed_by_cmdperiod', desc)
                m.freed = True
            else:
                self.v.fail('enabled_flag_disagrees', desc)
            m.enabled = got

    # ---- delivering ---------------------------------------------------------

    def deliver(self, spec):
        """spec: {'from': [host, port], 'port': 'main'|'extra',
        'tt': None | 'now' | seconds-from-init, 'msgs': [[addr, args]...],
        'nest': optional index from which the messages go into a nested
        bundle with time 'tt2'}"""
        main = G['main']
        iface = G['ifaces'][spec['port']]
        sender = spec['from']
        msgs = [(a, _py_args(args)) for a, args in spec['msgs']]
        enc = [osc_ref.encode_message(a, args) for a, args in msgs]
        tt = spec.get('tt')
        if tt is None:
            data = enc[0]
            times = [None]
            msgs = msgs[:1]
        else:
            def tag(t):
                if t == 'now':
                    return osc_ref.IMMEDIATELY
                return osc_ref.seconds_to_timetag(
                    Fraction(main._init_time) + Fraction(t))
            nest = spec.get('nest')
            if nest is None or nest >= len(enc):
                data = osc_ref.encode_bundle(tag(tt), enc)
                times = [tt] * len(enc)
            else:
                tt2 = spec['tt2']
                inner = osc_ref.encode_bundle(tag(tt2), enc[nest:])
                data = osc_ref.encode_bundle(tag(tt), enc[:nest] + [inner])
                times = [tt] * nest + [tt2] * (len(enc) - nest)
                self.labels.add('nested_bundle')
            self.labels.add('bundle')
        # what a conforming reader sees (the reference decode, not the spec)
        dec = osc_ref.flatten(osc_ref.decode_packet(data))
        expect_msgs = [[m.address] + list(m.args) for _, m in dec]
        cap = G['capture']
        e0 = len(cap.records)
        l0 = len(self.log)
        t0 = main.elapsed_time()
        iface._handle_request(data, (sender[0], sender[1]))
        t1 = main.elapsed_time()
        settle()
        entries = self.log[l0:]
        errors = [r for r in cap.records[e0:]]
        self._judge(expect_msgs, times, sender, iface.port, entries, errors,
                    t0, t1)
        self._check_flags(f'after delivering {expect_msgs!r}')

    def _judge(self, expect_msgs, times, sender, port, entries, errors,
               t0, t1):
        v = self.v
        nmsg = len(expect_msgs)
        groups = {i: [] for i in range(nmsg)}
        order = []
        for e in entries:
            idx = None
            for i, em in enumerate(expect_msgs):
                if isinstance(e[2], list) and osc_ref.same_value(e[2], em):
                    idx = i
                    break
            if idx is None:
                v.fail('wrong_args:msg',
                       f'responder {e[0]} got msg {e[2]!r}, the datagram '
                       f'carried {expect_msgs!r}')
                continue
            if idx not in order:
                order.append(idx)
            groups[idx].append(e)
        order += [i for i in range(nmsg) if i not in order]
        raised = None
        for src, name, where, rep in errors:
            if 'generated: responder function fails' in rep:
                continue        # the failure the case asked for
            raised = f'{name}@{where}'
            v.fail(f'dispatch_raised:{raised}',
                   f'while dispatching {expect_msgs!r}: {rep} (logged by '
                   f'sc3.base.{src})')
            break
        for i in order:
            self._judge_msg(expect_msgs[i], times[i], sender, port,
                            groups[i], raised, t0, t1)

    def _judge_msg(self, emsg, tt, sender, port, entries, raised, t0, t1):
        v = self.v
        addr, args = emsg[0], emsg[1:]
        verdicts = {m.rid: m.verdict(addr, args, sender, port, self.ports)
                    for m in self.rs}
        must = [m for m in self.rs if verdicts[m.rid][0] == 'must']
        if rm.has_wildcard(addr):
            self.labels.add('msg_with_wildcard')
        if rm.match(addr, '/x') is None:
            self.labels.add('msg_unspecified_pattern')
        if len(must) >= 2:
            self.labels.add('multi_responder_message')
        if any(vd[0] == 'dontcare' for vd in verdicts.values()):
            self.labels.add('dontcare_verdict')
        self.max_must = max(self.max_must, len(must))
        if must:
            if self.deliveries_with_must and self._changed_since_hit:
                self.change_between = True
            self.deliveries_with_must += 1
            self._changed_since_hit = False
        invoked = [e[0] for e in entries]
        seen = set()
        for e in entries:
            rid, gen, msg, time, a, rport = e
            m = self.rs[rid]
            where = (f'message {emsg!r} from {sender} on port {port}: '
                     f'responder {rid} ({m.kind} {m.path!r} src={m.src} '
                     f'recv={m.recv} tmpl={m.tmpl})')
            if rid in seen:
                v.fail('duplicate_invocation', where + ' invoked twice')
                continue
            seen.add(rid)
            kind, reason = verdicts[rid]
            if kind == 'mustnot':
                if reason == 'path' and m.kind == 'matching':
                    why = rm.explain(addr, m.path, True) or 'path'
                    v.fail('unexpected:path:' + why, where + ' was invoked')
                elif reason == 'path':
                    v.fail('unexpected:path_not_equal', where + ' was invoked')
                else:
                    v.fail('unexpected:' + reason, where + ' was invoked '
                           f'(state: enabled={m.enabled} freed={m.freed})')
            # arguments
            if gen != m.gen:
                v.fail('stale_function', where + f' ran function generation '
                       f'{gen}, current is {m.gen}')
            if tt is None or tt == 'now':
                # 50 ms slack: the two reads are time.time() based
                ok = isinstance(time, float) and t0 - .05 <= time <= t1 + .05
                v.check(ok, 'wrong_args:time', lambda: where + f' time={time}'
                        f' not within reception window [{t0}, {t1}]')
            else:
                ok = isinstance(time, float) and abs(time - tt) <= 1e-5
                v.check(ok, 'wrong_args:time', lambda: where + f' time={time}'
                        f', timetag means {tt} s after init')
            okaddr = (type(a).__name__ == 'NetAddr'
                      and a.hostname == sender[0] and a.port == sender[1])
            v.check(okaddr, 'wrong_args:addr', lambda: where + f' addr={a!r}')
            v.check(rport == port and isinstance(rport, int),
                    'wrong_args:port', lambda: where + f' recv_port={rport}')
            if m.oneshot and m.enabled:
                m.enabled = False
                m.freed = True
                m.fired = True
            elif m.oneshot_fuzzy:
                m.fired = True
        # order among the invoked
        inv = [self.rs[e[0]] for e in entries]
        paths = {m.path for m in inv if m.kind == 'matching'}
        if len(paths) > 1:
            self.labels.add('multi_path_match')
        for j in range(len(inv)):
            for i in range(j):
                a, b = inv[i], inv[j]       # a was invoked before b
                if a.path != b.path or a.rid == b.rid:
                    continue
                if a.kind == b.kind and a.seq > b.seq:
                    v.fail('order_same_path',
                           f'message {emsg!r}: responder {a.rid} (enabled '
                           f'#{a.seq}) ran before {b.rid} (enabled #{b.seq})'
                           f' on {a.path!r}; invocation order {invoked}')
                elif (a.kind == 'matching' and b.kind == 'exact'
                      and b.seq < a.seq
                      and self.disp_seq.get('exact', 9) <
                      self.disp_seq.get('matching', 0)):
                    v.fail('order_across_dispatchers',
                           f'message {emsg!r}: matching responder {a.rid} '
                           f'(enabled #{a.seq}) ran before exact responder '
                           f'{b.rid} (enabled #{b.seq}) on the same path '
                           f'{a.path!r}; invocation order {invoked}')
        # missing
        missing = [m for m in must if m.rid not in seen]
        if missing and raised is None:
            fired_now = {e[0] for e in entries if self.rs[e[0]].fired}
            for m in missing:
                where = (f'message {emsg!r} from {sender} on port {port}: '
                         f'responder {m.rid} ({m.kind} {m.path!r} src={m.src}'
                         f' recv={m.recv} tmpl={m.tmpl} permanent='
                         f'{m.permanent}) was not invoked; invoked: {invoked}')
                line = sorted((x for x in self.rs
                               if x.kind == m.kind and x.path == m.path
                               and (x.enabled or x.rid in fired_now)),
                              key=lambda x: x.seq)
                k = line.index(m)
                if k > 0 and line[k - 1].rid in fired_now \
                        and line[k - 1].oneshot:
                    v.fail('skipped_after_one_shot', where)
                elif m.kind == 'matching' and rm.explain(
                        addr, m.path, False) == 'bracket_trailing_minus':
                    v.fail('missing:bracket_trailing_minus', where)
                elif m.quirk_hit:
                    v.fail('permanent_freed_by_cmdperiod', where)
                    m.enabled = False
                    m.freed = True
                else:
                    v.fail('missing_invocation', where)

    def finish(self):
        """Free everything, then every address used must be silent."""
        for m in self.rs:
            m.obj.free()
            m.enabled = False
            m.freed = True
        self._changed_since_hit = True

    def scrub(self):
        """Harness hygiene: nothing of this case may survive into the next
        one, whatever sc3 did."""
        OscFunc = G['OscFunc']
        for m in self.rs:
            try:
                if m.obj is not None:
                    m.obj.free()
            except Exception:
                pass
        objs = {id(m.obj) for m in self.rs}
        for d in (OscFunc._default_dispatcher,
                  OscFunc._default_matching_dispatcher):
            for fp in [fp for fp in d.wrapped_funcs if id(fp) in objs]:
                try:
                    d.remove(fp)
                except Exception:
                    d.wrapped_funcs.pop(fp, None)
        acts = G['sac'].CmdPeriod._actions
        for a in [a for a in acts
                  if id(getattr(a, '__self__', None)) in objs]:
            del acts[a]


def run_history(case, v):
    h = History(v)
    try:
        used = []
        for op in case['ops']:
            if op[0] == 'msg':
                h.deliver(op[1])
                used.append(op[1])
            else:
                h.op(op)
        if used:
            h.finish()
            last = dict(used[-1])
            last['msgs'] = last['msgs'][:1]
            last.pop('tt', None)
            h.deliver(last)
            h.labels.add('after_free_probe')
    finally:
        h.scrub()
    nontrivial = (h.max_must >= 2 and h.deliveries_with_must >= 2
                  and h.change_between)
    return {'nontrivial': nontrivial, 'labels': sorted(h.labels)}


VALS = [0, 1, 1, 0.5, 'a', 'a', 2, '']


def history_strategy():
    arg = st.one_of(st.sampled_from(VALS), st.sampled_from(VALS),
                    st.sampled_from(VALS), st.just({'blob': '00ff10'}))
    args = st.lists(arg, max_size=3)
    titem = st.one_of(st.sampled_from(VALS), st.sampled_from(VALS),
                      st.none(), st.none(),
                      st.sampled_from(sorted(PREDS)).map(
                          lambda n: {'pred': n}))
    tmpl = st.one_of(st.none(), st.none(), st.none(),
                     st.lists(titem, max_size=4), st.lists(titem, max_size=2))
    src = st.one_of(st.none(), st.none(), st.none(), st.none(),
                    st.just(SENDERS[0]), st.sampled_from(SENDERS),
                    st.sampled_from(SENDERS).map(lambda s: [s[0], None]))
    recv = st.one_of(st.none(), st.none(), st.none(), st.none(),
                     st.just('main'), st.sampled_from(['main', 'extra']))
    sender = st.sampled_from([SENDERS[0]] * 3 + SENDERS)
    port = st.sampled_from(['main', 'main', 'main', 'extra'])
    plain = {'src': None, 'recv': None, 'tmpl': None}

    @st.composite
    def hist(draw):
        p0 = draw(rm.path_strategy(1, 2))
        child = p0 + '/' + draw(rm.part_strategy())
        ext = p0 + draw(st.text(st.sampled_from(rm.PLAIN), min_size=1,
                                max_size=2))
        other = draw(rm.path_strategy(1, 2))
        bases = [p0, p0, p0, child, child, ext, other]
        # exact responders may also sit on a path that is not a plain address
        odd = p0 + draw(st.sampled_from(['*', '?', '[c-a]', '{a', '[ab]']))

        def message(addr=None, a=None):
            if addr is None:
                base = draw(st.sampled_from(bases))
                how = draw(st.integers(0, 19))
                if how < 8:
                    addr = base
                elif how < 12:
                    addr = rm.pattern_for(draw, base)
                elif how < 13:
                    addr = base[:-1] if len(base) > 2 and base[-2] != '/' \
                        else base + 'x'
                elif how < 15:
                    addr = draw(st.sampled_from([
                        rm.pattern_for(draw, p0, wild=0.3) + '*',
                        p0 + '?' + child[len(p0) + 1:],
                        p0 + '*', '/*']))
                elif how < 17:
                    addr = odd if how == 15 else base + draw(
                        st.sampled_from(rm.MALFORMED_BITS))
                elif how < 18:
                    addr = draw(rm.path_strategy(1, 2))
                else:
                    addr = rm.pattern_for(draw, base, wild=0.3)
            spec = {'from': draw(sender), 'port': draw(port),
                    'msgs': [[addr, draw(args) if a is None else a]]}
            if draw(st.integers(0, 5)) == 0:
                k = draw(st.integers(0, 2))
                seen = {rm_canon(spec['msgs'][0])}
                for _ in range(k):
                    a2 = draw(st.sampled_from([addr, p0, child]))
                    m2 = [a2, draw(args)]
                    if rm_canon(m2) not in seen:
                        seen.add(rm_canon(m2))
                        spec['msgs'].append(m2)
                spec['tt'] = draw(st.sampled_from(
                    ['now', 'now', 2.5, 1000.0, -3600.0, 0.015625]))
                if len(spec['msgs']) > 1 and draw(st.booleans()) \
                        and spec['tt'] != 'now':
                    spec['nest'] = draw(st.integers(
                        1, len(spec['msgs']) - 1))
                    spec['tt2'] = spec['tt'] + draw(
                        st.sampled_from([0.0, 0.5, 64.0]))
            return ['msg', spec]

        created = []

        def args_for(t):
            """Arguments built from a template: accepted by construction,
            or one position wrong, or cut short / extended."""
            good = {'is_int': 1, 'is_num': 0.5, 'is_str': 'a', 'positive': 2,
                    'always': '', 'never': 0}
            out = []
            for item in t:
                if item is None:
                    out.append(draw(st.sampled_from(VALS)))
                elif isinstance(item, dict):
                    out.append(good[item['pred']])
                else:
                    out.append(item)
            how = draw(st.integers(0, 5))
            if how == 0 and out:
                out = out[:draw(st.integers(0, len(out) - 1))]
            elif how == 1 and out:
                k = draw(st.integers(0, len(out) - 1))
                out[k] = 'zz'
            elif how == 2:
                out.append(draw(st.sampled_from(VALS)))
            return out

        def new(kind=None, path=None, **kw):
            kind = kind or draw(st.sampled_from(['exact', 'matching']))
            if path is None:
                path = draw(st.sampled_from(bases))
                if kind == 'exact' and draw(st.integers(0, 7)) == 0:
                    path = odd
            spec = {'kind': kind, 'path': path, 'src': draw(src),
                    'recv': draw(recv), 'tmpl': draw(tmpl)}
            spec.update(kw)
            if spec['tmpl'] is not None and len(spec['tmpl']) == 1 and \
                    not isinstance(spec['tmpl'][0], dict) and \
                    spec['tmpl'][0] is not None and \
                    draw(st.integers(0, 2)) == 0:
                # a one-value template given as the bare value
                spec['tmpl_bare'] = True
            spec['shape'] = draw(st.sampled_from([0, 0, 1, 2, 3]))
            created.append(spec)
            return ['new', spec]

        # a scenario prefix makes the interesting interleavings frequent by
        # construction; the random tail then continues from that state
        ops = []
        sc = draw(st.integers(0, 9))
        kind = draw(st.sampled_from(['exact', 'matching']))
        if sc == 0:       # neighbours of a one-shot
            ops = [new(kind, p0, **plain), new(kind, p0, **plain),
                   new(kind, p0, **plain),
                   ['one_shot', draw(st.integers(0, 2))],
                   message(p0), message(p0)]
        elif sc == 1:     # permanent set while disabled, then CmdPeriod
            ops = [new(kind, p0, **plain), new(kind, p0, **plain),
                   ['disable', 0], ['permanent', 0, True], ['enable', 0],
                   ['permanent', 1, draw(st.booleans())],
                   message(p0), ['cmdperiod'], message(p0)]
        elif sc == 2:     # template longer than the message, with a neighbour
            t = draw(st.lists(titem, min_size=1, max_size=3))
            ops = [new(kind, p0, src=None, recv=None, tmpl=t),
                   new(kind, p0, **plain), message(p0, args_for(t)),
                   message(p0, []), message(p0, args_for(t))]
        elif sc == 3:     # exact and matching responders on one path
            ops = [new('exact', p0, **plain), new('matching', p0, **plain),
                   new('exact', p0, **plain), message(p0),
                   ['disable', draw(st.integers(0, 2))], message(p0)]
        elif sc == 4:     # parent / child / extension under patterns
            ops = [new('matching', p0, **plain),
                   new('matching', child, **plain),
                   new('matching', ext, **plain), message(p0),
                   message(p0 + '*'), message(rm.pattern_for(draw, child))]
        elif sc == 5:     # a one-shot responder whose function raises
            # (alone in its history: what an exception in one responder
            # does to the others is not part of the statement; that the
            # responder has fired and is never invoked again, is)
            ops = [new(kind, p0, raises=True, **plain),
                   ['one_shot', 0], message(p0), message(p0), message(p0)]
            return {'ops': ops}
        nres = sum(1 for o in ops if o[0] == 'new')
        n = draw(st.integers(3, 24))
        for _ in range(n):
            r = draw(st.integers(0, 99))
            if nres == 0 or r < 18:
                ops.append(new())
                nres += 1
            elif r < 58:
                witht = [c for c in created if c['tmpl']]
                if witht and draw(st.integers(0, 2)) == 0:
                    c = draw(st.sampled_from(witht))
                    ops.append(message(c['path'], args_for(c['tmpl'])))
                else:
                    ops.append(message())
            elif r < 65:
                ops.append(['enable', draw(st.integers(0, 7))])
            elif r < 73:
                ops.append(['disable', draw(st.integers(0, 7))])
            elif r < 80:
                ops.append(['one_shot', draw(st.integers(0, 7))])
            elif r < 85:
                ops.append(['free', draw(st.integers(0, 7))])
            elif r < 90:
                ops.append(['func', draw(st.integers(0, 7))])
            elif r < 95:
                ops.append(['permanent', draw(st.integers(0, 7)),
                            draw(st.booleans())])
            else:
                ops.append(['cmdperiod'])
        return {'ops': ops}
    return hist()


def rm_canon(m):
    import json
    return json.dumps(m, sort_keys=True)


# --- stage: registries ----------------------------------------------------------------

def run_sysaction(case, v):
    sac = G['sac']
    base = getattr(sac, case['reg'])
    attrs = {'_actions': dict()}
    if case['reg'] == 'CmdPeriod':
        attrs.update(clear_clocks=False, free_servers=False)
    if case['reg'] == 'StartUp':
        attrs['done'] = False
    R = type('C18' + case['reg'], (base,), attrs)
    calls = []
    acts = {}

    links = {}        # a -> b: when action a runs it removes action b

    def action(a):
        if a not in acts:
            def f(*args, **kwargs):
                calls.append((a, args, kwargs))
                if a in links:
                    R.remove(action(links[a]))
            acts[a] = f
        return acts[a]
    model = []        # [key, a, args, kwargs, once]; key = a or ('once', n)
    loose = set()
    done = False
    labels = set()
    removed = False
    nontrivial = False
    for n, op in enumerate(case['ops']):
        name = op[0]
        where = f'op {n} {op}'
        del calls[:]
        if name == 'add':
            _, a, args, kw = op
            R.add(action(a), *args, **kw)
            for e in model:
                if e[0] == a:
                    e[2], e[3] = tuple(args), dict(kw)
                    loose.add(a)
                    labels.add('re_add')
                    break
            else:
                model.append([a, a, tuple(args), dict(kw), False])
                loose.discard(a)
        elif name == 'remove':
            a = op[1]
            R.remove(action(a))
            if any(e[0] == a for e in model):
                removed = True
                labels.add('remove_present')
            model = [e for e in model if e[0] != a]
            loose.discard(a)
        elif name == 'remove_all':
            R.remove_all()
            removed = removed or bool(model)
            model = []
            loose.clear()
        elif name == 'do_once':
            _, a, args = op
            R.do_once(action(a), *args)
            model.append([('once', n), a, tuple(args), {}, True])
            labels.add('do_once')
        elif name == 'defer':
            _, a, args = op
            R.defer(action(a), *args)
            if done:
                v.check([(c[0], c[1]) for c in calls] == [(a, tuple(args))],
                        'defer_after_startup_not_immediate',
                        lambda: f'{where}: calls {calls}')
                labels.add('defer_done')
                b = links.get(a)      # the action ran: its link fires
                if b is not None:
                    model = [x for x in model if x[0] != b]
                    loose.discard(b)
            else:
                for e in model:
                    if e[0] == a:
                        e[2], e[3] = tuple(args), {}
                        loose.add(a)
                        break
                else:
                    model.append([a, a, tuple(args), {}, False])
        elif name == 'link':
            links[op[1]] = op[2]
        elif name == 'run':
            R.run()
            done = True
            # actions currently registered: one removed by an earlier
            # action of the same run is not run any more
            exp, gone = [], set()
            for e in list(model):
                if e[0] in gone:
                    continue
                exp.append((e[1], e[2], e[3]))
                b = links.get(e[1])
                if b is not None and any(x[0] == b for x in model):
                    gone.add(b)
                    model = [x for x in model if x[0] != b]
                    loose.discard(b)
                    if any(x is not e for x in model):
                        labels.add('removed_during_run')
                        nontrivial = True
            got = list(calls)
            if len(model) >= 2 and removed:
                nontrivial = True
            ok_multiset = sorted(map(repr, got)) == sorted(map(repr, exp))
            if not ok_multiset:
                gs = [c[0] for c in got]
                es = [c[0] for c in exp]
                extra = [a for a in gs if a not in es]
                miss = [a for a in es if a not in gs]
                if extra:
                    v.fail('removed_or_unknown_action_ran',
                           f'{where}: ran {got}, registered {exp}')
                elif miss:
                    v.fail('registered_action_not_run',
                           f'{where}: ran {got}, registered {exp}')
                elif len(gs) != len(es):
                    v.fail('action_run_count',
                           f'{where}: ran {got}, registered {exp}')
                else:
                    v.fail('action_args', f'{where}: ran {got}, '
                           f'registered {exp}')
            else:
                ge = [c for c in got if c[0] not in loose]
                ee = [c for c in exp if c[0] not in loose]
                v.check(ge == ee, 'action_order',
                        lambda: f'{where}: ran {got}, registered {exp}')
            model = [e for e in model if not e[4]]
            labels.add('run')
        if v.items:
            break
    return {'nontrivial': nontrivial, 'labels': sorted(labels)}


def run_serveraction(case, v):
    sac = G['sac']
    base = getattr(sac, case['reg'])
    R = type('C18' + case['reg'], (base,), {'_servers': dict()})
    servers = {'S0': G['Server'].default, 'S1': G['server2']}

    def key(k):
        return servers.get(k, k)
    calls = []
    acts = {}

    def action(a):
        if a not in acts:
            def f(*args, **kwargs):
                calls.append((a, args, kwargs))
            acts[a] = f
        return acts[a]
    model = {}     # key name -> list of [a, token, args]
    loose = set()
    removed = False
    nontrivial = False
    labels = set()
    for n, op in enumerate(case['ops']):
        name = op[0]
        where = f'op {n} {op}'
        del calls[:]
        if name == 'add':
            _, k, a, args = op
            R.add(key(k), action(a), n, *args)
            lst = model.setdefault(k, [])
            for e in lst:
                if e[0] == a:
                    e[1], e[2] = n, tuple(args)
                    loose.add((k, a))
                    labels.add('re_add')
                    break
            else:
                lst.append([a, n, tuple(args)])
            labels.add('key:' + ('server' if k in servers else k))
        elif name == 'remove':
            _, k, a = op
            R.remove(key(k), action(a))
            if any(e[0] == a for e in model.get(k, [])):
                removed = True
                labels.add('remove_present')
            if k in model:
                model[k] = [e for e in model[k] if e[0] != a]
            loose.discard((k, a))
        elif name == 'remove_server':
            k = op[1]
            R.remove_server(key(k))
            removed = removed or bool(model.get(k))
            model.pop(k, None)
        elif name == 'remove_all':
            R.remove_all()
            removed = removed or any(model.values())
            model = {}
        elif name == 'run':
            k = op[1]
            server = servers[k]
            R.run(server)
            groups = [k] + (['default'] if k == 'S0' else []) + ['all']
            exp = []
            for g in groups:
                for a, tok, args in model.get(g, []):
                    exp.append((g, a, tok, args))
            if len(exp) >= 2 and removed:
                nontrivial = True
            got = []
            bad = False
            for a, args, kw in calls:
                if not args or args[0] is not server or kw:
                    v.fail('server_action_args',
                           f'{where}: action {a} called with {args} {kw}')
                    bad = True
                    continue
                got.append((a, args[1], tuple(args[2:])))
            if bad:
                break
            exp_plain = [(a, tok, args) for _, a, tok, args in exp]
            if sorted(map(repr, got)) != sorted(map(repr, exp_plain)):
                gs = [(c[0], c[1]) for c in got]
                es = [(c[0], c[1]) for c in exp_plain]
                if [x for x in gs if x not in es]:
                    v.fail('removed_or_unknown_action_ran',
                           f'{where}: ran {got}, registered {exp}')
                elif [x for x in es if x not in gs]:
                    v.fail('registered_action_not_run',
                           f'{where}: ran {got}, registered {exp}')
                else:
                    v.fail('action_run_count_or_args',
                           f'{where}: ran {got}, registered {exp}')
            else:
                # order inside each key group (token identifies the group)
                tok2g = {tok: g for g, _, tok, _ in exp}
                for g in groups:
                    ge = [c for c in got if tok2g[c[1]] == g
                          and (g, c[0]) not in loose]
                    ee = [(a, tok, args) for gg, a, tok, args in exp
                          if gg == g and (g, a) not in loose]
                    v.check(ge == ee, 'action_order',
                            lambda: f'{where}: group {g}: ran {got}, '
                            f'registered {exp}')
            labels.add('run:' + ('default_server' if k == 'S0' else 'other'))
        if v.items:
            break
    return {'nontrivial': nontrivial, 'labels': sorted(labels)}


class _Thing:
    def __init__(self, name):
        self.name = name

    def __repr__(self):
        return self.name


def run_notification(case, v):
    mdl = G['mdl']
    NC = type('C18NotificationCenter', (mdl.NotificationCenter,),
              {'_registrations': weakref.WeakKeyDictionary()})
    objs = [_Thing(f'O{i}') for i in range(2)]
    lst = [_Thing(f'L{i}') for i in range(3)]
    calls = []

    def action(tok):
        def f(*args, **kwargs):
            calls.append((tok, args, kwargs))
        return f
    model = {}      # (o, m) -> list of [l, tok, once]
    loose = set()
    removed = False
    nontrivial = False
    labels = set()
    for n, op in enumerate(case['ops']):
        name = op[0]
        where = f'op {n} {op}'
        del calls[:]
        if name in ('register', 'one_shot'):
            _, o, m, l = op
            if name == 'register':
                NC.register(objs[o], m, lst[l], action(n))
            else:
                NC.register_one_shot(objs[o], m, lst[l], action(n))
                labels.add('one_shot')
            ents = model.setdefault((o, m), [])
            for e in ents:
                if e[0] == l:
                    e[1], e[2] = n, name == 'one_shot'
                    loose.add((o, m, l))
                    labels.add('re_register')
                    break
            else:
                ents.append([l, n, name == 'one_shot'])
        elif name == 'unregister':
            _, o, m, l = op
            present = (
                any(k[0] == o for k, es in model.items() if es) if m is None
                else bool(model.get((o, m))) if l is None
                else any(e[0] == l for e in model.get((o, m), [])))
            try:
                NC.unregister(objs[o], m, None if l is None else lst[l])
            except KeyError:
                # documented refusal for a registration that does not exist
                if present:
                    v.fail('unregister_raised_for_existing', where)
            if present:
                removed = True
                labels.add('unregister_present')
            else:
                labels.add('unregister_absent')
            if m is None:
                for k in [k for k in model if k[0] == o]:
                    del model[k]
            elif l is None:
                model.pop((o, m), None)
            else:
                model[(o, m)] = [e for e in model.get((o, m), [])
                                 if e[0] != l]
            loose = {x for x in loose
                     if any(e[0] == x[2] for e in model.get(x[:2], []))}
        elif name == 'exists':
            _, o, m, l = op
            exp = any(e[0] == l for e in model.get((o, m), []))
            got = NC.registration_exists(objs[o], m, lst[l])
            v.check(bool(got) == exp, 'registration_exists_disagrees',
                    lambda: f'{where}: {got}, model {exp}')
        elif name == 'notify':
            _, o, m, args = op
            NC.notify(objs[o], m, *args)
            ents = list(model.get((o, m), []))
            if len(ents) >= 2 and removed:
                nontrivial = True
            exp = [(tok, (objs[o], m, lst[l]) + tuple(args), {})
                   for l, tok, once in ents]
            got = list(calls)
            gs, es = [c[0] for c in got], [c[0] for c in exp]
            if sorted(gs) != sorted(es):
                if [x for x in gs if x not in es]:
                    v.fail('unregistered_listener_notified',
                           f'{where}: called {got}, registered {exp}')
                elif [x for x in es if x not in gs]:
                    v.fail('registered_listener_not_notified',
                           f'{where}: called {got}, registered {exp}')
                else:
                    v.fail('listener_notified_twice',
                           f'{where}: called {got}, registered {exp}')
            else:
                bytok = {c[0]: c for c in got}
                for e in exp:
                    c = bytok[e[0]]
                    same = (len(c[1]) == len(e[1]) and all(
                        (x is y) or (x == y) for x, y in zip(c[1], e[1]))
                        and c[2] == e[2])
                    v.check(same, 'notification_args',
                            lambda: f'{where}: called {c}, expected {e}')
                tl = {tok for l, tok, once in ents if (o, m, l) in loose}
                v.check([t for t in gs if t not in tl]
                        == [t for t in es if t not in tl],
                        'notification_order',
                        lambda: f'{where}: called {gs}, registered {es}')
            model[(o, m)] = [e for e in model.get((o, m), []) if not e[2]]
            labels.add('notify')
        if v.items:
            break
    return {'nontrivial': nontrivial, 'labels': sorted(labels)}


def run_registry(case, v):
    fam = case['family']
    if fam == 'system':
        out = run_sysaction(case, v)
    elif fam == 'server':
        out = run_serveraction(case, v)
    else:
        out = run_notification(case, v)
    out['labels'] = [fam] + [f'{fam}:{x}' for x in out['labels']]
    return out


def registry_strategy():
    a = st.integers(0, 2)
    args = st.lists(st.integers(0, 9), max_size=2)
    kw = st.one_of(st.just({}), st.just({}), st.just({'k': 1}))

    def sysops(reg):
        ops = [st.tuples(st.just('add'), a, args, kw),
               st.tuples(st.just('add'), a, args, kw),
               st.tuples(st.just('remove'), a),
               st.tuples(st.just('run')),
               st.tuples(st.just('run'))]
        ops.append(st.tuples(st.just('link'), a, a))
        if reg == 'CmdPeriod':
            ops.append(st.tuples(st.just('do_once'), a, args))
        if reg == 'StartUp':
            ops.append(st.tuples(st.just('defer'), a, args))
        ops.append(st.tuples(st.just('remove_all')))
        return st.fixed_dictionaries({
            'family': st.just('system'), 'reg': st.just(reg),
            'ops': st.lists(st.one_of(*ops).map(list), min_size=8,
                            max_size=30)})
    key = st.sampled_from(['all', 'default', 'S0', 'S1', 'S0', 'all'])
    a = st.integers(0, 1)
    srvops = st.one_of(
        st.tuples(st.just('add'), key, a, args),
        st.tuples(st.just('add'), key, a, args),
        st.tuples(st.just('add'), key, a, args),
        st.tuples(st.just('remove'), key, a),
        st.tuples(st.just('remove'), key, a),
        st.tuples(st.just('remove_server'), key),
        st.tuples(st.just('run'), st.sampled_from(['S0', 'S0', 'S1'])),
        st.tuples(st.just('run'), st.sampled_from(['S0', 'S0', 'S1'])),
        st.tuples(st.just('remove_all')),
        st.tuples(st.just('add'), key, a, args),
        st.tuples(st.just('run'), st.sampled_from(['S0', 'S1'])),
    ).map(list)
    server = st.fixed_dictionaries({
        'family': st.just('server'),
        'reg': st.sampled_from(['ServerBoot', 'ServerQuit', 'ServerTree']),
        'ops': st.lists(srvops, min_size=8, max_size=30)})
    o = st.sampled_from([0, 0, 0, 1])
    m = st.sampled_from(['m0', 'm0', 'm0', 'm1'])
    l = st.integers(0, 2)
    ncops = st.one_of(
        st.tuples(st.just('register'), o, m, l),
        st.tuples(st.just('register'), o, m, l),
        st.tuples(st.just('register'), o, m, l),
        st.tuples(st.just('one_shot'), o, m, l),
        st.tuples(st.just('unregister'), o, m, l),
        st.tuples(st.just('unregister'), o, m, l),
        st.tuples(st.just('unregister'), o, m, st.none()),
        st.tuples(st.just('unregister'), o, st.none(), st.none()),
        st.tuples(st.just('exists'), o, m, l),
        st.tuples(st.just('notify'), o, m, args),
        st.tuples(st.just('notify'), o, m, args),
        st.tuples(st.just('notify'), o, m, args),
    ).map(list)
    nc = st.fixed_dictionaries({
        'family': st.just('notification'),
        'ops': st.lists(ncops, min_size=8, max_size=30)})
    return st.one_of(server, nc, sysops('CmdPeriod'), server, nc,
                     sysops('StartUp'), server, nc, sysops('ShutDown'))


# --- stage: datagram --------------------------------------------------------------------

class _Budget(BaseException):
    pass


class StepBudget:
    """Counts 'line' events in sc3's OSC modules in the current thread and
    aborts the traced code when the budget is used up (deterministic
    termination check, no clock involved)."""

    def __init__(self, budget):
        self.budget = budget
        self.n = 0
        self.exceeded = False
        self.files = G['traced']

    def _global(self, frame, event, arg):
        if frame.f_code.co_filename in self.files:
            return self._local
        return None

    def _local(self, frame, event, arg):
        if event == 'line':
            self.n += 1
            if self.n > self.budget:
                self.exceeded = True
                raise _Budget()
        return self._local

    def __enter__(self):
        self.prev = sys.gettrace()
        sys.settrace(self._global)
        return self

    def __exit__(self, *exc):
        sys.settrace(self.prev)
        return False


def _enc_packet(spec, base, marks):
    """spec: ['msg', addr, args, {opt}] | ['bundle', tt, [specs]] -> bytes;
    marks collects absolute offsets of size fields and strings."""
    if spec[0] == 'msg':
        addr, args = spec[1], _py_args(spec[2])
        opt = spec[3] if len(spec) > 3 else {}
        flat = []

        def walk(vals):
            for x in vals:
                if isinstance(x, list):
                    flat.append(('[', None))
                    walk(x)
                    flat.append((']', None))
                else:
                    flat.append((osc_ref.infer_tag(x), x))
        walk(args)
        tags = opt.get('tags')
        if tags is None:
            tags = ''.join(t for t, _ in flat)
        a = osc_ref.encode_string(addr)
        marks['str'].append(base)
        t = osc_ref.encode_string(',' + tags)
        marks['tags'].append(base + len(a))
        out = [a, t]
        pos = base + len(a) + len(t)
        for tg, val in flat:
            if tg in '[]TFN':
                continue
            if tg == 'i':
                b = osc_ref.encode_int32(val)
            elif tg == 'f':
                b = osc_ref.encode_float32(val)
            elif tg == 's':
                b = osc_ref.encode_string(val)
                marks['str'].append(pos)
            else:
                b = osc_ref.encode_blob(val)
                marks['size'].append(pos)
            out.append(b)
            pos += len(b)
        return b''.join(out)
    _, tt, elems = spec
    out = [osc_ref.BUNDLE_TAG, osc_ref.encode_timetag(tt)]
    pos = base + 16
    for e in elems:
        marks['size'].append(pos)
        raw = _enc_packet(e, pos + 4, marks)
        out.append(struct.pack('>i', len(raw)))
        out.append(raw)
        pos += 4 + len(raw)
    return b''.join(out)


def build_datagram(case):
    """-> (valid bytes or None, mutated bytes, nesting depth)."""
    base = case['base']
    marks = {'size': [], 'str': [], 'tags': []}
    depth = 0
    if base[0] == 'raw':
        valid = None
        data = bytearray.fromhex(base[1])
    elif base[0] == 'deep':
        _, n, leaf = base
        inner = _enc_packet(leaf, 0, {'size': [], 'str': [], 'tags': []})
        for _ in range(n):
            inner = (osc_ref.BUNDLE_TAG + osc_ref.encode_timetag(1)
                     + struct.pack('>i', len(inner)) + inner)
        marks['size'] = [16 + 20 * k for k in range(n)]
        valid = inner
        data = bytearray(inner)
        depth = n
    else:
        valid = _enc_packet(base, 0, marks)
        data = bytearray(valid)

        def d(s):
            return 1 + max([d(e) for e in s[2]] + [0]) \
                if s[0] == 'bundle' else 0
        depth = d(base)
    for mop in case['muts']:
        name = mop[0]
        n = len(data)
        if name == 'trunc':
            data = data[:mop[1] % (n + 1)]
        elif name == 'flip':
            if n:
                data[mop[1] % n] ^= 1 << mop[2]
        elif name in ('size', 'sizedelta'):
            offs = [o for o in marks['size'] if o + 4 <= n]
            if offs:
                o = offs[mop[1] % len(offs)]
                if name == 'size':
                    val = mop[2]
                else:
                    val = struct.unpack('>i', data[o:o + 4])[0] + mop[2]
                    val = max(-2 ** 31, min(2 ** 31 - 1, val))
                data[o:o + 4] = struct.pack('>i', val)
        elif name == 'bytes':
            if n:
                o = mop[1] % n
                raw = bytes.fromhex(mop[2])
                data[o:o + len(raw)] = raw
        elif name == 'strbytes':
            offs = [o for o in marks['str'] if o + 2 <= n]
            if offs:
                o = offs[mop[1] % len(offs)] + 1
                raw = bytes.fromhex(mop[2])
                data[o:o + len(raw)] = raw
        elif name == 'insert':
            o = mop[1] % (n + 1)
            data[o:o] = bytes.fromhex(mop[2])
        elif name == 'append':
            data += bytes.fromhex(mop[1])
        elif name == 'chop':
            data = data[:max(0, n - mop[1])]
        elif name == 'elemhead':
            # first byte of a bundle element (after its size field)
            offs = [o + 4 for o in marks['size'] if o + 5 <= n
                    and data[o + 4:o + 5] in (b'/', b'#')]
            if offs:
                data[offs[mop[1] % len(offs)]] = mop[2]
    return valid, bytes(data), depth


def _slug(err):
    s = str(err)
    table = [
        ('not a multiple of 4', 'size_not_multiple_of_4'),
        ('unterminated', 'unterminated_string'),
        ('non-zero', 'nonzero_padding'),
        ('bad characters', 'bad_utf8'),
        ('negative blob size', 'negative_blob_size'),
        ('address does not start', 'bad_address'),
        ('does not start with ","', 'tags_without_comma'),
        ('unbalanced', 'unbalanced_array'),
        ('unknown type tag', 'unknown_type_tag'),
        ('trailing bytes', 'trailing_bytes'),
        ('bundle does not start', 'bad_bundle_header'),
        ('bad bundle element size', 'bad_element_size'),
        ('runs past', 'element_overruns'),
        ('empty bundle element', 'empty_element'),
        ('empty packet', 'not_a_packet'),
        ('neither a message', 'not_a_packet'),
        ('missing type tag', 'missing_type_tags'),
        ('out of range', 'bad_value'),
        ('truncated', 'truncated'),
    ]
    import re
    m = re.match(r'truncated ([a-z0-9 ]+?) at offset', s)
    if m:
        return 'truncated_' + m.group(1).replace(' ', '_')
    for k, slug in table:
        if k in s:
            return slug
    return 'other'


def negative_size_reachable(data, depth=0):
    """A reader walking the bundle by its size prefixes meets a negative
    element size (generic reader behaviour, not sc3's code)."""
    if not data.startswith(osc_ref.BUNDLE_TAG) or depth > 64:
        return False
    i = 16
    while i + 4 <= len(data):
        n = struct.unpack('>i', data[i:i + 4])[0]
        if n < 0:
            return True
        if negative_size_reachable(data[i + 4:i + 4 + n], depth + 1):
            return True
        i += 4 + n
    return False


SUPPORTED_TAGS = set('ifsb[]TF')

# Deviations (vlib.resp_dgram) that sc3's reader is known to tolerate, by the
# code site that tolerates them: finding key -> deviation names.  A wrongly
# dispatched datagram counts as known only if *every* deviation it has
# belongs to a group whose finding is still open.
DEV_GROUPS = {
    'bundle_element_size_unchecked': [
        'negative_element_size', 'empty_element', 'misaligned_element_size',
        'element_overruns'],
    'unidentified_bundle_element_skipped': ['unidentified_content'],
    'nonconforming_message_accepted': [
        'size_not_multiple_of_4', 'nonzero_padding', 'trailing_bytes',
        'tags_without_comma', 'unknown_type_tag', 'truncated_blob_padding',
        # h and c are type tags sc3's reader does not know (skipped like
        # any unknown tag); their missing data shows up under these names
        'truncated_int64', 'truncated_char'],
    'short_float_padded': ['truncated_float32'],
    'negative_blob_size_accepted': ['negative_blob_size'],
}
BUNDLE_LEVEL = {'truncated_bundle_header', 'truncated_element_size',
                'negative_element_size', 'empty_element',
                'misaligned_element_size', 'element_overruns',
                'unidentified_content'}
DEV2GROUP = {d: g for g, ds in DEV_GROUPS.items() for d in ds}
DEV_PRIORITY = [d for ds in DEV_GROUPS.values() for d in ds]


def _top_deviation(devs):
    """The deviation that names the violation: one nobody tolerates on
    purpose first (alphabetical), then by group order."""
    if not devs:
        return 'other'
    loose = sorted(d for d in devs if d not in DEV2GROUP)
    if loose:
        return loose[0]
    return min(devs, key=DEV_PRIORITY.index)


def run_datagram(case, v):
    main = G['main']
    iface = G['ifaces']['main']
    OscFunc = G['OscFunc']
    valid, data, depth = build_datagram(case)
    labels = {'base:' + case['base'][0]}
    for mop in case['muts']:
        labels.add('mut:' + mop[0])
    # the reference decoder recurses per nesting level; give it room (this
    # does not apply to the sc3 call below)
    limit = sys.getrecursionlimit()
    sys.setrecursionlimit(max(limit, 8000))
    try:
        ref = osc_ref.decode_packet(data, allow_missing_tags=True)
        reason = None
    except osc_ref.OscDecodeError as e:
        ref = None
        reason = _slug(e)
    except (ValueError, OverflowError):
        # e.g. a 'c' argument above 0x10FFFF: not a character (older
        # versions of the reference decoder refuse it with a bare error)
        ref = None
        reason = 'bad_value'
    finally:
        sys.setrecursionlimit(limit)
    if depth > 16 and ref is not None:
        reason = 'deep'
    labels.add('wellformed' if ref is not None else 'malformed:' + reason)
    spy = []

    def spy_func(msg, time, addr, port):
        spy.append((msg, time, addr, port))
    hits = []
    resp = OscFunc(lambda msg, time, addr, port: hits.append(msg),
                   '/c18/ok')
    main.add_osc_recv_func(spy_func)
    cap = G['capture']
    e0 = len(cap.records)
    sender = ('127.0.0.1', 9000)
    try:
        budget = StepBudget(2000 + 100 * len(data))
        escaped = None
        with budget:
            try:
                iface._handle_request(data, sender)
            except _Budget:
                escaped = '_Budget'
            except BaseException as e:       # noqa: the clause under test
                escaped = type(e).__name__
        if budget.exceeded:
            neg = negative_size_reachable(data)
            v.fail('parse_step_budget_exceeded' +
                   (':negative_element_size' if neg else ''),
                   f'{len(data)}-byte datagram {data[:64].hex()}... used more '
                   f'than {budget.budget} line steps in the receiver '
                   f'(reference: {reason or "well-formed"})')
            labels.add('hang')
        elif escaped is not None:
            v.fail('receiver_raised:' + escaped,
                   f'datagram {data[:64].hex()} ({reason or "well-formed"})')
        settle()
        swallowed = [r for r in cap.records[e0:]]
        for r in swallowed:
            labels.add('sc3_refused:' + r[1])
        got = [m for m, _, _, _ in spy]
        if ref is None:
            if got:
                devs = rd.deviations(data)
                v.fail('malformed_dispatched:' + _top_deviation(devs),
                       f'datagram {data[:96].hex()} is not well-formed OSC '
                       f'1.0 ({sorted(devs) or reason}) but was dispatched '
                       f'as {got!r}')
        elif reason != 'deep' and not budget.exceeded:
            flat = osc_ref.flatten(ref)
            tags_ok = all(set(m.tags) <= SUPPORTED_TAGS for _, m in flat)
            clock_err = [r for r in swallowed if r[0] == 'clock']
            if tags_ok and not clock_err:
                exp = [[m.address] + list(m.args) for _, m in flat]
                times = {t for t, _ in flat}
                if len(got) != len(exp):
                    v.fail('wellformed_not_dispatched' if len(got) < len(exp)
                           else 'wellformed_dispatched_twice',
                           f'datagram {data[:96].hex()}: dispatched {got!r}, '
                           f'carries {exp!r}')
                elif len(times) <= 1:
                    v.check(osc_ref.same_value(got, exp),
                            'dispatched_content_differs',
                            lambda: f'datagram {data[:96].hex()}: dispatched '
                            f'{got!r}, carries {exp!r}')
                else:
                    rest = list(exp)
                    for g in got:
                        for k, e in enumerate(rest):
                            if osc_ref.same_value(g, e):
                                del rest[k]
                                break
                        else:
                            v.fail('dispatched_content_differs',
                                   f'datagram {data[:96].hex()}: dispatched '
                                   f'{got!r}, carries {exp!r}')
                            break
                labels.add('dispatch_checked')
        # the receiver still works
        del spy[:]
        nh = len(hits)
        serial = case.get('serial', 7)
        iface._handle_request(
            osc_ref.encode_message('/c18/ok', [serial, 'next']), sender)
        settle()
        exp = ['/c18/ok', serial, 'next']
        seen = [m for m, _, _, _ in spy]
        v.check(seen == [exp] and hits[nh:] == [exp],
                'next_datagram_not_dispatched',
                lambda: f'after datagram {data[:64].hex()}: spy saw '
                f'{seen!r}, responder saw {hits[nh:]!r}')
    finally:
        main.remove_osc_recv_func(spy_func)
        resp.free()
    prefix_kept = (valid is None or data != valid) and (
        data.startswith(osc_ref.BUNDLE_TAG) or data.startswith(b'/'))
    if data.startswith(osc_ref.BUNDLE_TAG):
        labels.add('bundle_prefix')
    return {'nontrivial': bool(prefix_kept), 'labels': sorted(labels)}


def datagram_strategy():
    aval = st.one_of(
        st.integers(-2 ** 31, 2 ** 31 - 1), st.sampled_from([0, 1, -1]),
        st.sampled_from([0.0, 0.5, -2.25, 1e10]),
        st.sampled_from(['', 'a', 'abc', 'abcd', 'hé', 'x' * 9]),
        st.binary(max_size=9).map(lambda b: {'blob': b.hex()}),
        st.booleans())
    args = st.recursive(st.lists(aval, max_size=4),
                        lambda inner: st.lists(st.one_of(aval, inner),
                                               max_size=4), max_leaves=8)
    addr = st.sampled_from(['/c18/ok', '/c18/ok', '/a', '/abc', '/c18/okay',
                            '/c18/o*', '/abcdefg'])
    tagopt = st.one_of(
        st.just({}), st.just({}), st.just({}),
        st.sampled_from(['[', ']', 'i[', '[i', 'i]', '[[i]', '[i]]', 'ii',
                         'is', 'b', 's', 'f', 'f', 'if', 'ff', 'sf', 'x', 'ihi',
                         'N', 'id', '][',
                         '[' * 40, '[' * 40 + ']' * 40]).map(
            lambda t: {'tags': t}))
    msg = st.tuples(st.just('msg'), addr, args, tagopt).map(list)
    tt = st.sampled_from([1, 0, 2 ** 63, 2 ** 64 - 1, 0xE0000000 << 32])
    packet = st.recursive(
        msg, lambda inner: st.tuples(
            st.just('bundle'), tt, st.lists(inner, max_size=3)).map(list),
        max_leaves=5)
    bundle = st.tuples(st.just('bundle'), tt,
                       st.lists(packet, min_size=1, max_size=3)).map(list)
    deep = st.tuples(st.just('deep'), st.sampled_from([20, 20, 100, 100, 300, 600, 1000]),
                     msg).map(list)
    raw = st.one_of(
        st.binary(max_size=48),
        st.binary(max_size=24).map(lambda b: b'#bundle\x00' + b),
        st.binary(max_size=24).map(lambda b: b'/a\x00\x00' + b),
    ).map(lambda b: ['raw', b.hex()])
    base = st.one_of(msg, bundle, bundle, bundle, packet, deep, raw)
    i32 = st.one_of(
        st.integers(-2 ** 31, 2 ** 31 - 1),
        st.integers(-16, -1).map(lambda k: 4 * k),
        st.sampled_from([-2 ** 31, 2 ** 31 - 1, -1, -4, -8, -12, -16, -20,
                         0, 1, 2, 3, 4, 8, 0x7ffffffc, 65536]))
    big = st.integers(0, 4095)
    badutf = st.sampled_from(['ff', 'fffe', 'c328', 'eda080', 'f8888080',
                              'c0af', '80'])
    mut = st.one_of(
        st.tuples(st.just('trunc'), big),
        st.tuples(st.just('flip'), big, st.integers(0, 7)),
        st.tuples(st.just('size'), st.integers(0, 15), i32),
        st.tuples(st.just('size'), st.integers(0, 15), i32),
        st.tuples(st.just('sizedelta'), st.integers(0, 15),
                  st.sampled_from([-8, -4, -1, 1, 2, 4, 8, 16])),
        st.tuples(st.just('bytes'), big, badutf),
        st.tuples(st.just('strbytes'), st.integers(0, 15), badutf),
        st.tuples(st.just('insert'), big,
                  st.binary(min_size=1, max_size=5).map(bytes.hex)),
        st.tuples(st.just('append'),
                  st.binary(min_size=1, max_size=8).map(bytes.hex)),
        st.tuples(st.just('chop'), st.integers(1, 8)),
        st.tuples(st.just('elemhead'), st.integers(0, 15),
                  st.sampled_from([0, 0x58, 0x2e, 0x23, 0x2f])),
    ).map(list)
    return st.fixed_dictionaries({
        'base': base,
        'muts': st.lists(mut, max_size=3),
        'serial': st.integers(0, 99)})


# --- stage: datagram_atheris (thorough tier only, optional) ------------------------------

ATHERIS_SEEDS = [
    ['msg', '/c18/ok', [1, 0.5, 'abc', {'blob': '00ff10'}]],
    ['msg', '/a', [[1, [2, 'x']], True, False]],
    ['bundle', 1, [['msg', '/c18/ok', [7]], ['msg', '/abc', ['s']]]],
    ['bundle', 1, [['bundle', 2 ** 63, [['msg', '/a', [1]]]],
                   ['msg', '/c18/ok', [{'blob': ''}]]]],
]


def atheris_cases(ctx):
    """Coverage-guided corpus built by vlib/resp_fuzz_worker.py in a child
    process (even shards: empty corpus, odd shards: seeded with valid
    packets); every corpus entry is then judged by the datagram executor
    through the real receiver.  Skipped in the quick tier and when atheris
    is not installed."""
    import importlib.util
    import os
    import shutil
    import subprocess
    import tempfile
    from vlib.core import SC3_PATH
    if ctx.tier != 'thorough':
        return
    if importlib.util.find_spec('atheris') is None:
        ctx.notes.append('atheris not installed: datagram_atheris skipped')
        return
    worker = os.path.join(os.path.dirname(os.path.dirname(
        os.path.abspath(__file__))), 'vlib', 'resp_fuzz_worker.py')
    d = tempfile.mkdtemp(prefix='c18_corpus_')
    try:
        if ctx.shard % 2:
            for k, spec in enumerate(ATHERIS_SEEDS):
                raw = _enc_packet(spec, 0, {'size': [], 'str': [],
                                            'tags': []})
                with open(os.path.join(d, f'seed{k}'), 'wb') as f:
                    f.write(raw)
        try:
            subprocess.run(
                [sys.executable, worker, SC3_PATH, d, '400000', '150',
                 str(ctx.seed * 100 + ctx.shard + 1)],
                stdout=subprocess.DEVNULL, stderr=subprocess.DEVNULL,
                timeout=900)
        except subprocess.TimeoutExpired:
            ctx.notes.append('atheris worker stopped after 900 s')
        for fn in sorted(os.listdir(d)):
            with open(os.path.join(d, fn), 'rb') as f:
                data = f.read()
            yield {'base': ['raw', data.hex()], 'muts': [], 'serial': 1}
    finally:
        shutil.rmtree(d, ignore_errors=True)


# --- known findings ---------------------------------------------------------------------

def _case_msgs(case):
    for op in case.get('ops', []):
        if op[0] == 'msg':
            for m in op[1]['msgs']:
                yield m


def _case_new(case):
    for op in case.get('ops', []):
        if op[0] == 'new':
            yield op[1]


def _has_op(case, name):
    return any(op[0] == name for op in case.get('ops', []))


def _known_keys():
    if 'known_keys' not in G:
        from vlib.core import load_known
        G['known_keys'] = set(load_known(PROPERTY))
    return G['known_keys']


def _either_matcher_key():
    """A wrong acceptance that the prefix defect or the slash-crossing
    defect alone explains (or that needs both): attributed to whichever of
    the two is still open."""
    for key in ('prefix_match_accepted', 'wildcard_crosses_slash'):
        if key in _known_keys():
            return key
    return 'prefix_match_accepted'


def classify_known(stage, case, viol):
    k = viol.kind
    if stage in ('match', 'match_enum'):
        if k == 'prefix_match_accepted':
            return 'prefix_match_accepted'
        if k in ('prefix_or_crossing', 'prefix_and_crossing'):
            return _either_matcher_key()
        if k == 'wildcard_crosses_slash':
            return 'wildcard_crosses_slash'
        if k == 'bracket_trailing_minus' and '-]' in case['pattern']:
            return 'bracket_trailing_minus'
        if k == 'malformed_pattern_raises' and stage == 'match' \
                and rm.match(case['pattern'], case['path']) is None:
            return 'malformed_pattern_raises'
        return None
    if stage == 'history':
        wild = any(rm.has_wildcard(m[0]) for m in _case_msgs(case))
        has_matching = any(s['kind'] == 'matching' for s in _case_new(case))
        if k == 'unexpected:path:prefix_match_accepted' and has_matching:
            return 'prefix_match_accepted'
        if k in ('unexpected:path:prefix_or_crossing',
                 'unexpected:path:prefix_and_crossing') and has_matching \
                and wild:
            return _either_matcher_key()
        if k == 'unexpected:path:wildcard_crosses_slash' and wild \
                and has_matching:
            return 'wildcard_crosses_slash'
        if k == 'missing:bracket_trailing_minus' and any(
                '-]' in m[0] for m in _case_msgs(case)):
            return 'bracket_trailing_minus'
        if k == 'dispatch_raised:re.error@osc_rematch_pattern' \
                and has_matching and any(
                    rm.match(m[0], '/x') is None for m in _case_msgs(case)):
            return 'malformed_pattern_raises'
        if k == 'dispatch_raised:IndexError@OscArgsMatcher.__call__':
            shortest = min((len(m[1]) for m in _case_msgs(case)), default=0)
            if any(s.get('tmpl') is not None and len(s['tmpl']) > shortest
                   for s in _case_new(case)):
                return 'arg_template_longer_than_message'
        if k == 'skipped_after_one_shot' and _has_op(case, 'one_shot'):
            return 'one_shot_skips_next_responder'
        if k == 'permanent_freed_by_cmdperiod' \
                and _has_op(case, 'cmdperiod') and _has_op(case, 'disable') \
                and any(op[0] == 'permanent' and op[2]
                        for op in case['ops']):
            return 'permanent_set_while_disabled'
        if k == 'order_across_dispatchers' and has_matching and any(
                s['kind'] == 'exact' for s in _case_new(case)):
            return 'recv_functions_unordered'
        return None
    if stage == 'registries':
        if case.get('family') != 'server':
            return None
        ops = case['ops']
        if k == 'removed_or_unknown_action_ran' \
                and any(op[0] == 'remove' for op in ops):
            return 'server_action_remove_noop'
        # an action that was "removed" and added again keeps its old place
        if k == 'action_order' and any(
                op[0] == 'remove' and any(
                    o2[0] == 'add' and o2[1:3] == op[1:3]
                    for o2 in ops[n + 1:])
                for n, op in enumerate(ops)):
            return 'server_action_remove_noop'
        return None
    if stage in ('datagram', 'datagram_atheris'):
        if k == 'parse_step_budget_exceeded:negative_element_size':
            return 'negative_element_size_loops'
        if k.startswith('malformed_dispatched:'):
            dev = k.split(':', 1)[1]
            known = _known_keys()
            data = build_datagram(case)[1]
            devs = rd.deviations(data)
            # optional OSC types sc3's reader does not implement are skipped
            # like unknown tags, which shifts or starves the later arguments
            skipped = bool(rd.tags_used(data) & set('hcSNI'))

            # sc3 reads such a message differently from a strict reader from
            # that point on (an optional type it does not implement is
            # skipped without its data; non-zero padding bytes are glued to
            # the text because get_string strips every NUL of the chunk), so
            # every later message-level deviation is a consequence
            shifted = skipped or 'nonzero_padding' in devs

            def grp(d):
                if shifted and d not in BUNDLE_LEVEL:
                    return 'nonconforming_message_accepted'
                return DEV2GROUP.get(d)
            if dev in devs and all(grp(d) in known for d in devs):
                return grp(dev)
            # a 'c' value that is no character: the walk sees nothing, the
            # reference refuses the value, sc3 skipped the tag (as above)
            if dev == 'other' and not devs and skipped:
                return 'nonconforming_message_accepted'
        return None
    return None


# --- stage: tcp --------------------------------------------------------------------------
# The same dispatch for messages arriving over a TCP connection opened with
# NetAddr.connect(): a local TCP peer (stands for a server talking OSC over
# TCP) sends size-framed reference-encoded messages and hangs up; every
# enabled responder whose path equals / is matched by the address fires once
# per message, in registration order, with the message.

def run_tcp(case, v):
    import socket
    import struct
    OscFunc, NetAddr = G['OscFunc'], G['NetAddr']
    peer = socket.socket(socket.AF_INET, socket.SOCK_STREAM)
    peer.setsockopt(socket.SOL_SOCKET, socket.SO_REUSEADDR, 1)
    peer.bind(('127.0.0.1', 0))
    peer.listen(1)
    peer.settimeout(20)
    log = []
    resps = []
    for i, r in enumerate(case['resps']):
        ctor = OscFunc if r['kind'] == 'exact' else OscFunc.matching
        resps.append(ctor((lambda k: (lambda msg, *_: log.append(
            (k, list(msg)))))(i), r['path']))
    addr = NetAddr('127.0.0.1', peer.getsockname()[1])
    connected = threading.Event()
    conn = None
    try:
        addr.connect(on_complete=lambda *_: connected.set(),
                     on_failure=lambda *_: connected.set())
        conn, _ = peer.accept()
        if not connected.wait(20) or not addr.is_connected:
            raise HarnessError('could not set up the TCP connection')
        for m in case['msgs']:
            dg = osc_ref.encode_message(m[0], m[1:])
            conn.sendall(struct.pack('>i', len(dg)) + dg)
        conn.close()
        conn = None
        t0 = time.time()
        while addr.is_connected and time.time() - t0 < 20:
            time.sleep(0.002)
        v.check(not addr.is_connected, 'tcp_end_of_stream_not_seen',
                'the connection is still reported open 20 s after the peer '
                'hung up')
        settle()
    finally:
        if conn is not None:
            conn.close()
        peer.close()
        try:
            addr.disconnect()
        except Exception:
            pass
        for r in resps:
            r.free()
    exp = []
    for m in case['msgs']:
        # exact responders are dispatched before matching ones (two
        # dispatchers); within a kind: registration order
        for kind in ('exact', 'matching'):
            for i, r in enumerate(case['resps']):
                if r['kind'] != kind:
                    continue
                hit = (r['path'] == m[0]) if kind == 'exact' else bool(
                    rm.match(m[0], r['path']))
                if hit:
                    exp.append((i, list(m)))
    same = sorted(map(repr, log)) == sorted(map(repr, exp))
    v.check(same, 'tcp_dispatch',
            lambda: f'responders invoked {log}, expected {exp} for '
                    f'{case["msgs"]} over TCP')
    if same:
        per = lambda xs, k: [x for x in xs if x[0] == k]
        for i in range(len(case['resps'])):
            v.check(per(log, i) == per(exp, i), 'tcp_order',
                    lambda: f'responder {i}: {per(log, i)} vs {per(exp, i)}')
    return {'nontrivial': len(exp) >= 2, 'labels': [
        f'tcp_msgs_{len(case["msgs"])}']}


def tcp_cases():
    paths = ['/t', '/t/a', '/u']
    pats = ['/t', '/t/*', '/?', '/{t,u}']
    resp = st.one_of(
        st.fixed_dictionaries({'kind': st.just('exact'),
                               'path': st.sampled_from(paths)}),
        st.fixed_dictionaries({'kind': st.just('matching'),
                               'path': st.sampled_from(paths)}))
    msg = st.tuples(st.sampled_from(paths + pats), st.lists(
        st.sampled_from([0, 1, 0.5, 'a']), max_size=2)).map(
        lambda t: [t[0]] + t[1])
    return st.fixed_dictionaries({
        'resps': st.lists(resp, min_size=1, max_size=4),
        'msgs': st.lists(msg, min_size=1, max_size=4)})


def stages(ctx):
    return [
        Stage('tcp', run_tcp, tcp_cases(), quick=20, thorough=150),
        Stage('match', run_match, rm.pair_strategy(), quick=2200,
              thorough=12000),
        Stage('match_enum', run_match_enum, cases=enum_cases,
              exhaustive=True),
        Stage('history', run_history, history_strategy(), quick=750,
              thorough=3000),
        Stage('registries', run_registry, registry_strategy(), quick=600,
              thorough=4000),
        Stage('datagram', run_datagram, datagram_strategy(), quick=2400,
              thorough=12000),
        Stage('datagram_atheris', run_datagram, cases=atheris_cases),
    ]
