"""C19 - Envelopes encode to the server format and evaluate consistently.

Oracles (vlib/env_ref.py, written from the SuperCollider Env/EnvGen help and
the sc3 docstrings): a reference encoder of the server array, a table of the
documented breakpoints of the standard constructors, the evaluation laws of the
statement, and - for EnvGen - the independent SCgf reader (vlib/scgf.py).
"""

import copy

from hypothesis import strategies as st

from vlib.core import Stage
from vlib import env_ref as R

PROPERTY = 'C19'
LEVEL = 'exploration'
MODE = 'nrt'
SHARDS = {'quick': 2, 'thorough': 16}
MANIFEST = {
    'technique': 'property-based testing against a reference encoder / '
                 'breakpoint table / evaluation laws, EnvGen inputs decoded '
                 'from definition bytes by an independent SCgf reader',
    'category': 'exploration',
    'text': 'Generated Env(levels, times, curves, release_node, loop_node, '
            'offset) (2-12 levels; times scalar, shorter, equal, longer; '
            'curves by every documented name spelling, numbers, mixed wrapped '
            'lists; list-valued levels/times for multichannel) are encoded '
            'and compared field by field with a reference encoder written '
            'from the EnvGen documentation; the eleven standard constructors '
            'are compared with breakpoints tabulated from their '
            'documentation (defaults included); Env._at is checked against '
            'the laws of the statement at breakpoints, inside segments and '
            'after the end (also with an offset, which moves every '
            'breakpoint); the encoding of an object is taken again after '
            'its other formats and evaluation were used; EnvGen.kr/ar inside a SynthDef is decoded from '
            'the definition bytes and its inputs compared with [gate, '
            'levelScale, levelBias, timeScale, doneAction] ++ the array.',
    'note': 'Trusted: the reference encoder and shape-number table '
            '(transcribed from the SuperCollider documentation), the SCgf '
            'reader. Where the sc3 docstring and the SuperCollider help '
            'disagree (Env.step release/loop numbering) or are silent (end '
            'level of an exponential Env.cutoff, evaluation before time 0) '
            'nothing is asserted.',
}
RULE = (
    'encode: Hypothesis composite specs: 1-11 segments; levels from ints, '
    'dyadics and decimals of both signs (about 10 % with list-valued entries '
    '= multichannel); times omitted / scalar / list shorter, equal or longer '
    'than the segment count; curves omitted / one of the 14 documented name '
    'spellings / number / mixed list of length 1..n+2; release and loop '
    'nodes omitted, None or 0..n; offset; positional or keyword call. '
    'Compared exactly (values are passed through) with the reference array. '
    'Non-trivial = at least 3 segments, at least 2 different shape numbers, '
    'and a times or curves list shorter than the segment count (wrapping '
    'happens). ctors: each of adsr, asr, dadsr, perc, linen, triangle, sine, '
    'cutoff, step, pairs, xyc with any subset of its parameters given '
    '(others at documented defaults), compared (1e-12 relative) with the '
    'tabulated breakpoints; non-trivial = at least one parameter differs '
    'from its default (pairs/xyc: points given out of order or >= 3 points). '
    'at: single-channel envelopes with dyadic durations (so breakpoint times '
    'are exact), levels respecting the documented preconditions of '
    'exp/sqr/cub; probes at every breakpoint, inside segments, after the end '
    'and before 0; tolerance 1e-9*(1+max|level|), 1e-5*(1+max|level|) where '
    'a cubed segment is evaluated (its cube root uses the exponent 0.3333333 '
    'as in SuperCollider); non-trivial = >= 3 segments, >= 2 shapes, >= 1 '
    'interior probe. envgen: an encode spec or a constructor inside '
    'SynthDef(EnvGen.kr/ar(...)), gate a number or a control, the other '
    'arguments numbers or omitted; decoded inputs compared as f32; '
    'non-trivial = >= 2 segments and at least one EnvGen argument given. '
    'Distinct by sha1 of the canonical case JSON.'
    ' at-cases may carry an offset; encodings are taken again after _interpolation_format/_at were used on the object.')
ASSUMPTIONS = [
    'Encoding does not validate levels against shape preconditions; '
    'evaluation is only checked where the documented preconditions hold '
    '(exp: non-zero levels of one sign; sqr/cub: non-negative levels).',
    'Evaluation laws are checked for t >= 0 only; for t < 0 only "returns a '
    'finite number" is checked (the statement is silent). An offset ("an '
    'offset to all time values") moves every breakpoint; before the first '
    'breakpoint the envelope is at its initial level.',
    'At the instant a step segment starts either neighbouring level is '
    'accepted; with zero-length segments any of the coincident breakpoint '
    'levels is accepted.',
    'Env.step: release/loop arguments are only checked when omitted (-99): '
    'the sc3 docstring (index of a level) and the SuperCollider help (node, '
    'passed through) disagree on their numbering.',
    'Env.cutoff with an exponential curve: the end level is only required to '
    'be non-zero (neither documentation names the value).',
    'Env.pairs with a list of curves is only generated with points already '
    'in time order (whether the list follows the points before or after '
    'sorting is not documented). Env.xyc: the curve of a point shapes the '
    'segment starting there (SuperCollider behaviour; last curve unused).',
    'List-valued (multichannel) constructor parameters, UGen-valued levels, '
    'Env.cyclic/circle, IEnvGen format and Env as a synth argument are not '
    'part of the statement and not generated.',
]


def setup(ctx):
    global Env, EnvGen, Out, SynthDef, scgf, G
    from sc3.synth.envelope import Env
    from sc3.synth.ugens.envgen import EnvGen
    from sc3.synth.ugens.inout import Out
    from sc3.synth.synthdef import SynthDef
    from vlib import scgf
    from vlib import graph as G


# --- building ------------------------------------------------------------------

from vlib.envbuild import (ENV_KEYS, ENV_KW, STEP_KEYS, STEP_KW,  # noqa
                           call_args, build_env, build_ctor)


def expected_env(spec):
    if 'ctor' in spec:
        return expected_ctor(spec)
    return R.encode(spec.get('levels', [0, 1, 0]), spec.get('times', [1, 1]),
                    spec.get('curves', 'lin'), spec.get('rel'),
                    spec.get('loop'))


def expected_ctor(case):
    name = case['ctor']
    if name == 'step':
        return R.step_expected(case.get('levels'), case.get('times'),
                               'rel' in case, 'loop' in case)
    if name == 'pairs':
        cv = case.get('curves', 'lin')
        pts = [[x, y, cv[i] if isinstance(cv, list) else cv]
               for i, (x, y) in enumerate(case['pairs'])]
        return R.xyc_expected(pts)
    if name == 'xyc':
        return R.xyc_expected(case['xyc'])
    return R.ctor_expected(name, case['args'])


# --- comparison ------------------------------------------------------------------

def same(a, b, tol):
    if not (R.finite_number(a) and R.finite_number(b)):
        return False
    if a == b:
        return True
    return tol > 0 and abs(a - b) <= tol * max(1.0, abs(a), abs(b))


def compare_arrays(got, exp, v, tol, what):
    """got: the library's list of per-channel tuples; exp: reference arrays
    (WILD entries are not asserted). Kinds name the field of the format."""
    if not isinstance(got, (list, tuple)) or not all(
            isinstance(ch, (list, tuple)) for ch in got):
        v.fail('array_type', f'{what}: {got!r}')
        return
    if len(got) != len(exp):
        v.fail('channel_count',
               f'{what}: {len(got)} channels {got!r}, expected {exp!r}')
        return
    for c, (g, e) in enumerate(zip(got, exp)):
        if len(g) != len(e):
            v.fail('array_length',
                   f'{what} channel {c}: {list(g)!r} expected {e!r}')
            continue
        for i, (x, y) in enumerate(zip(g, e)):
            if y is R.WILD:
                continue
            if not same(x, y, tol):
                v.fail(R.field_name(i),
                       f'{what} channel {c} position {i}: got {x!r} expected '
                       f'{y!r}; array {list(g)!r} expected {e!r}')
                break


def spec_shapes(spec):
    cv = spec.get('curves', 'lin')
    n = len(spec.get('levels', [0, 1, 0])) - 1
    cl = R.as_list(cv)
    return [R.shape_of(cl[i % len(cl)])[0] for i in range(n)]


def names_in(x):
    if isinstance(x, str):
        return [x]
    if isinstance(x, list):
        return [n for y in x for n in names_in(y)]
    if isinstance(x, dict):
        return [n for y in x.values() for n in names_in(y)]
    return []


def spec_labels(spec):
    lb = []
    if 'levels' not in spec:
        lb.append('levels:default')
    n = len(spec.get('levels', [0, 1, 0])) - 1
    t = spec.get('times', 'default')
    if t == 'default':
        lb.append('times:default')
    elif not isinstance(t, list):
        lb.append('times:scalar')
    else:
        lb.append('times:short' if len(t) < n else
                  'times:equal' if len(t) == n else 'times:long')
    c = spec.get('curves', 'default')
    if c == 'default':
        lb.append('curves:default')
    elif isinstance(c, str):
        lb.append('curves:name')
    elif not isinstance(c, list):
        lb.append('curves:number')
    else:
        kinds = {isinstance(x, str) for x in c}
        lb.append('curves:list_' + ('mixed' if len(kinds) == 2 else
                                    'names' if True in kinds else 'numbers'))
        lb.append('curves:short' if len(c) < n else
                  'curves:equal' if len(c) == n else 'curves:long')
    for nm in set(names_in(spec.get('curves', []))):
        lb.append('name:' + nm)
    if any(isinstance(x, list) for x in spec.get('levels', [])) or (
            isinstance(t, list) and any(isinstance(x, list) for x in t)):
        lb.append('multichannel')
    if spec.get('rel') is not None:
        lb.append('release_node')
    if spec.get('loop') is not None:
        lb.append('loop_node')
    return lb


def wraps(spec):
    n = len(spec.get('levels', [0, 1, 0])) - 1
    t = spec.get('times', [1, 1])
    c = spec.get('curves', 'lin')
    return (isinstance(t, list) and len(t) < n) or (
        isinstance(c, list) and len(c) < n)


# --- stage: encode -----------------------------------------------------------------

def run_encode(case, v):
    exp = expected_env(case)
    env = build_env(case)
    got = env._envgen_format()
    compare_arrays(got, exp, v, 0, 'Env' + repr(
        {k: case[k] for k in ENV_KEYS if k in case}))
    if not v.items:
        # the encoding of an envelope object does not depend on what the
        # object was used for before (its other formats, evaluation)
        try:
            env._interpolation_format()
            env._at(0.25)
        except Exception:
            pass        # those uses are judged elsewhere / not at all
        n0 = len(v.items)
        compare_arrays(env._envgen_format(), exp, v, 0,
                       'after other uses of the object: Env' + repr(
                           {k: case[k] for k in ENV_KEYS if k in case}))
        for it in v.items[n0:]:
            it.kind = 'encoding_changes_after_use:' + it.kind
    n = len(exp[0]) // 4 - 1
    return {'nontrivial': n >= 3 and len(set(spec_shapes(case))) >= 2
            and wraps(case),
            'labels': spec_labels(case)}


# --- stage: ctors --------------------------------------------------------------------

def ctor_nontrivial(case):
    name = case['ctor']
    if name == 'step':
        return 'levels' in case
    if name in ('pairs', 'xyc'):
        pts = case[name]
        xs = [p[0] for p in pts]
        return xs != sorted(xs) or len(pts) >= 3
    defaults = dict(R.CTORS[name][0])
    return any(defaults[k] != val for k, val in case['args'].items())


def run_ctors(case, v):
    name = case['ctor']
    exp = expected_ctor(case)
    env = build_ctor(case)
    got = env._envgen_format()
    compare_arrays(got, exp, v, 1e-12, f'Env.{name} {case!r}')
    labels = ['ctor:' + name]
    if name == 'cutoff' and exp[0][4] is R.WILD and not v.items:
        # exponential fade-out: cannot end at zero (documented precondition)
        end = got[0][4]
        ok = R.finite_number(end) and end != 0
        v.check(ok, 'cutoff_exponential_end',
                f'Env.cutoff {case!r}: array {list(got[0])!r}')
        labels.append('cutoff:exponential')
    if name in ('pairs', 'xyc'):
        xs = [q[0] for q in case[name]]
        if len(set(xs)) < len(xs):
            labels.append('equal_times')
    if name not in ('step', 'pairs', 'xyc'):
        if not case['args']:
            labels.append('all_defaults')
        for nm in set(names_in(case['args'])):
            labels.append('name:' + nm)
    return {'nontrivial': ctor_nontrivial(case), 'labels': labels}


# --- stage: at -----------------------------------------------------------------------

def run_at(case, v):
    spec = case['env']
    levels, times, curves = spec['levels'], spec['times'], spec['curves']
    env = build_env(spec)
    n = len(levels) - 1
    tl = R.as_list(times)
    durs = [tl[i % len(tl)] for i in range(n)]
    T = R.breakpoints(durs)
    shp = spec_shapes(spec)
    scale = 1.0 + max(abs(x) for x in levels)
    clauses = set()
    for t in case['probes']:
        val = env._at(t)
        if not R.finite_number(val):
            v.fail('at_value_type', f'{spec!r} _at({t!r}) = {val!r}')
            break
        if t < 0:
            clauses.add('before')
            continue
        off = spec.get('offset', 0)
        if t < off:
            # the first breakpoint (offset, initial level) has not come yet
            # (what the laws allow at the first breakpoint itself: the
            # initial level, or the target of a first 'step' segment)
            t = 0
            clause, allowed = R.at_law(levels, times, curves, 0)
            clause = 'before_offset'
        else:
            t = t - off
            clause, allowed = R.at_law(levels, times, curves, t)
        clauses.add(clause)
        cub = any(shp[k] == 7 for k in range(n) if T[k] <= t <= T[k + 1])
        tol = (1e-5 if cub else 1e-9) * scale
        if allowed[0] == 'one_of':
            ok = any(abs(val - x) <= tol for x in allowed[1])
        else:
            ok = allowed[1] - tol <= val <= allowed[2] + tol
        if not ok:
            v.fail('at_' + clause,
                   f'{spec!r}: _at({t!r}) = {val!r}, allowed {allowed!r} '
                   f'(breakpoint times {T!r})')
            break
    labels = ['clause:' + c for c in sorted(clauses)]
    labels += ['shape:%d' % s for s in sorted(set(shp))]
    if 0 in durs:
        labels.append('zero_length_segment')
    if wraps(spec):
        labels.append('wrapped')
    return {'nontrivial': n >= 3 and len(set(shp)) >= 2 and bool(
        clauses & {'inside', 'step', 'hold'}), 'labels': labels}


# --- stage: envgen ---------------------------------------------------------------------

EG_KEYS = ['gate', 'level_scale', 'level_bias', 'time_scale', 'done_action']
EG_DEFAULT = {'gate': 1.0, 'level_scale': 1.0, 'level_bias': 0.0,
              'time_scale': 1.0, 'done_action': 0}


def run_envgen(case, v):
    envspec = case['env']
    exp = expected_env(envspec)
    rate = case['rate']
    eg = dict(case['args'])
    gate_ctl = case.get('gate_ctl', False)
    box = {}

    def body(gate):
        env = build_env(envspec)
        spec = dict(eg)
        if gate is not None:
            spec['gate'] = gate
        # `gate` may be a control (not deep-copyable): plain dict access
        args, kw = [], {}
        prefix = case.get('pos', False)
        for k in EG_KEYS:
            if k in spec:
                if prefix:
                    args.append(spec[k])
                else:
                    kw[k] = spec[k]
            else:
                prefix = False
        sig = getattr(EnvGen, rate)(env, *args, **kw)
        getattr(Out, rate)(0, sig)

    if gate_ctl:
        dflt = eg.get('gate', 1.0)
        ns = {'body': body}
        exec(f'def graph(gate={dflt!r}):\n    body(gate)\n', ns)
        graph = ns['graph']
    else:
        def graph():
            body(None)
    sd = SynthDef('c19', graph)
    data = G.def_bytes(sd)
    try:
        defs = scgf.parse(data)
    except scgf.FormatError as e:
        v.fail('bytes_unparseable', str(e))
        return {'nontrivial': False, 'labels': []}
    d = defs[0]
    units = d['units']
    egs = [u for u in units if u['name'] == 'EnvGen']
    if len(egs) != len(exp):
        v.fail('envgen_unit_count',
               f'{case!r}: {len(egs)} EnvGen units, expected {len(exp)}')
        return {'nontrivial': False, 'labels': []}
    ratenum = {'kr': 1, 'ar': 2}[rate]

    def wire(pair):
        a, b = pair
        if a == -1:
            return d['constants'][b]
        return (units[a]['name'], units[a]['special'] + b)

    for c, (u, arr) in enumerate(zip(egs, exp)):
        if u['rate'] != ratenum or u['outputs'] != [ratenum]:
            v.fail('envgen_rate', f'{case!r}: unit {u!r}')
        ins = [wire(p) for p in u['inputs']]
        if len(ins) != 5 + len(arr):
            v.fail('envgen_input_count',
                   f'{case!r} channel {c}: {len(ins)} inputs {ins!r}, '
                   f'expected 5 + {arr!r}')
            continue
        head = []
        for k in EG_KEYS:
            head.append(G.f32(float(eg.get(k, EG_DEFAULT[k]))))
        if gate_ctl:
            head[0] = ('Control', 0)
        for k, x, y in zip(EG_KEYS, ins[:5], head):
            if x != y:
                v.fail('envgen_' + k,
                       f'{case!r} channel {c}: inputs {ins!r}: {k} is {x!r}, '
                       f'expected {y!r}')
        for i, (x, y) in enumerate(zip(ins[5:], arr)):
            if y is R.WILD:
                continue
            if x != G.f32(float(y)):
                v.fail('envgen_' + R.field_name(i),
                       f'{case!r} channel {c}: array inputs {ins[5:]!r} '
                       f'expected {arr!r} (position {i})')
                break
    labels = ['rate:' + rate, 'channels:%d' % len(exp)]
    labels.append('env:' + envspec.get('ctor', 'new'))
    if gate_ctl:
        labels.append('gate:control')
    nseg = len(exp[0]) // 4 - 1
    return {'nontrivial': nseg >= 2 and bool(eg or gate_ctl),
            'labels': labels}


# --- strategies ------------------------------------------------------------------------

dyadic = st.integers(-64, 64).map(lambda k: k / 8)
decimal = st.sampled_from([0.1, 0.3, -0.7, 2.1, 0.001, 100, 0.01, -12.5, 440,
                           0.75, 1e-05, -0.2, 0.8, 1.4])
level = st.one_of(st.integers(-3, 3), st.sampled_from([0, 1, 1.0, 0.0, 0.5]),
                  dyadic, decimal)
pos_time = st.one_of(
    st.sampled_from([0.01, 0.1, 0.5, 1, 1.0, 2, 0.3, 0.02, 0.18, 10]),
    st.integers(1, 256).map(lambda k: k / 32))
time_ = st.one_of(pos_time, pos_time, pos_time, st.sampled_from([0, 0.0]))
# 'sqr' is drawn less often while the known finding sqr_name_missing masks
# every case that spells it
curve_name = st.one_of(
    st.sampled_from([n for n in R.NAMES if n != 'sqr']),
    st.sampled_from([n for n in R.NAMES if n != 'sqr']),
    st.sampled_from(R.NAMES))
curve_num = st.one_of(
    st.integers(-8, 8),
    st.sampled_from([-4.0, 4.0, 0.0, 2.5, -0.5, 1e-05, 0.3, -4, 10.0]))
curve_item = st.one_of(curve_name, curve_name, curve_num)
seg_count = st.one_of(st.integers(1, 11), st.integers(3, 6))


@st.composite
def env_spec(draw, multichannel=True, plain=False):
    """plain: always levels+times+curves present (used by the at stage's
    sibling strategy and envgen)."""
    n = draw(seg_count)
    spec = {}
    levels = draw(st.lists(level, min_size=n + 1, max_size=n + 1))
    tkind = draw(st.sampled_from(
        ['default', 'scalar', 'short', 'short', 'equal', 'long', 'short']))
    if tkind == 'short' and n < 2:
        tkind = 'equal'
    if tkind == 'scalar':
        # a scalar zero (all segments immediate) is rare but legal
        spec['times'] = draw(st.one_of(pos_time, pos_time, time_))
    elif tkind != 'default':
        size = {'short': draw(st.integers(1, max(1, n - 1))), 'equal': n,
                'long': n + draw(st.integers(1, 3))}[tkind]
        spec['times'] = draw(st.lists(time_, min_size=size, max_size=size))
    ckind = draw(st.sampled_from(
        ['default', 'name', 'number', 'list', 'list', 'list', 'list']))
    if ckind == 'name':
        spec['curves'] = draw(curve_name)
    elif ckind == 'number':
        spec['curves'] = draw(curve_num)
    elif ckind == 'list':
        size = draw(st.one_of(st.integers(min(2, n), max(2, n - 1)),
                              st.integers(1, n + 2)))
        spec['curves'] = draw(st.lists(curve_item, min_size=size,
                                       max_size=size))
    if multichannel and draw(st.integers(0, 9)) == 0:
        chan = st.lists(level, min_size=2, max_size=3)
        for _ in range(draw(st.integers(1, 2))):
            levels[draw(st.integers(0, n))] = draw(chan)
        if isinstance(spec.get('times'), list) and draw(st.booleans()):
            spec['times'][draw(st.integers(0, len(spec['times']) - 1))] = \
                draw(st.lists(pos_time, min_size=2, max_size=3))
    spec['levels'] = levels
    node = st.one_of(st.none(), st.integers(0, n))
    for key in ('rel', 'loop'):
        if draw(st.integers(0, 2)) > 0:
            spec[key] = draw(node)
    if draw(st.integers(0, 3)) == 0:
        spec['offset'] = draw(st.one_of(dyadic, st.sampled_from([0, 0.5, 1])))
    if draw(st.integers(0, 40)) == 0 and 'times' not in spec \
            and 'curves' not in spec:
        del spec['levels']     # Env(): documented default [0, 1, 0]
        spec.pop('rel', None)
        spec.pop('loop', None)
    spec['pos'] = draw(st.booleans())
    return spec


# constructors

ctor_time = st.one_of(pos_time, st.sampled_from([0, 0.0, 0.01, 0.3, 1.0]))
ctor_curve = st.one_of(
    curve_name, curve_num, curve_num,
    st.lists(curve_item, min_size=1, max_size=3))
PARAM_STRATEGY = {
    'dur': pos_time, 'level': level, 'attack_time': ctor_time,
    'release_time': ctor_time, 'sustain_time': ctor_time,
    'decay_time': ctor_time, 'delay_time': ctor_time,
    'sustain_level': level, 'peak_level': level, 'bias': level,
    'curve': ctor_curve,
}


@st.composite
def ctor_case(draw, names=None):
    name = draw(st.sampled_from(names or (
        sorted(R.CTORS) + ['step', 'pairs', 'xyc', 'step', 'pairs', 'xyc'])))
    case = {'ctor': name}
    if name == 'step':
        if draw(st.integers(0, 5)) > 0:
            n = draw(st.integers(1, 8))
            case['levels'] = draw(st.lists(level, min_size=n, max_size=n))
            case['times'] = draw(st.lists(time_, min_size=n, max_size=n))
            m = n
        else:
            m = 2
        if draw(st.booleans()):
            case['rel'] = draw(st.integers(1, m))
        if draw(st.integers(0, 2)) == 0:
            case['loop'] = draw(st.integers(0, m))
        if draw(st.integers(0, 3)) == 0:
            case['offset'] = draw(dyadic)
        case['pos'] = draw(st.booleans())
        return case
    if name in ('pairs', 'xyc'):
        n = draw(st.integers(2, 8))
        xs = draw(st.lists(st.one_of(st.integers(-8, 64).map(lambda k: k / 8),
                                     st.sampled_from([0.1, 2.1, 3, 0.3, 7])),
                           min_size=n, max_size=n, unique=True))
        ys = draw(st.lists(level, min_size=n, max_size=n))

        def jumps(xs):
            # points given in time order may repeat a time (instantaneous
            # jump): they must stay in the given order
            xs = sorted(xs)
            for i in draw(st.lists(st.integers(0, n - 2), max_size=2)):
                xs[i + 1] = xs[i]
            return sorted(xs)
        if name == 'xyc':
            cs = draw(st.lists(curve_item, min_size=n, max_size=n))
            if draw(st.booleans()):
                xs = jumps(xs)
            case['xyc'] = [[x, y, c] for x, y, c in zip(xs, ys, cs)]
            return case
        ckind = draw(st.sampled_from(['none', 'scalar', 'list']))
        if ckind == 'list':
            xs = jumps(xs)
            case['curves'] = draw(st.lists(curve_item, min_size=n,
                                           max_size=n))
        else:
            if draw(st.booleans()):
                xs = jumps(xs)
            if ckind == 'scalar':
                case['curves'] = draw(st.one_of(curve_name, curve_num))
        case['pairs'] = [[x, y] for x, y in zip(xs, ys)]
        return case
    params = [k for k, _ in R.CTORS[name][0]]
    args = {}
    mode = draw(st.sampled_from(['none', 'some', 'some', 'all']))
    for k in params:
        if mode == 'all' or (mode == 'some' and draw(st.booleans())):
            if name == 'cutoff' and k == 'curve':
                # documented as a single shape (str), numbers work alike
                args[k] = draw(st.one_of(curve_name, curve_name, curve_num))
            else:
                args[k] = draw(PARAM_STRATEGY[k])
    case['args'] = args
    case['pos'] = draw(st.booleans())
    return case


# evaluation

dy_dur = st.one_of(st.integers(1, 64).map(lambda k: k / 32),
                   st.sampled_from([0.5, 1, 1.0, 2, 0.25, 4, 0.03125]),
                   st.integers(0, 6).map(lambda k: k / 2))
at_pos = st.one_of(st.integers(1, 64).map(lambda k: k / 8),
                   st.sampled_from([0.001, 0.1, 0.3, 100, 440, 1, 2, 0.5]))
at_any = st.one_of(level, at_pos)
at_curv = st.one_of(st.integers(-12, 12),
                    st.sampled_from([-4.0, 4.0, 0.0, 1e-05, 0.5, -2.5, 3e-05]))
NAMES_OF_SHAPE = {}
for _nm, _k in R.SHAPES.items():
    NAMES_OF_SHAPE.setdefault(_k, []).append(_nm)


@st.composite
def at_case(draw):
    n = draw(seg_count)
    regime = draw(st.sampled_from(['pos', 'pos', 'nonneg', 'any', 'neg']))
    if regime == 'pos':
        lv = at_pos
    elif regime == 'neg':
        lv = at_pos.map(lambda x: -x)
    elif regime == 'nonneg':
        lv = st.one_of(at_pos, at_pos, st.sampled_from([0, 0.0]))
    else:
        lv = at_any
    levels = draw(st.lists(lv, min_size=n + 1, max_size=n + 1))
    tkind = draw(st.sampled_from(['scalar', 'short', 'equal', 'equal',
                                  'long']))
    if tkind == 'short' and n < 2:
        tkind = 'equal'
    if tkind == 'scalar':
        times = draw(dy_dur.filter(lambda x: x > 0))
    else:
        size = {'short': draw(st.integers(1, max(1, n - 1))), 'equal': n,
                'long': n + 1}[tkind]
        times = draw(st.lists(dy_dur, min_size=size, max_size=size))
    # curves: per list slot, only shapes whose documented precondition holds
    # on every segment the slot is wrapped onto
    m = draw(st.one_of(st.just(0), st.integers(1, n + 1),
                       st.integers(1, max(1, n - 1))))
    slots = max(m, 1)
    items = []
    for j in range(slots):
        segs = [i for i in range(n) if i % slots == j]
        ok = [k for k in (0, 1, 2, 3, 4, 6, 7, 8) if all(
            R.shape_precondition_ok(k, levels[i], levels[i + 1])
            for i in segs)]
        pick = draw(st.sampled_from(ok + [5, 5]))
        if pick == 5:
            items.append(draw(at_curv))
        else:
            items.append(draw(st.sampled_from(NAMES_OF_SHAPE[pick])))
    curves = items if m else items[0]
    spec = {'levels': levels, 'times': times, 'curves': curves,
            'pos': draw(st.booleans())}
    tl = R.as_list(times)
    durs = [tl[i % len(tl)] for i in range(n)]
    T = R.breakpoints(durs)
    probes = list(T)
    frac = st.integers(1, 15).map(lambda k: k / 16)
    for k in range(n):
        if durs[k] > 0:
            for _ in range(draw(st.integers(0, 2))):
                probes.append(T[k] + draw(frac) * durs[k])
    probes.append(T[n] + draw(st.sampled_from([0.03125, 0.5, 1, 100])))
    if draw(st.booleans()):
        probes.append(-draw(st.sampled_from([0.03125, 0.5, 1, 100])))
    # arbitrary dyadic times, wherever they fall
    probes += [k / 16 for k in draw(st.lists(st.integers(0, 256),
                                             max_size=3))]
    if draw(st.integers(0, 3)) == 0:
        # an offset moves every breakpoint (Env.pairs / xyc give one when
        # the first point is not at time 0): probes move along, and some
        # fall before the first breakpoint
        off = draw(st.sampled_from([0.25, 0.5, 1, 2.0, 3.5]))
        spec['offset'] = off
        probes = [t + off if t >= 0 else t for t in probes]
        probes += [off * k / 4 for k in range(4)]
    return {'env': spec, 'probes': probes}


# EnvGen

eg_num = st.one_of(st.sampled_from([0, 1, 1.0, 0.0, 0.5, 2, -1, 0.1, 10]),
                   dyadic)
EG_STRATEGY = {
    'gate': st.sampled_from([1, 1.0, 0, 0.5, -1.5]),
    'level_scale': eg_num, 'level_bias': eg_num,
    'time_scale': st.sampled_from([1, 1.0, 0.5, 2, 0.1, 10]),
    'done_action': st.integers(0, 15),
}


@st.composite
def envgen_case(draw):
    if draw(st.integers(0, 3)) == 0:
        env = draw(ctor_case())
    else:
        env = draw(env_spec())
    args = {}
    mode = draw(st.sampled_from(['none', 'some', 'some', 'all']))
    for k in EG_KEYS:
        if mode == 'all' or (mode == 'some' and draw(st.booleans())):
            args[k] = draw(EG_STRATEGY[k])
    return {'env': env, 'rate': draw(st.sampled_from(['kr', 'ar'])),
            'args': args, 'gate_ctl': draw(st.integers(0, 3)) == 0,
            'pos': draw(st.booleans())}


# --- known findings ------------------------------------------------------------------------

def classify_known(stage_name, case, viol):
    env = case.get('env', case) if stage_name in ('envgen', 'at') else case
    if viol.kind == 'sc3_raised:ValueError@synth/envelope.py:_shape_number' \
            and "'sqr'" in viol.detail and 'sqr' in names_in(env):
        return 'sqr_name_missing'
    if viol.kind == 'sc3_raised:TypeError@synth/envelope.py:step' \
            and env.get('ctor') == 'step' and 'rel' not in env:
        return 'step_default_release'
    if viol.kind in ('segment_time', 'envgen_segment_time') \
            and 'ctor' not in env and 'times' in env \
            and not isinstance(env['times'], list) and env['times'] == 0:
        return 'scalar_zero_times'
    return None


def stages(ctx):
    return [
        Stage('encode', run_encode, env_spec(), quick=2500, thorough=20000),
        Stage('ctors', run_ctors, ctor_case(), quick=1500, thorough=10000),
        Stage('at', run_at, at_case(), quick=1200, thorough=10000),
        Stage('envgen', run_envgen, envgen_case(), quick=500, thorough=4000),
    ]
