"""C09 - Time-ordered collections are stable priority queues under any history.

Oracle: reference model = list of (prio, seq, task); see DESIGN.md C09.
"""

import itertools
import json

from hypothesis import strategies as st

from vlib.core import Stage, Reject

PROPERTY = 'C09'
LEVEL = 'exploration'
MODE = 'nrt'
SHARDS = {'quick': 2, 'thorough': 16}
RULE = (
    'history stage: Hypothesis lists (<=50) of ops add/re-add/remove/pop/'
    'peek(smallest|largest)/empty/clear/iterate over 4 tasks and a 6-value '
    'priority pool with ties (ints and floats mixed), each op compared with a '
    'list-of-(prio,seq,task) reference model after every step. enum stage: '
    'every history of mutators (add 3 tasks x 2 prios, remove x3, pop, clear) '
    'up to the stated depth with all observers run after every step. score '
    'stage: OscScore (NRT) fed bundles at generated tie-heavy times, checked '
    'for time order + send order among ties + tail marker. exitq stage: '
    'private queue drained like Process._shutdown. nrt_reset stage: '
    'generated programs (C05 generator with tempo changes) preceded by '
    'statements that leave tasks pending on the same clocks and a '
    'main.reset(): nothing pending at the reset may run, the program runs as '
    'the reference model says. Non-trivial = history has '
    'a remove of a present task or a re-add, after which (all observers run '
    'after every step) at least two live entries tie in priority (score: >=2 '
    'equal times; exitq: tie and a removal). Distinct '
    'by sha1 of the canonical case JSON.'
    " nrt_reset stage: C05 programs with tempo changes preceded by abandoned statements and main.reset(). exitq runs the library's own shutdown over a queue filled by the case, with actions registering/removing actions while it runs.")
RULE += ' ' + (
    'History tasks are strings, four Function wrappers of one plain function (what clock.sched(delta, f) queues) or routines, chosen by a hash of the history.')
ASSUMPTIONS = [
    'TaskQueue is documented as not thread safe; histories are sequential.',
    'Ppar tie order is exercised in C14, score order additionally in C07.',
]
EXHAUSTIVE_SCOPE = ('all mutator histories (11 letters) of depth<=D over 3 '
                    'tasks x 2 priorities, observers after each step; '
                    'D=4 quick, D=7 thorough')

MANIFEST = {
    'technique': 'model-based property testing (Hypothesis op histories vs '
                 'reference list model) + bounded-exhaustive enumeration',
    'category': 'exploration',
    'text': 'Every generated history of add/re-add/remove/pop/peek/empty/'
            'clear/iterate is replayed against TaskQueue and a reference '
            'model with full observation after each step; all mutator '
            'histories up to depth 4 (quick) / 7 (thorough) over 3 tasks x 2 '
            'priorities are enumerated exhaustively; OscScore and an '
            'exit-action queue are checked as consumers; the non-real-time '
            'scheduler is checked as a collection of its own: tasks pending '
            'at main.reset() never run, also not after tempo changes re-key '
            'their clock.',
    'note': 'Trusted: the reference model (sorted list by (prio, seq)); '
            'sequential use only (TaskQueue is documented not thread safe).',
}

PRIOS = [0, 1, 1.0, 2, 2.5, -1]
TASKS = ['a', 'b', 'c', 'd']


def setup(ctx):
    global TaskQueue, OscScore, main
    from sc3.base._taskq import TaskQueue
    from sc3.base._oscinterface import OscScore
    from sc3.base.main import main


# --- reference model ---------------------------------------------------------

class Model:
    def __init__(self):
        self.items = []  # (prio, seq, task)
        self.seq = 0

    def add(self, p, t):
        self.items = [x for x in self.items if x[2] != t]
        self.items.append((p, self.seq, t))
        self.seq += 1

    def remove(self, t):
        self.items = [x for x in self.items if x[2] != t]

    def sorted(self):
        return sorted(self.items, key=lambda x: (x[0], x[1]))

    def pop(self):
        if not self.items:
            return KeyError
        s = self.sorted()[0]
        self.items.remove(s)
        return (s[0], s[2])

    def peek(self, smallest):
        if not self.items:
            return KeyError
        s = self.sorted()[0 if smallest else -1]
        return (s[0], s[2])


def same(a, b):
    """(prio, task) equality: prio compared by value (1 == 1.0 is a tie)."""
    return a == b


def observe(q, m, v, where):
    exp_empty = not m.items
    got = q.empty()
    v.check(got is exp_empty or got == exp_empty, 'empty_disagrees',
            lambda: f'{where}: empty()={got!r} model={exp_empty}')
    for smallest in (True, False):
        exp = m.peek(smallest)
        try:
            got = q.peek(smallest)
        except KeyError:
            got = KeyError
        v.check(same(got, exp), 'peek_disagrees',
                lambda: f'{where}: peek({smallest})={got!r} model={exp!r}')
    exp = [(p, t) for p, _, t in m.sorted()]
    got = list(q)
    v.check(got == exp, 'iteration_disagrees',
            lambda: f'{where}: list(q)={got!r} model={exp!r}')


def _tick():
    pass


class NamedQueue:
    """The library's TaskQueue holding real task objects; the history and the
    model name them 'a'..'d'. Results are translated back by identity (task
    objects overload ==)."""

    def __init__(self, objs):
        self.q = TaskQueue()
        self.objs = objs
        self.names = {id(o): n for n, o in objs.items()}

    def _out(self, x):
        return (x[0], self.names[id(x[1])])

    def add(self, p, t):
        return self.q.add(p, self.objs[t])

    def remove(self, t):
        return self.q.remove(self.objs[t])

    def pop(self):
        return self._out(self.q.pop())

    def peek(self, smallest):
        return self._out(self.q.peek(smallest))

    def empty(self):
        return self.q.empty()

    def clear(self):
        return self.q.clear()

    def __iter__(self):
        return iter([self._out(x) for x in self.q])


def task_objects(case):
    """What the tasks of this history are (a function of the history): plain
    strings, or what the clocks really queue - Function wrappers, here four
    distinct wrappers of one and the same plain function, as
    clock.sched(delta, f) makes one per call - or routines."""
    import zlib
    kind = zlib.crc32(json.dumps(case).encode()) % 3
    if kind == 1:
        from sc3.base.functions import Function
        return 'function_tasks', {n: Function(_tick) for n in TASKS}
    if kind == 2:
        from sc3.base.stream import Routine
        return 'routine_tasks', {n: Routine(_tick) for n in TASKS}
    return 'string_tasks', {n: n for n in TASKS}


def run_history(case, v):
    kind_label, objs = task_objects(case)
    q = NamedQueue(objs)
    m = Model()
    popped = []
    dirty = False   # a remove / re-add happened and has not yet been observed
    nontrivial = False
    labels = set()
    for i, op in enumerate(case):
        name = op[0]
        where = f'step {i} {op}'
        tie = len({x[0] for x in m.items}) < len(m.items)
        if name == 'add':
            _, p, t = op
            if any(x[2] == t for x in m.items):
                dirty = True
                labels.add('readd')
            q.add(p, t)
            m.add(p, t)
        elif name == 'remove':
            _, t = op
            if any(x[2] == t for x in m.items):
                dirty = True
                labels.add('remove_present')
            else:
                labels.add('remove_absent')
            r = q.remove(t)
            m.remove(t)
            v.check(r is None, 'remove_returned', where)
        elif name == 'pop':
            exp = m.pop()
            try:
                got = q.pop()
            except KeyError:
                got = KeyError
            v.check(same(got, exp), 'pop_disagrees',
                    lambda: f'{where}: pop()={got!r} model={exp!r}')
            if dirty and tie:
                nontrivial = True
            if exp is KeyError:
                labels.add('pop_empty')
        elif name == 'peek':
            exp = m.peek(op[1])
            try:
                got = q.peek(op[1])
            except KeyError:
                got = KeyError
            v.check(same(got, exp), 'peek_disagrees',
                    lambda: f'{where}: peek({op[1]})={got!r} model={exp!r}')
            if dirty and tie:
                nontrivial = True
        elif name == 'empty':
            got = q.empty()
            v.check(bool(got) == (not m.items), 'empty_disagrees',
                    lambda: f'{where}: empty()={got!r}')
        elif name == 'clear':
            q.clear()
            m = Model()
            labels.add('clear')
        elif name == 'iter':
            exp = [(p, t) for p, _, t in m.sorted()]
            got = list(q)
            v.check(got == exp, 'iteration_disagrees',
                    lambda: f'{where}: list(q)={got!r} model={exp!r}')
            if dirty and tie:
                nontrivial = True
        if v.items:
            break
        # invariant after every step, whatever the op was
        observe(q, m, v, where + ' (post)')
        if dirty and len({x[0] for x in m.items}) < len(m.items):
            nontrivial = True
        if v.items:
            break
    # drain: non-decreasing, FIFO among equals, each at most once
    if not v.items:
        exp = [(p, t) for p, _, t in m.sorted()]
        got = []
        while True:
            try:
                got.append(q.pop())
            except KeyError:
                break
            if len(got) > len(exp) + 2:
                break
        v.check(got == exp, 'drain_disagrees',
                lambda: f'drain={got!r} model={exp!r}')
        v.check(q.empty(), 'empty_disagrees', 'not empty after drain')
    if tie_in(case):
        labels.add('tie')
    labels.add(kind_label)
    return {'nontrivial': nontrivial, 'labels': sorted(labels)}


def tie_in(case):
    ps = [op[1] for op in case if op[0] == 'add']
    return len(set(ps)) < len(ps)


def history_strategy():
    prio = st.sampled_from(PRIOS)
    task = st.sampled_from(TASKS)
    op = st.one_of(
        st.tuples(st.just('add'), prio, task),
        st.tuples(st.just('add'), prio, task),
        st.tuples(st.just('add'), prio, task),
        st.tuples(st.just('remove'), task),
        st.tuples(st.just('remove'), task),
        st.tuples(st.just('pop')),
        st.tuples(st.just('pop')),
        st.tuples(st.just('peek'), st.booleans()),
        st.tuples(st.just('empty')),
        st.tuples(st.just('iter')),
        st.tuples(st.just('add'), prio, task),
        st.tuples(st.just('add'), prio, task),
        st.tuples(st.just('peek'), st.booleans()),
        st.tuples(st.just('remove'), task),
        st.tuples(st.just('pop')),
        st.tuples(st.just('empty')),
        st.tuples(st.just('iter')),
        st.tuples(st.just('clear')),
    ).map(list)
    return st.lists(op, min_size=3, max_size=50)


# --- bounded exhaustive --------------------------------------------------------

def enum_cases(ctx):
    depth = 7 if ctx.tier == 'thorough' else 4
    tasks = ['a', 'b', 'c']
    letters = [['add', p, t] for p in (0, 1) for t in tasks]
    letters += [['remove', t] for t in tasks] + [['pop'], ['clear']]
    k = 0
    for d in range(1, depth + 1):
        if d <= 2:
            for h in itertools.product(letters, repeat=d):
                if k % ctx.nshards == ctx.shard:
                    yield list(h)
                k += 1
        else:
            for pre in itertools.product(letters, repeat=2):
                if k % ctx.nshards == ctx.shard:
                    for rest in itertools.product(letters, repeat=d - 2):
                        yield list(pre) + list(rest)
                k += 1


# --- consumers -----------------------------------------------------------------

def run_score(case, v):
    """case: {'bundles': [[time, tag], ...], 'tail': t}; sent from the main
    thread (times absolute from zero)."""
    main.reset()
    score_if = main._osc_interface
    for t, tag in case['bundles']:
        score_if.send_bundle(None, t, ['/x', tag])
    score = main.process(case['tail'])
    lst = score.list
    # model
    eff = lambda t: 0.0 if (t is None or t < 0) else t
    exp = [(0.0, ['/g_new', 1, 0, 0])]
    exp += [(eff(t), ['/x', tag]) for t, tag in case['bundles']]
    tailt = main.elapsed_time() + case['tail']
    exp.append((tailt, ['/c_set', 0, 0]))
    exp = [x for _, x in sorted(enumerate(exp), key=lambda e: (e[1][0], e[0]))]
    got = [(b[0], b[1]) for b in lst]
    v.check(len(got) == len(exp), 'score_lost_or_duplicated',
            lambda: f'got {got} expected {exp}')
    v.check(got == exp, 'score_order',
            lambda: f'got {got} expected {exp}')
    times = [eff(t) for t, _ in case['bundles']]
    main.reset()
    return {'nontrivial': len(set(times)) < len(times),
            'labels': ['ties' if len(set(times)) < len(times) else 'no_ties']}


def score_strategy():
    t = st.one_of(st.sampled_from([0, 0.0, 0.5, 1, 1.0, 1.5, 2, 3, None, -1]),
                  st.integers(0, 64).map(lambda k: k / 16))
    return st.fixed_dictionaries({
        'bundles': st.lists(st.tuples(t, st.integers(0, 99)).map(list),
                            min_size=0, max_size=14),
        'tail': st.sampled_from([0, 0.5, 1, 2, 4]),
    })


def run_exitq(case, v):
    """Exit actions: the library's own shutdown (`main._shutdown()`) drains a
    queue that the case filled (the library's real queue and its ShutDown
    actions are put aside meanwhile). Actions may register or remove other
    actions while the shutdown runs: everything registered when its turn
    comes is run, in priority order, first-in-first-out among equals."""
    import atexit
    from sc3.base import systemactions as sac
    ops, during = case['ops'], case.get('during', {})
    q = TaskQueue()
    ran = []
    fns = {}

    def fn_of(name):
        if name not in fns:
            def fn(n=name):
                ran.append(n)
                for eff in during.get(n, ()):
                    real(eff)
            fns[name] = fn
        return fns[name]

    def real(op):
        if op[0] == 'add':
            q.add(op[1], fn_of(op[2]))
        elif op[1] in fns:
            q.remove(fns[op[1]])
        else:
            q.remove(lambda: None)

    def model(m, op):
        if op[0] == 'add':
            m.add(op[1], op[2])
        else:
            m.remove(op[1])

    m = Model()
    for op in ops:
        real(op)
        model(m, op)
    ps = [x[0] for x in m.items]
    # reference drain: take the earliest entry, run it, apply its effects
    exp = []
    while m.items and len(exp) < 100:
        _, _, name = m.sorted()[0]
        m.remove(name)
        exp.append(name)
        for eff in during.get(name, ()):
            model(m, eff)
    owner = next(k for k in type(main).__mro__ if '_atexitq' in vars(k))
    saved_q, saved_sd = owner._atexitq, sac.ShutDown._actions
    owner._atexitq, sac.ShutDown._actions = q, {}
    try:
        main._shutdown()
    finally:
        owner._atexitq, sac.ShutDown._actions = saved_q, saved_sd
        atexit.register(main._shutdown)
    v.check(ran == exp, 'exit_order', lambda: f'ran {ran} expected {exp}')
    nt = len(set(ps)) < len(ps) and any(o[0] == 'remove' for o in ops)
    labels = ['registers_during_shutdown'] if during else []
    return {'nontrivial': nt or bool(during), 'labels': labels}


def exitq_strategy():
    prio = st.sampled_from([0, 500, 700, 800, 900, 1000])
    name = st.sampled_from(['f0', 'f1', 'f2', 'f3', 'f4', 'f5', 'f6'])
    op = st.one_of(st.tuples(st.just('add'), prio, name),
                   st.tuples(st.just('add'), prio, name),
                   st.tuples(st.just('remove'), name)).map(list)
    late = st.sampled_from(['g0', 'g1', 'g2'])      # never run effects
    eff = st.one_of(st.tuples(st.just('add'), prio, late),
                    st.tuples(st.just('remove'), name),
                    st.tuples(st.just('remove'), late)).map(list)
    return st.fixed_dictionaries({
        'ops': st.lists(op, min_size=1, max_size=20),
        'during': st.one_of(st.just({}), st.dictionaries(
            name, st.lists(eff, min_size=1, max_size=2), max_size=3))})


# --- stage: nrt_reset ---------------------------------------------------------------
# The non-real-time scheduler is a time-ordered collection too: main.reset()
# is its clear(). Tasks pending at the reset must never run - also not when a
# later tempo change re-keys the sleepers of their clock - and the program
# that follows runs as on a fresh scheduler.

@st.composite
def reset_programs(draw):
    from vlib import proggen
    p = draw(proggen.timing_program(max_routines=4, tempo_ops=True))
    refs = ['sys', 'app'] + list(range(len(p['clocks'])))
    ab = []
    tag = 900
    for i in range(draw(st.integers(1, 3))):
        nm = f'z{i}'
        body = []
        for _ in range(draw(st.integers(1, 3))):
            tag += 1
            body += [['log', tag], ['wait', draw(st.sampled_from(
                [0, 0.25, 1, 2]))]]
        p['routines'][nm] = {'body': body}
        c = draw(st.sampled_from(refs))
        if draw(st.booleans()):
            ab.append(['play', nm, c, draw(st.sampled_from([None, 0, 1]))])
        else:
            ab.append(['sched', c, draw(st.sampled_from([0, 0.5, 1, 3])),
                       nm])
    p['abandon'] = ab
    return p


def run_nrt_reset(p, v):
    from vlib import prog, prog_model
    from checks import c05
    try:
        m = prog_model.Model(p, interacting={'tempo', 'etempo'}).run()
    except prog_model.Ambiguous:
        raise Reject()
    if m.simultaneous:
        raise Reject()
    out = prog.run_nrt(p)
    ghosts = [x for x in out['trace'] if x['kind'] == 'log'
              and str(x['r']).startswith('z')]
    if ghosts:
        v.fail('ran_after_reset',
               f'tasks pending at main.reset() ran afterwards: '
               f'{[(x["r"], x["tag"], x["secs"]) for x in ghosts]}')
    c05.compare_logs([x for x in out['trace'] if x not in ghosts], m.trace,
                     c05.TOL_DYADIC, v, 'after_reset', ordered='ties_free')
    tempo = any(op[0] == 'tempo' for r in p['routines'].values()
                for op in r['body'])
    return {'nontrivial': tempo,
            'labels': ['tempo_change_after_reset'] if tempo else []}


def stages(ctx):
    return [
        Stage('history', run_history, history_strategy(),
              quick=1500, thorough=12000),
        Stage('enum', run_history, cases=enum_cases, exhaustive=True),
        Stage('score', run_score, score_strategy(), quick=300, thorough=3000),
        Stage('exitq', run_exitq, exitq_strategy(), quick=300, thorough=3000),
        Stage('nrt_reset', run_nrt_reset, reset_programs(), quick=300,
              thorough=3000),
    ]
