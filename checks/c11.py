"""C11 - Routines, conditions and flow variables obey their state machine."""

from fractions import Fraction as F

from hypothesis import strategies as st

from vlib.core import Stage, Reject
from vlib import prog, prog_model

PROPERTY = 'C11'
LEVEL = 'exploration'
MODE = 'nrt'
SHARDS = {'quick': 2, 'thorough': 16}
MANIFEST = {
    'technique': 'model-based property testing: generated call histories '
                 '(next/send, pause, resume, stop, reset from outside; '
                 'yield, return, raise, YieldAndReset, AlwaysYield, nested '
                 'next, self-targeting calls inside bodies) against a '
                 'reference state machine written from the docstrings; '
                 'condition/flow-variable programs run in NRT against the '
                 'discrete-event reference model',
    'category': 'exploration',
    'text': 'Direct stage: 1-3 routines with generated bodies are driven by '
            'generated outside calls; every return value / exception class, '
            'the value each yield receives, the refusal of self-targeting '
            'stop/pause/reset, and after every call the restoration of the '
            'library\'s current thread, parent links and main logical time '
            'are compared with the model. Cond stage: routines waiting on '
            'conditions and flow variables, others setting tests, '
            'signalling, unhanging and binding values at generated logical '
            'times: every waiter resumes exactly once, at the model\'s '
            'instant (never before test-and-signal), with the bound value; '
            'rebinding is refused; waiters may be nested one or two routines '
            'deep inside the routine that is played. rt_restore stage '
            '(simulated real-time mode): after routines on SystemClock, '
            'AppClock and TempoClocks have yielded, returned or raised, a '
            'routine stepped by hand from the main thread runs at the '
            'caller\'s present and the main thread is the current thread.',
    'note': 'Trusted: the reference state machine (this file) and '
            'vlib/prog_model.py. Re-entrant next() on a running routine is '
            'not generated (no documented behaviour).',
}
RULE = (
    'direct: Hypothesis lists of outside ops over routines whose bodies are '
    'lists of y(value)/ret/raise/YieldAndReset/AlwaysYield/nested next/self '
    'stop|pause|reset. cond: programs of waiters (cwait/fwait between logs) '
    'and actors (wait, ctest, csignal, cunhang, fset) on SystemClock and '
    'TempoClocks. Non-trivial = an exception or YieldAndReset/AlwaysYield '
    'inside a nested next, or two or more waiters on one condition, or a '
    'self-targeting call. Distinct by sha1.'
    ' Waiters may be nested 1-2 routines deep; condition tests are booleans, functions, bound methods, partials or callable objects; bodies may raise BaseException subclasses; other-ops may aim at any routine. rt_restore stage: simulated RT programs of routines ending/raising on sys/app/tempo clocks followed by hand-stepped routines after pauses.')
ASSUMPTIONS = [
    'A routine never calls next() on itself or on a routine that is running '
    '(undocumented).',
]


class UserErr(Exception):
    pass


class UserBase(BaseException):
    pass


def setup(ctx):
    global main, stm
    from sc3.base.main import main
    from sc3.base import stream as stm


def teardown(ctx):
    for w in RT:
        w.close()


# --- direct stage: reference state machine -------------------------------------

class MR:
    def __init__(self, body):
        self.body = body
        self.pc = 0
        self.state = 'init'
        self.terminal = None
        self.has_terminal = False
        self.live = False       # the function is in progress (has yielded)


def model_next(rs, i, inval, log):
    """Returns ('ret', value) | ('exc', name)."""
    r = rs[i]
    if r.state == 'paused':
        return ('exc', 'PausedStream')
    if r.state == 'done':
        if r.has_terminal:
            return ('ret', r.terminal)
        return ('exc', 'StopStream')
    if not r.live:
        # first call, or first call after reset()/YieldAndReset: the
        # function starts over and receives inval as its argument
        r.pc = 0
        r.live = True
        log.append(('start', i, inval))
    else:
        log.append(('got', i, inval))
    r.state = 'running'
    while r.pc < len(r.body):
        op = r.body[r.pc]
        r.pc += 1
        k = op[0]
        if k == 'y':
            r.state = 'suspended'
            return ('ret', op[1])
        if k == 'ret':
            break
        if k == 'raise':
            r.state = 'done'
            r.live = False
            return ('exc', 'UserBase' if len(op) > 1 else 'UserErr')
        if k == 'yar':
            r.state = 'init'
            r.live = False
            return ('ret', op[1])
        if k == 'ay':
            r.state = 'done'
            r.live = False
            r.terminal = op[1]
            r.has_terminal = True
            return ('ret', op[1])
        if k == 'next':
            j = op[1]
            if rs[j].state == 'running':
                log.append(('nested_skipped', i, j))
                continue
            log.append(('nested', i, j, model_next(rs, j, op[2], log)))
        elif k == 'self':
            log.append(('self_refused', i, op[1]))
        elif k == 'other':
            model_outside(rs, [op[1], op[2]], log)
    r.state = 'done'
    r.live = False
    return ('exc', 'StopStream')


def model_outside(rs, op, log):
    k, i = op[0], op[1]
    r = rs[i]
    if r.state == 'running':
        log.append(('refused_running', k, i))
        return
    if k == 'pause':
        if r.state in ('init', 'suspended'):
            r.state = 'paused'
    elif k == 'resume':
        if r.state == 'paused':
            r.state = 'suspended'
    elif k == 'stop':
        r.state = 'done'
        r.live = False
    elif k == 'reset':
        # back to the initial state: a terminal value recorded by an
        # earlier AlwaysYield belongs to the run that was reset away
        r.state = 'init'
        r.live = False
        r.has_terminal = False
        r.terminal = None


STATE_NAME = {'Init': 'init', 'Suspended': 'suspended', 'Paused': 'paused',
              'Done': 'done', 'Running': 'running'}


def run_direct(case, v):
    main.reset()
    log = []
    rts = []

    def make(i, body):
        def gen(inval):
            log.append(('start', i, inval))
            for op in body:
                k = op[0]
                if k == 'y':
                    got = yield op[1]
                    log.append(('got', i, got))
                elif k == 'ret':
                    return
                elif k == 'raise':
                    # (a failure is a failure: also one that is no Exception)
                    raise (UserBase if len(op) > 1 else UserErr)('boom')
                elif k == 'yar':
                    raise stm.YieldAndReset(op[1])
                elif k == 'ay':
                    raise stm.AlwaysYield(op[1])
                elif k == 'next':
                    j = op[1]
                    if rts[j].state == rts[j].State.Running:
                        log.append(('nested_skipped', i, j))
                        continue
                    try:
                        res = ('ret', rts[j].next(op[2]))
                    except stm.PausedStream:
                        res = ('exc', 'PausedStream')
                    except stm.StopStream:
                        res = ('exc', 'StopStream')
                    except UserErr:
                        res = ('exc', 'UserErr')
                    except UserBase:
                        res = ('exc', 'UserBase')
                    log.append(('nested', i, j, res))
                    if main.current_tt is not rts[i]:
                        v.fail('current_thread_after_nested',
                               f'inside routine {i} after nested next of {j}: '
                               f'current_tt is {main.current_tt!r}')
                elif k == 'self':
                    try:
                        getattr(rts[i], op[1])()
                        log.append(('self_allowed', i, op[1]))
                    except stm.RoutineException:
                        log.append(('self_refused', i, op[1]))
                elif k == 'other':
                    outside([op[1], op[2]])
        gen.__qualname__ = f'c11.r{i}'
        return gen

    def outside(op):
        k, i = op[0], op[1]
        try:
            getattr(rts[i], k)()
        except stm.RoutineException:
            log.append(('refused_running', k, i))

    for i, body in enumerate(case['bodies']):
        rts.append(stm.Routine(make(i, body)))
    mrs = [MR(b) for b in case['bodies']]
    mlog = []
    labels = set()
    nontrivial = False
    for step, op in enumerate(case['ops']):
        n0, m0 = len(log), len(mlog)
        if op[0] == 'next':
            try:
                got = ('ret', rts[op[1]].next(op[2]))
            except stm.PausedStream:
                got = ('exc', 'PausedStream')
            except stm.StopStream:
                got = ('exc', 'StopStream')
            except UserErr:
                got = ('exc', 'UserErr')
            except UserBase:
                got = ('exc', 'UserBase')
            exp = model_next(mrs, op[1], op[2], mlog)
            if got != exp:
                v.fail('next_result',
                       f'step {step} {op}: library {got}, model {exp}')
        else:
            outside(op)
            model_outside(mrs, op, mlog)
        if log[n0:] != mlog[m0:]:
            v.fail('body_events',
                   f'step {step} {op}: library {log[n0:]} model {mlog[m0:]}')
        for e in mlog[m0:]:
            if e[0] == 'self_refused':
                labels.add('self_target')
                nontrivial = True
            if e[0] == 'nested' and (e[3][0] == 'exc' or any(
                    o[0] in ('yar', 'ay')
                    for o in case['bodies'][e[2]])):
                labels.add('nested_exception_or_reset')
                nontrivial = True
        # invariants after every outside call
        if main.current_tt is not main.main_tt:
            v.fail('current_thread_not_restored',
                   f'step {step} {op}: current_tt = {main.current_tt!r}')
            main.current_tt = main.main_tt
        for i, r in enumerate(rts):
            if r.parent is not None:
                v.fail('parent_not_cleared', f'step {step} {op}: routine {i}')
            st_name = STATE_NAME[r.state.name]
            if st_name != mrs[i].state:
                v.fail('routine_state',
                       f'step {step} {op}: routine {i} is {st_name}, model '
                       f'{mrs[i].state}')
                mrs[i].state = st_name
        if main.main_tt._m_seconds != 0.0:
            v.fail('main_logical_time_changed',
                   f'step {step}: {main.main_tt._m_seconds}')
        if v.items:
            break
    main.reset()
    return {'nontrivial': nontrivial, 'labels': sorted(labels)}


VALUES = [0, 1, 0.5, 'hang', None, 'x', 2]


@st.composite
def direct_cases(draw):
    n = draw(st.integers(1, 3))
    bodies = []
    for i in range(n):
        ops = []
        for _ in range(draw(st.integers(0, 7))):
            k = draw(st.integers(0, 13))
            if k <= 5:
                ops.append(['y', draw(st.sampled_from(VALUES))])
            elif k == 6:
                ops.append(['ret'])
            elif k == 7:
                ops.append(['raise', 'base'] if draw(st.integers(0, 2)) == 0
                           else ['raise'])
            elif k == 8:
                ops.append(['yar', draw(st.sampled_from(VALUES))])
            elif k == 9:
                ops.append(['ay', draw(st.sampled_from(VALUES))])
            elif k <= 11 and i > 0:
                ops.append(['next', draw(st.integers(0, i - 1)),
                            draw(st.sampled_from(VALUES))])
            elif k == 12:
                ops.append(['self', draw(st.sampled_from(
                    ['stop', 'pause', 'reset']))])
            elif n > 1:
                # any other routine - also one that is running further up
                # the chain of nested next() calls (then it must be refused)
                j = draw(st.integers(0, n - 2))
                ops.append(['other', draw(st.sampled_from(
                    ['pause', 'stop', 'reset'])), j if j < i else j + 1])
        bodies.append(ops)
    ops = []
    for _ in range(draw(st.integers(1, 25))):
        k = draw(st.integers(0, 9))
        i = draw(st.integers(0, n - 1))
        if k <= 5:
            ops.append(['next', i, draw(st.sampled_from(VALUES))])
        else:
            ops.append([draw(st.sampled_from(
                ['pause', 'resume', 'stop', 'reset'])), i])
    return {'bodies': bodies, 'ops': ops}


# --- cond stage -----------------------------------------------------------------

@st.composite
def cond_programs(draw):
    nclocks = draw(st.integers(0, 2))
    clocks = [{'tempo': draw(st.sampled_from([0.5, 1, 2, 4])), 'beats': None}
              for _ in range(nclocks)]
    refs = ['sys'] + list(range(nclocks))
    nw = draw(st.integers(1, 4))
    na = draw(st.integers(1, 3))
    routines = {}
    top = []
    tag = 0
    ks = [draw(st.integers(0, 1)) for _ in range(nw)]
    for i in range(nw):
        body = []
        for _ in range(draw(st.integers(1, 3))):
            tag += 1
            body.append(['log', tag])
            if draw(st.integers(0, 2)) != 0:
                # (a waiter sleeping here is where a second, spurious
                # resumption by a later signal would show)
                body.append(['wait', draw(st.sampled_from([0, 0.25, 1, 2]))])
            kind = draw(st.sampled_from(['cwait', 'cwait', 'fwait']))
            body.append([kind, ks[i] if draw(st.integers(0, 3)) else
                         draw(st.integers(0, 1))])
            tag += 1
            body.append(['log', tag])
        # the waiter may be nested inside the routine that is played
        routines[f'w{i}'] = {'body': body,
                             'nest': draw(st.sampled_from([0, 0, 1, 2]))}
        top.append(['play', f'w{i}', draw(st.sampled_from(refs)), 0])
    for i in range(na):
        body = []
        # actors act at odd multiples of 1/8 s: never simultaneous with a
        # waiter's own wake-up on another clock
        body.append(['wait', 0.125])
        for _ in range(draw(st.integers(1, 6))):
            k = draw(st.integers(0, 1))
            a = draw(st.integers(0, 6))
            if a <= 1:
                body.append(['ctest', k, draw(st.booleans())])
            elif a <= 3:
                body.append(['csignal', k])
            elif a == 4:
                body.append(['cunhang', k])
            else:
                body.append(['fset', k, draw(st.sampled_from(
                    [1, 'v', 2.5, None]))])
            tag += 1
            body.append(['log', tag])
            body.append(['wait', draw(st.sampled_from([0.25, 0.5, 1]))])
        routines[f'a{i}'] = {'body': body}
        top.append(['play', f'a{i}', 'sys', 0])
    return {'clocks': clocks, 'routines': routines, 'top': top, 'tail': 0,
            'cond_kinds': [draw(st.sampled_from(
                ['bool', 'bool', 'func', 'method', 'partial', 'callable']))
                for _ in range(2)]}


def run_cond(p, v):
    try:
        m = prog_model.Model(p).run()
    except prog_model.Ambiguous:
        raise Reject()
    out = prog.run_nrt(p)

    def view(tr):
        res = []
        for x in tr:
            if x['kind'] == 'log':
                res.append(('log', x['r'], x['tag'], F(x['secs'])))
            elif x['kind'] == 'flow':
                res.append(('flow', x['r'], x['k'], x['value'],
                            F(x['secs'])))
            elif x['kind'] == 'rebind_refused':
                res.append(('rebind_refused', x['r'], x['k']))
        return res
    real, exp = view(out['trace']), view(m.trace)
    # order between different routines at one instant across clocks is not
    # fixed by the property: compare per routine
    per = lambda tr: {r: [x for x in tr if x[1] == r]
                      for r in {x[1] for x in tr}}
    if per(real) != per(exp):
        pr, pe = per(real), per(exp)
        r = next(k for k in sorted(set(pr) | set(pe), key=str)
                 if pr.get(k) != pe.get(k))
        kind = 'waiter_resumption' if str(r).startswith('w') else \
            'actor_trace'
        early = ''
        v.fail(kind, f'routine {r}: library {pr.get(r)} model {pe.get(r)}')
    waits = {}
    for r in p['routines'].values():
        for op in r['body']:
            if op[0] in ('cwait', 'fwait'):
                waits[(op[0], op[1])] = waits.get((op[0], op[1]), 0) + 1
    multi = any(n >= 2 for n in waits.values())
    labels = ['two_waiters'] if multi else []
    if any(r.get('nest') for r in p['routines'].values()):
        labels.append('nested_waiter')
    labels += ['test_is_' + k for k in set(p.get('cond_kinds', []))]
    if any(x[0] == 'rebind_refused' for x in exp):
        labels.append('rebind')
    return {'nontrivial': multi, 'labels': labels}


# --- rt_restore stage ------------------------------------------------------------------
# Real-time mode (simulation): after routines on any clock - AppClock included
# - have yielded, returned or raised, the main thread is the current thread
# again and its logical time is its own present: a routine then stepped by
# hand from the main thread runs at the caller's time.

RT = []


@st.composite
def restore_programs(draw):
    nclocks = draw(st.integers(0, 1))
    clocks = [{'tempo': draw(st.sampled_from([1, 2])), 'beats': None}
              for _ in range(nclocks)]
    refs = ['sys', 'app', 'app'] + list(range(nclocks))
    routines, top = {}, []
    tag = 0
    for i in range(draw(st.integers(1, 3))):
        body = []
        for _ in range(draw(st.integers(1, 3))):
            tag += 1
            body += [['log', tag],
                     ['wait', draw(st.sampled_from([0, 0.125, 0.25]))]]
        end = draw(st.sampled_from(['return', 'raise', 'hang', 'return']))
        body = body[:-1] if end != 'hang' else body[:-1] + [['yield', 'x']]
        if end == 'raise':
            body.append(['raise', 'ValueError'])
        routines[f'r{i}'] = {'body': body}
        top.append(['play', f'r{i}', draw(st.sampled_from(refs)), 0])
    hb = []
    steps = draw(st.integers(1, 4))
    for _ in range(steps):
        tag += 1
        hb += [['log', tag], ['wait', 1]]
    routines['h0'] = {'body': hb}
    for _ in range(steps):
        top.append(['tsleep', draw(st.sampled_from([0.0625, 0.25, 0.5, 1]))])
        top.append(['next', 'h0'])
    return {'prog': {'clocks': clocks, 'routines': routines, 'top': top,
                     'tail': 0},
            'tape': draw(st.lists(st.integers(0, 11), max_size=40))}


def run_restore(case, v):
    p = case['prog']
    if not RT:
        from vlib import workers
        RT.append(workers.rtsim_worker())
    out = RT[0].ask({'prog': p, 'tape': case['tape'], 'horizon': 2.0})
    if 'deadlock' in out or 'error' in out:
        v.fail('rt_run_failed', str(out)[:600])
        return {'nontrivial': False, 'labels': ['rt_failed']}
    call = None
    ends = set()
    for x in out['trace']:
        if x['kind'] == 'next_call':
            call = x
            if abs(x['secs'] - x['phys']) > 1e-9:
                v.fail('main_thread_logical_time',
                       f'routine stepped from the main thread at physical '
                       f'time {x["phys"]}: the caller\'s logical time is '
                       f'{x["secs"]}')
                break
        elif x['kind'] == 'log' and x['r'] == 'h0' and call is not None:
            if abs(x['secs'] - call['phys']) > 1e-9:
                v.fail('stepped_routine_time',
                       f'stepped at {call["phys"]}, routine sees '
                       f'{x["secs"]}')
                break
        elif x['kind'] == 'end':
            if not x['current_is_main']:
                v.fail('current_thread_not_restored',
                       'after the run main.current_tt is not the main thread')
    for r in p['routines'].values():
        if r['body'] and r['body'][-1][0] == 'raise':
            ends.add('raised')
        elif r['body'] and r['body'][-1][0] == 'yield':
            ends.add('hung')
        else:
            ends.add('returned')
    app = any(op[0] == 'play' and op[2] == 'app' for op in p['top'])
    labels = sorted('end:' + e for e in ends) + (['appclock'] if app else [])
    return {'nontrivial': app and bool(ends & {'raised', 'returned'}),
            'labels': labels}


def stages(ctx):
    return [
        Stage('direct', run_direct, direct_cases(), quick=1500,
              thorough=12000),
        Stage('cond', run_cond, cond_programs(), quick=500, thorough=5000),
        Stage('rt_restore', run_restore, restore_programs(), quick=150,
              thorough=1500),
    ]
