"""C17 - Client objects speak the server command protocol and keep ids
consistent.

Generated op histories (Synth/Group/ParGroup/Buffer/ControlBus/AudioBus/
Server helpers, inside and outside ``with server.bind():`` blocks, with
exceptions raised inside blocks) are run in NRT mode against Server.default.
Every call that reaches the OSC interface (``main._osc_interface.send_msg`` /
``send_bundle``, replaced on the instance) is captured twice: as the argument
lists the client handed over, and as wire messages (the interface's own
encoder output decoded by the independent codec vlib/osc_ref.py).

Oracles (none of them is the code under test):

* vlib/cmdref.py - the Server Command Reference transcribed as data: every
  wire message, completion messages included, must parse (name, arity
  pattern, order, types, ranges of enumerated arguments);
* an id model kept by the executor: node ids / buffer numbers / bus indices
  named in id-typed positions must have been handed out to this client (or be
  the root node 0 / default group 1 / -1 where the reference defines it);
* a reference model of every client method, written from the method's
  documentation and the command reference ("Synth(def, args, target, action)
  sends /s_new def <own id> <action number> <target id> <flattened args>",
  ...): the messages of an op are compared with the expected sequence, ids
  read back from the created objects;
* bind: nothing reaches the interface while a block runs, exactly one bundle
  holding the block's messages in issue order at normal exit, nothing if the
  block raises, server.addr restored either way - also when the transport
  raises while the block flushes its bundle (injected OSError at the
  interface): the block is over and later commands reach the wire again;
* allocator: after the history every allocator is drained through the public
  constructors; ids of live objects must not be handed out, every id freed
  during the history and not live must come back.
"""

import json

from hypothesis import strategies as st

from vlib.core import Stage, sc3_origin
from vlib import osc_ref, cmdref

PROPERTY = 'C17'
LEVEL = 'exploration'
MODE = 'nrt'
SHARDS = {'quick': 2, 'thorough': 16}

RULE = (
    'history stage: a case is a list of 5-18 ops plus an allocator tie-break '
    'tape. Ops: Synth via __init__/new_paused/grain/after/before/head/tail/'
    'replace(same_id) and Group/ParGroup via __init__/after/before/head/tail/'
    'replace with every spelling of the five add actions and targets None/'
    'Server/default group/Group/Synth/int; node set/setn/map/mapa/mapn/mapan/'
    'fill/release/run/move_before/move_after/move_to_head/move_to_tail/free/'
    'free_all/deep_free, Server.reorder/free_default_group; args as flat '
    'list, tuple, dict, nested lists/tuples (arrays), ControlBus/AudioBus/'
    'Buffer objects and bus map symbols; Buffer()/alloc=False+alloc/'
    'new_consecutive/new_cue with completion messages (list, function, '
    'nested), zero/set/setn/fill/sine1-3/cheby/gen/normalize/copy_data/close/'
    'read/write/cue/alloc_read/free (also twice)/Buffer.free_all; '
    'ControlBus/AudioBus alloc, set/setn/set_at/setn_at/set_pairs/fill/clear/'
    'free (also twice); SynthDef.send; `with server.bind():` blocks wrapping '
    '0-6 ops, nested once, optionally raising one of 5 exception types (one a '
    'BaseException) before the k-th inner op, nested blocks caught inside or '
    'propagating through the outer block. Objects are addressed by index '
    'modulo the live population, so every op is applicable; each case starts '
    'with a node, a buffer, a control bus and 1-4 further creations. Every op '
    'is compared with the reference model, every '
    'wire message validated against the command reference table, ids against '
    'the id model, allocators drained at the end. Non-trivial = the history '
    'has a bind block holding >= 2 commands, or a free_all over >= 2 live '
    'buffers, or a command with array/bus/buffer arguments. Distinct by sha1 '
    'of the canonical case JSON. completion stage: every Buffer method that '
    'takes a completion message x every completion shape (enumerated). '
    'findings stage: the minimal histories of the known findings, outside and '
    'inside a bind block.'
    ' servers stage: creations and default-target moves on two servers. Bind blocks may end with an injected transport failure at the flush.')

ASSUMPTIONS = [
    'NRT: Server.default is marked as booted by NrtMain, no server process; '
    'what scsynth does with the bytes is out of scope, the command reference '
    'table (vlib/cmdref.py, hand transcribed) stands in for it.',
    'An absent completion message is sent by sc3 (and by sclang) as a trailing '
    'int 0; the server ignores a non-blob there. cmdref accepts it (lenient '
    'mode) and the comparison treats it as absent.',
    'Per case Server.default is re-configured with small pools (options.'
    'buffers=24, control_buses=48, audio_buses=36) and _set_client_id(0) to '
    'get fresh allocators, so that draining them is cheap.',
    'The allocator\'s random tie-break (bi.choice in sc3.synth._engine) is '
    'replaced by a draw from the tape of the case (as in C16).',
    'A constructor refusing for lack of space (documented exception) is not a '
    'violation here (C16 decides allocation completeness).',
    'Buffer objects whose numbers were released by Buffer.free_all are not '
    'used again (the objects are stale). Buffers of a new_consecutive group '
    'are freed only as a whole group, base first, or by free_all '
    '(documented: "must be treated as a group").',
    'Second Node.free() is not constrained (node ids are never returned and '
    'the reference clients resend /n_free). Use after free is generated only '
    'as a second free() of a Buffer or Bus; other methods on freed objects '
    'are caller errors outside the statement.',
    'Not generated: methods that install responders (get/getn/query, C18), '
    'clumping of bundles above the UDP limit (needs > 64 kB blocks; the size '
    'arithmetic is C06), bundle times/latency (C07), sync inside bind '
    '(needs a routine and a replying server).',
    'setn values are lists or scalars (tuples are refused by the encoder and '
    'not documented for setn).',
]

MANIFEST = {
    'technique': 'model-based property testing: Hypothesis op histories over '
                 'the client objects in NRT, captured at the OSC interface, '
                 'decoded by an independent OSC codec and checked against a '
                 'hand-transcribed command reference table, a per-method '
                 'reference model, an id model and a bind/bundle model',
    'category': 'exploration',
    'text': 'Generated histories of Synth/Group/ParGroup creation (all add '
            'actions and targets), node messages with scalar/list/tuple/dict/'
            'bus/buffer arguments, Buffer and Bus life cycles (single, '
            'consecutive, free twice, free_all) and Server helpers run inside '
            'and outside bind() blocks (nested once, exceptions raised at '
            'generated points). Every message that reaches the OSC interface '
            'is validated against the Server Command Reference (as data, '
            'completion messages opened recursively), compared with the '
            'message the method is documented to send, and its ids checked '
            'against the set handed out to this client; blocks must arrive as '
            'one bundle in issue order or not at all; allocators are drained '
            'after each history to show freed ids came back and live ones '
            'did not.',
    'note': 'Trusted: vlib/cmdref.py (reference transcription), the '
            'per-method reference model in this file, vlib/osc_ref.py. '
            'Sequential use only; NRT interface (the RT interface shares '
            'send_msg/send_bundle argument handling and the encoder).',
}

NPOOL = {'buffers': 24, 'control': 48, 'audio': 32}

# Node.add_actions as documented (traditional, simple, shortcut, number)
ACTIONS = {
    'addToHead': 0, 'addToTail': 1, 'addBefore': 2, 'addAfter': 3,
    'addReplace': 4, 'head': 0, 'tail': 1, 'before': 2, 'after': 3,
    'replace': 4, 'h': 0, 't': 1, 'b': 2, 'a': 3, 'r': 4,
    0: 0, 1: 1, 2: 2, 3: 3, 4: 4}

DEFNAME = 'c17def'


class C17Exc(Exception):
    pass


class C17Base(BaseException):
    pass


EXC_TYPES = {'ValueError': ValueError, 'KeyError': KeyError,
             'ZeroDivisionError': ZeroDivisionError, 'Custom': C17Exc,
             'BaseCustom': C17Base}


# --- capture --------------------------------------------------------------------

class Call:
    __slots__ = ('kind', 'time', 'raw', 'wire', 'bad', 'target')

    def __init__(self, kind, time, raw, wire, bad, target=None):
        self.target = target
        self.kind = kind      # 'msg' | 'bundle'
        self.time = time
        self.raw = raw        # client-level lists
        self.wire = wire      # [osc_ref.Message]
        self.bad = bad        # undecodable wire: reason


class Capture:
    def __init__(self, main):
        self.main = main
        self.iface = main._osc_interface
        self.calls = []
        self.depth = 0
        self.on = True

    def install(self):
        i = self.iface
        self.orig_msg = i.send_msg
        self.orig_bundle = i.send_bundle
        i.send_msg = self._send_msg
        i.send_bundle = self._send_bundle

    def restore(self):
        for k in ('send_msg', 'send_bundle'):
            self.iface.__dict__.pop(k, None)

    def _wire(self, m):
        t = self.main.current_tt._seconds
        if isinstance(m[0], str):
            dg = self.iface._build_msg(t, list(m)).dgram
        else:
            dg = self.iface._build_bundle(t, list(m)).dgram
        return [x for _, x in osc_ref.flatten(osc_ref.decode_packet(
            bytes(dg)))]

    def _wires(self, elements):
        out, bad = [], None
        for e in elements:
            try:
                out.extend(self._wire(e))
            except osc_ref.OscError as ex:
                bad = f'{e!r}: {ex}'
        return out, bad

    def _send_msg(self, target, *args):
        if not self.on:
            return self.orig_msg(target, *args)
        wire, bad = self._wires([list(args)])
        self.depth += 1
        try:
            self.orig_msg(target, *args)
        finally:
            self.depth -= 1
        self.calls.append(Call('msg', None, [list(args)], wire, bad, target))

    fail_flush = None

    def _send_bundle(self, target, time, *elements):
        if self.fail_flush is not None:
            # injected transport fault (e.g. EMSGSIZE from sendto)
            e, self.fail_flush = self.fail_flush, None
            raise e
        if self.depth or not self.on:
            return self.orig_bundle(target, time, *elements)
        wire, bad = self._wires([list(e) for e in elements])
        self.orig_bundle(target, time, *elements)
        self.calls.append(Call('bundle', time, [list(e) for e in elements],
                               wire, bad, target))


class Tape:
    def __init__(self, draws):
        self.draws = draws
        self.i = 0

    def pick(self, lst):
        cands = sorted(lst, key=lambda b: (getattr(b, 'start', 0),
                                           getattr(b, 'size', 0)))
        d = self.draws[self.i] % len(cands) if self.i < len(self.draws) else 0
        self.i += 1
        return cands[d]


class BiShim:
    def __init__(self, real):
        self._real = real
        self.tape = None

    def __getattr__(self, name):
        return getattr(self._real, name)

    def choice(self, lst):
        if self.tape is None:
            return self._real.choice(lst)
        return self.tape.pick(lst)


CAP = None
SHIM = None


def setup(ctx):
    global main, Server, Synth, Group, ParGroup, Buffer, ControlBus, AudioBus
    global BufferAlreadyFreed, BusAlreadyFreed, BusException, SynthDef
    global S, CAP, SHIM, SDEF, SDEF_BYTES, BundleNetAddr
    from sc3.base.main import main
    from sc3.base.netaddr import BundleNetAddr
    from sc3.synth.server import Server
    from sc3.synth.node import Synth, Group, ParGroup
    from sc3.synth.buffer import Buffer, BufferAlreadyFreed
    from sc3.synth.bus import (ControlBus, AudioBus, BusAlreadyFreed,
                               BusException)
    from sc3.synth.synthdef import SynthDef
    from sc3.synth import _engine as eng
    S = Server.default
    if not isinstance(eng.bi, BiShim):
        SHIM = BiShim(eng.bi)
        eng.bi = SHIM
    else:
        SHIM = eng.bi
    SDEF = SynthDef(DEFNAME, lambda: None)
    SDEF_BYTES = bytes(SDEF.as_bytes())
    CAP = Capture(main)
    CAP.install()


def teardown(ctx):
    if CAP is not None:
        CAP.restore()


def reset_world(case):
    main.reset()
    o = S.options
    o.max_logins = 1
    o.buffers = NPOOL['buffers']
    o.control_buses = NPOOL['control']
    o.input_channels = o.output_channels = 2
    o.audio_buses = NPOOL['audio'] + 4
    o.reserved_buffers = o.reserved_control_buses = 0
    o.reserved_audio_buses = 0
    o.initial_node_id = 1000
    S._status_watcher._max_logins = None
    S._set_client_id(0)
    SHIM.tape = Tape(case.get('tape', []))
    CAP.calls = []
    CAP.depth = 0
    CAP.on = True


# --- comparison helpers -------------------------------------------------------------

def plain_val(x):
    """Array values (nested lists) of a decoded message as plain lists."""
    if isinstance(x, (list, tuple)):
        return [plain_val(y) for y in x]
    return x


def absent_tail(m):
    """True if the last argument of wire message m is the int 0 that
    stands for an absent completion message (reference: optional slot)."""
    n = len(m.args)
    for p in cmdref.parse(m, lenient=False).problems:
        if p.code == 'completion_type' and p.where == f'{m.address}[{n - 1}]':
            return True
    return False


def strip_absent(m):
    """osc_ref.Message -> plain [addr, args...]: absent-completion int 0
    dropped, completion blobs opened (recursively), other blobs as hex."""
    args = list(m.args)
    if absent_tail(m):
        args = args[:-1]
    out = [m.address]
    for x in args:
        if isinstance(x, (bytes, bytearray)):
            try:
                pkt = osc_ref.decode_packet(bytes(x))
            except osc_ref.OscError:
                out.append({'blob': bytes(x).hex()})
            else:
                out.append({'completion': [
                    strip_absent(mm) for _, mm in osc_ref.flatten(pkt)]})
        else:
            out.append(plain_val(x))
    return out


def same(e, a):
    """expected value vs actual plain value, type exact for ints/floats."""
    if isinstance(e, dict) or isinstance(a, dict):
        if not (isinstance(e, dict) and isinstance(a, dict)):
            return False
        if 'completion' in e:
            ea, aa = e['completion'], a.get('completion')
            return (aa is not None and len(ea) == len(aa)
                    and all(same(x, y) for x, y in zip(ea, aa)))
        return e.get('blob') == a.get('blob')
    if isinstance(e, (list, tuple)):
        return (isinstance(a, (list, tuple)) and len(e) == len(a)
                and all(same(x, y) for x, y in zip(e, a)))
    if isinstance(e, bool) or isinstance(a, bool):
        return False
    if isinstance(e, int):
        return isinstance(a, int) and e == a
    if isinstance(e, float):
        return isinstance(a, float) and osc_ref.f32(e) == a
    if isinstance(e, str):
        return isinstance(a, str) and e == a
    return False


def canon(x):
    return json.dumps(x, sort_keys=True, default=repr)


class Pred:
    """Alternative matching n actual messages by predicate."""

    def __init__(self, n, fn):
        self.n = n
        self.fn = fn


class Alt:
    """Expected: one of several message sequences; alternatives after the
    first are specific known deviations and carry a violation kind."""

    def __init__(self, seqs):
        self.seqs = seqs       # [(messages | Pred, kind | None)]


class Perm:
    """Expected: the messages in any order; `defect` = (subset, kind)."""

    def __init__(self, msgs, defect=None):
        self.msgs = msgs
        self.defect = defect


def match(exp, act, i=0, j=0):
    """exp: list of plain expected messages / Alt / Perm; act: list of plain
    actual messages. Returns a list of (deviation kind, indices of the actual
    messages it explains), or None if nothing matches."""
    if i == len(exp):
        return [] if j == len(act) else None
    e = exp[i]
    if isinstance(e, Alt):
        for seq, kind in e.seqs:
            if isinstance(seq, Pred):
                n = seq.n
                ok = j + n <= len(act) and seq.fn(act[j:j + n])
            else:
                n = len(seq)
                ok = j + n <= len(act) and all(
                    same(x, y) for x, y in zip(seq, act[j:j + n]))
            if ok:
                rest = match(exp, act, i + 1, j + n)
                if rest is not None:
                    return ([(kind, list(range(j, j + n)))] if kind
                            else []) + rest
        return None
    if isinstance(e, Perm):
        for msgs, kind in ((e.msgs, None),) + ((e.defect,) if e.defect
                                               else ()):
            n = len(msgs)
            if j + n > len(act):
                continue
            pool = list(act[j:j + n])
            ok = True
            for m in msgs:
                for k, a in enumerate(pool):
                    if same(m, a):
                        del pool[k]
                        break
                else:
                    ok = False
                    break
            if ok:
                rest = match(exp, act, i + 1, j + n)
                if rest is not None:
                    return ([(kind, [])] if kind else []) + rest
        return None
    if j < len(act) and same(e, act[j]):
        return match(exp, act, i + 1, j + 1)
    return None


def show_exp_items(exp):
    """Alt replaced by its first (conforming) alternative."""
    out = []
    for e in exp:
        if isinstance(e, Alt):
            out.extend(e.seqs[0][0])
        else:
            out.append(e)
    return out


def show_exp(exp):
    out = []
    for e in exp:
        if isinstance(e, Alt):
            out.extend(e.seqs[0][0])
        elif isinstance(e, Perm):
            out.append({'any_order': e.msgs})
        else:
            out.append(e)
    return out


# --- executor -------------------------------------------------------------------------

class Rec:
    def __init__(self, obj, **kw):
        self.obj = obj
        self.__dict__.update(kw)


class Run:
    def __init__(self, case, v):
        self.case = case
        self.v = v
        self.labels = set()
        self.nodes = []       # Rec(obj, id, kind)
        self.bufs = []        # Rec(obj, num, frames, channels, live, block)
        self.cbs = []         # Rec(obj, index, channels, live)
        self.abs = []
        self.node_ids = {0, 1}
        self.buf_ever = set()         # numbers handed out during the op/block
        self.freed = {'buffer': set(), 'control': set(), 'audio': set()}
        self.block_seq = 0
        self.nontrivial = False

    # -- model queries ---------------------------------------------------------

    def live_bufs(self):
        return [b for b in self.bufs if b.live]

    def live_buf_nums(self):
        return {b.num for b in self.bufs if b.live}

    def live(self, lst):
        return [x for x in lst if x.live]

    def pick(self, lst, k):
        return lst[k % len(lst)] if lst else None

    def bus_ranges(self, lst):
        out = set()
        for b in lst:
            if b.live:
                out.update(range(b.index, b.index + b.channels))
        return out

    # -- values ----------------------------------------------------------------

    def val(self, spec):
        """value spec -> (python object for sc3, expected wire value)."""
        if isinstance(spec, (int, float, str)):
            return spec, spec
        tag = spec[0]
        if tag in ('l', 't'):
            self.labels.add('arg_array')
            self.nontrivial = True
            objs, wires = [], []
            for x in spec[1]:
                o, w = self.val(x)
                objs.append(o)
                wires.append(w)
            return (objs if tag == 'l' else tuple(objs)), wires
        k = spec[1]
        if tag in ('cbus', 'cmap'):
            b = self.pick(self.live(self.cbs), k)
            if b is None:
                return k, k
            self.labels.add('arg_bus')
            self.nontrivial = True
            if tag == 'cmap':
                return b.obj.as_map(), f'c{b.index}'
            return b.obj, b.index
        if tag in ('abus', 'amap'):
            b = self.pick(self.live(self.abs), k)
            if b is None:
                return k, k
            self.labels.add('arg_bus')
            self.nontrivial = True
            if tag == 'amap':
                return b.obj.as_map(), f'a{b.index}'
            return b.obj, b.index
        if tag == 'buf':
            b = self.pick(self.live_bufs(), k)
            if b is None:
                return k, k
            self.labels.add('arg_buffer')
            self.nontrivial = True
            return b.obj, b.num
        if tag == 'node':
            n = self.pick(self.nodes, k)
            if n is None:
                return 1, 1
            return n.obj, n.id
        raise ValueError(f'bad value spec {spec!r}')

    def args(self, spec):
        """Synth args spec -> (python object, expected flat wire list)."""
        if spec is None:
            return None, []
        kind, items = spec
        if kind == 'dict':
            self.labels.add('args_dict')
            d, wire = {}, []
            for k, x in items:
                o, w = self.val(x)
                d[k] = o
                wire += [k, w]
            return d, wire
        objs, wire = [], []
        for x in items:
            o, w = self.val(x)
            objs.append(o)
            wire.append(w)
        self.labels.add('args_' + kind)
        return (objs if kind == 'list' else tuple(objs)), wire

    def target(self, spec):
        """-> (python target, expected target id)."""
        tag = spec[0]
        if tag == 'none':
            return None, 1
        if tag == 'server':
            return S, 1
        if tag == 'defg':
            return S.default_group, 1
        if tag == 'root':
            return 0, 0
        n = self.pick(self.nodes, spec[1])
        if n is None:
            return None, 1
        if tag == 'int':
            return n.id, n.id
        return n.obj, n.id

    def completion(self, spec, rec_or_num, idx=0):
        """-> (python completion argument, expected plain message | None)."""
        if spec is None:
            return None, None
        self.labels.add('completion')
        num = rec_or_num
        if spec in ('zero', 'fn_zero'):
            msg, exp = ['/b_zero', num], ['/b_zero', num]
        elif spec in ('query', 'fn_query'):
            msg, exp = ['/b_query', num], ['/b_query', num]
        elif spec == 'nested':
            msg = ['/b_zero', num, ['/b_query', num]]
            exp = ['/b_zero', num, {'completion': [['/b_query', num]]}]
        elif spec == 'nfree':
            n = self.pick(self.nodes, 0)
            nid = n.id if n else 1
            msg, exp = ['/n_free', nid], ['/n_free', nid]
        elif spec == 'sync':
            msg, exp = ['/sync', 7], ['/sync', 7]
        else:
            raise ValueError(spec)
        if spec.startswith('fn_'):
            # function form: evaluated by sc3 with the buffer (and index)
            name = msg[0]
            return (lambda buf, *_: [name, buf.bufnum]), exp
        return msg, exp

    # -- one op --------------------------------------------------------------------

    def fail(self, kind, detail):
        self.v.fail(kind, detail)

    def guarded(self, fn, refusals=()):
        """Run a client call. Returns ('ok', result) | ('refused', exc) |
        ('raised', exc)."""
        try:
            return 'ok', fn()
        except refusals as e:
            return 'refused', e
        except Exception as e:
            where = sc3_origin(e)
            if where is None:
                raise
            self.fail(f'sc3_raised:{type(e).__name__}@{where}', repr(e))
            return 'raised', e

    def new_node(self, obj, kind):
        nid = obj.node_id
        if nid in self.node_ids:
            self.fail('creation_id_not_fresh',
                      f'{kind} got node id {nid} already handed out')
        self.node_ids.add(nid)
        self.nodes.append(Rec(obj, id=nid, kind=kind))
        return nid

    def do(self, op):
        """Perform op; return list of expected items (plain messages, Alt,
        Perm)."""
        name = op[0]
        return getattr(self, 'op_' + name)(*op[1:])

    # nodes

    def op_synth(self, ctor, args, target, action):
        self.labels.add('synth_' + ctor)
        aobj, awire = self.args(args)
        tobj, tid = self.target(target)
        anum = ACTIONS[action]
        self.labels.add(f'action{anum}')
        self.labels.add('target_' + target[0])
        if ctor == 'new':
            st_, x = self.guarded(
                lambda: Synth(DEFNAME, aobj, tobj, action))
        elif ctor == 'paused':
            st_, x = self.guarded(
                lambda: Synth.new_paused(DEFNAME, aobj, tobj, action))
        elif ctor == 'grain':
            st_, x = self.guarded(
                lambda: Synth.grain(DEFNAME, aobj, tobj, action))
            if st_ != 'ok':
                return []
            return [self.s_new(args,
                               ['/s_new', DEFNAME, -1, anum, tid] + awire)]
        else:
            # convenience constructors need a node as target
            n = self.pick(self.nodes, target[1] if len(target) > 1 else 0)
            if n is None:
                self.labels.add('skipped')
                return []
            tobj, tid = n.obj, n.id
            if ctor in ('replace', 'replace_same'):
                anum = 4
                st_, x = self.guarded(lambda: Synth.replace(
                    tobj, DEFNAME, aobj, same_id=(ctor == 'replace_same')))
                if st_ == 'ok' and ctor == 'replace_same':
                    if x.node_id != tid:
                        self.fail('creation_id_mismatch',
                                  f'replace(same_id=True) got id {x.node_id}, '
                                  f'target has {tid}')
                    self.nodes.append(Rec(x, id=x.node_id, kind='synth'))
                    return [self.s_new(
                        args, ['/s_new', DEFNAME, tid, 4, tid] + awire)]
            else:
                anum = {'after': 3, 'before': 2, 'head': 0, 'tail': 1}[ctor]
                st_, x = self.guarded(lambda: getattr(Synth, ctor)(
                    tobj, DEFNAME, aobj))
        if st_ != 'ok':
            return []
        nid = self.new_node(x, 'synth')
        exp = [self.s_new(args, ['/s_new', DEFNAME, nid, anum, tid] + awire)]
        if ctor == 'paused':
            exp.append(['/n_run', nid, 0])
        return exp

    def s_new(self, args, good):
        """A dict whose value is an array meets a known deviation (values of
        dicts are not embedded as arrays): named separately."""
        if args and args[0] == 'dict' and any(
                isinstance(p[1], list) and p[1][0] in ('l', 't')
                for p in args[1]):
            self.labels.add('args_dict_array')
            return Alt([([good], None),
                        (Pred(1, lambda a: a[0][:5] == good[:5]),
                         'dict_array_value_not_embedded')])
        return good

    def op_group(self, cls, ctor, target, action):
        klass = Group if cls == 'Group' else ParGroup
        cmd = '/g_new' if cls == 'Group' else '/p_new'
        self.labels.add(f'{cls}_{ctor}')
        tobj, tid = self.target(target)
        anum = ACTIONS[action]
        if ctor == 'new':
            self.labels.add(f'action{anum}')
            self.labels.add('target_' + target[0])
            st_, g = self.guarded(lambda: klass(tobj, action))
        else:
            n = self.pick(self.nodes, target[1] if len(target) > 1 else 0)
            if n is None:
                self.labels.add('skipped')
                return []
            tobj, tid = n.obj, n.id
            anum = {'after': 3, 'before': 2, 'head': 0, 'tail': 1,
                    'replace': 4}[ctor]
            st_, g = self.guarded(lambda: getattr(klass, ctor)(tobj))
        if st_ != 'ok':
            return []
        nid = self.new_node(g, cls)
        return [[cmd, nid, anum, tid]]

    def node(self, k):
        n = self.pick(self.nodes, k)
        if n is None:
            self.labels.add('skipped')
        return n

    def op_set(self, k, items):
        n = self.node(k)
        if n is None:
            return []
        self.labels.add('set')
        objs, wire = [], []
        for x in items:
            o, w = self.val(x)
            objs.append(o)
            wire.append(w)
        st_, _ = self.guarded(lambda: n.obj.set(*objs))
        return [['/n_set', n.id] + wire] if st_ == 'ok' else []

    def op_setn(self, k, pairs):
        n = self.node(k)
        if n is None:
            return []
        self.labels.add('setn')
        objs, wire = [], []
        for c, x in pairs:
            o, w = self.val(x)
            objs += [c, o]
            if isinstance(w, list):
                wire += [c, len(w)] + w
            else:
                wire += [c, 1, w]
        st_, _ = self.guarded(lambda: n.obj.setn(*objs))
        return [['/n_setn', n.id] + wire] if st_ == 'ok' else []

    def busidx(self, lst, spec):
        """int bus argument: ['idx', k, off] -> an index inside a live bus,
        or -1 (unmap)."""
        b = self.pick(self.live(lst), spec[1])
        if b is None:
            return -1
        return b.index + spec[2] % b.channels

    def op_map(self, k, how, pairs):
        n = self.node(k)
        if n is None:
            return []
        self.labels.add(how)
        audio = how in ('mapa', 'mapan')
        lst = self.abs if audio else self.cbs
        objs, wire = [], []
        for c, x in pairs:
            if isinstance(x, list) and x[0] == 'idx':
                i = self.busidx(lst, x)
                o, w, ch = i, i, 1
            elif isinstance(x, list):
                b = self.pick(self.live(lst), x[1])
                if b is None:
                    o, w, ch = -1, -1, 1
                else:
                    o, w, ch = b.obj, b.index, b.channels
                    self.labels.add('arg_bus')
                    self.nontrivial = True
            else:
                o, w, ch = -1, -1, 1
            objs += [c, o]
            wire += [c, w] + ([ch] if how in ('mapn', 'mapan') else [])
        st_, _ = self.guarded(lambda: getattr(n.obj, how)(*objs))
        return [['/n_' + how, n.id] + wire] if st_ == 'ok' else []

    def op_nfill(self, k, triples):
        n = self.node(k)
        if n is None:
            return []
        self.labels.add('nfill')
        flat = [x for t in triples for x in t]
        st_, _ = self.guarded(lambda: n.obj.fill(*flat))
        return [['/n_fill', n.id] + flat] if st_ == 'ok' else []

    def op_release(self, k, time):
        n = self.node(k)
        if n is None:
            return []
        self.labels.add('release')
        if time is None:
            gate = 0
        elif time <= 0:
            gate = -1
        else:
            gate = -(time + 1)
        st_, _ = self.guarded(lambda: n.obj.release(time))
        return [['/n_set', n.id, 'gate', gate]] if st_ == 'ok' else []

    def op_run(self, k, flag):
        n = self.node(k)
        if n is None:
            return []
        self.labels.add('run')
        st_, _ = self.guarded(lambda: n.obj.run(flag))
        return [['/n_run', n.id, int(flag)]] if st_ == 'ok' else []

    def op_move(self, k, how, m):
        n = self.node(k)
        if n is None:
            return []
        self.labels.add('move_' + how)
        if how in ('before', 'after'):
            t = self.pick(self.nodes, m)
            st_, _ = self.guarded(
                lambda: getattr(n.obj, 'move_' + how)(t.obj))
            return [['/n_' + how, n.id, t.id]] if st_ == 'ok' else []
        cmd = '/g_head' if how.startswith('head') else '/g_tail'
        meth = 'move_to_head' if how.startswith('head') else 'move_to_tail'
        if how.endswith('_default'):
            st_, _ = self.guarded(lambda: getattr(n.obj, meth)())
            return [[cmd, 1, n.id]] if st_ == 'ok' else []
        groups = [x for x in self.nodes if x.kind != 'synth']
        g = self.pick(groups, m)
        if g is None:
            self.labels.add('skipped')
            return []
        st_, _ = self.guarded(lambda: getattr(n.obj, meth)(g.obj))
        return [[cmd, g.id, n.id]] if st_ == 'ok' else []

    def op_nfree(self, k, send):
        n = self.node(k)
        if n is None:
            return []
        self.labels.add('nfree')
        st_, _ = self.guarded(
            lambda: n.obj.free() if send else n.obj.free(False))
        if st_ != 'ok' or not send:
            return []
        return [['/n_free', n.id]]

    def op_gfree(self, k, how):
        groups = [x for x in self.nodes if x.kind != 'synth']
        g = self.pick(groups, k)
        if g is None:
            self.labels.add('skipped')
            return []
        self.labels.add('g_' + how)
        st_, _ = self.guarded(lambda: getattr(g.obj, how)())
        cmd = '/g_freeAll' if how == 'free_all' else '/g_deepFree'
        return [[cmd, g.id]] if st_ == 'ok' else []

    def op_reorder(self, ks, target, action):
        if not self.nodes:
            self.labels.add('skipped')
            return []
        self.labels.add('reorder')
        ns = [self.pick(self.nodes, k) for k in ks]
        tobj, tid = self.target(target)
        st_, _ = self.guarded(
            lambda: S.reorder([n.obj for n in ns], tobj, action))
        if st_ != 'ok':
            return []
        return [['/n_order', ACTIONS[action], tid] + [n.id for n in ns]]

    def op_free_defg(self):
        self.labels.add('free_default_group')
        st_, _ = self.guarded(lambda: S.free_default_group())
        return [['/g_freeAll', 1]] if st_ == 'ok' else []

    def op_def_send(self, comp):
        self.labels.add('def_send')
        cobj, cexp = self.completion(comp, 0)
        st_, _ = self.guarded(lambda: SDEF.send(S, cobj))
        if st_ != 'ok':
            return []
        m = ['/d_recv', {'blob': SDEF_BYTES.hex()}]
        if cexp is not None:
            m.append({'completion': [cexp]})
        return [m]

    # buffers

    def check_new_bufs(self, nums, what):
        live = self.live_buf_nums()
        for x in nums:
            if type(x) is not int:
                self.fail('creation_id_mismatch', f'{what}: bufnum {x!r}')
            elif x in live:
                self.fail('creation_id_not_fresh',
                          f'{what} got buffer number {x} owned by a live '
                          'Buffer')
            elif not 0 <= x < NPOOL['buffers']:
                self.fail('creation_id_not_fresh',
                          f'{what} got buffer number {x} outside the pool')

    def is_nospace(self, e):
        return type(e) is Exception and e.args and (
            str(e.args[0]).startswith('No block of')
            or str(e.args[0]).startswith('No more buffer'))

    def op_buf(self, how, frames, channels, srv, comp):
        self.labels.add('buf_' + how)
        server = S if srv else None
        if how == 'new':
            # completion may be a function of the buffer: number known late
            def mk():
                if comp is None:
                    return Buffer(frames, channels, server)
                if comp.startswith('fn_') or comp == 'nfree':
                    cobj, _ = self.completion(comp, None)
                    return Buffer(frames, channels, server,
                                  completion_msg=cobj)
                # a list that names the number: documented two-step form
                self.labels.add('buf_new_two_step')
                b = Buffer(frames, channels, server, alloc=False)
                cobj, _ = self.completion(comp, b.bufnum)
                b.alloc(cobj)
                return b
            st_, b = self.guarded(mk, (Exception,))
        elif how == 'noalloc':
            st_, b = self.guarded(
                lambda: Buffer(frames, channels, server, alloc=False),
                (Exception,))
        else:
            raise ValueError(how)
        if st_ == 'refused':
            if self.is_nospace(b):
                self.labels.add('alloc_refused')
                return []
            where = sc3_origin(b)
            if where is None:
                raise b
            self.fail(f'sc3_raised:{type(b).__name__}@{where}', repr(b))
            return []
        num = b.bufnum
        self.check_new_bufs([num], f'Buffer({how})')
        self.block_seq += 1
        self.bufs.append(Rec(b, num=num, frames=frames, channels=channels,
                             live=True, block=(self.block_seq, 0, 1)))
        self.buf_ever.add(num)
        if how == 'noalloc':
            return []
        m = ['/b_alloc', num, frames, channels]
        _, cexp = self.completion(comp, num)
        if cexp is not None:
            m.append({'completion': [cexp]})
        return [m]

    def op_balloc(self, k, comp):
        b = self.pick(self.live_bufs(), k)
        if b is None:
            self.labels.add('skipped')
            return []
        self.labels.add('buf_alloc')
        cobj, cexp = self.completion(comp, b.num)
        st_, _ = self.guarded(lambda: b.obj.alloc(cobj))
        if st_ != 'ok':
            return []
        m = ['/b_alloc', b.num, b.frames, b.channels]
        if cexp is not None:
            m.append({'completion': [cexp]})
        return [m]

    def op_bufs(self, n, frames, channels, srv, comp):
        self.labels.add('buf_consecutive')
        if not srv:
            self.labels.add('buf_consecutive_default_server')
        server = S if srv else None
        if comp is None:
            cobj = None
        else:
            cobj, _ = self.completion(comp, None)
        try:
            lst = Buffer.new_consecutive(n, frames, channels, server,
                                         completion_msg=cobj) \
                if server is not None else \
                Buffer.new_consecutive(n, frames, channels,
                                       completion_msg=cobj)
        except Exception as e:
            if self.is_nospace(e):
                self.labels.add('alloc_refused')
                return []
            where = sc3_origin(e)
            if where is None:
                raise
            self.fail(f'sc3_raised:{type(e).__name__}@{where}', repr(e))
            return []
        nums = [b.bufnum for b in lst]
        if len(nums) != n or nums != list(range(nums[0], nums[0] + n)):
            self.fail('creation_id_mismatch',
                      f'new_consecutive({n}) -> bufnums {nums}')
        self.check_new_bufs(nums, f'new_consecutive({n})')
        self.block_seq += 1
        exp = []
        for i, b in enumerate(lst):
            self.bufs.append(Rec(b, num=nums[i], frames=frames,
                                 channels=channels, live=True,
                                 block=(self.block_seq, i, n)))
            self.buf_ever.add(nums[i])
            m = ['/b_alloc', nums[i], frames, channels]
            _, cexp = self.completion(comp, nums[i])
            if cexp is not None:
                m.append({'completion': [cexp]})
            exp.append(m)
        return exp

    def op_new_cue(self, path, start, size, channels, comp):
        self.labels.add('buf_new_cue')
        cobj, cexp = self.completion(comp, None) if comp in (
            None, 'sync', 'nfree') else (None, None)
        st_, b = self.guarded(
            lambda: Buffer.new_cue(path, start, size, channels, S,
                                   completion_msg=cobj), (Exception,))
        if st_ == 'refused':
            if self.is_nospace(b):
                self.labels.add('alloc_refused')
                return []
            where = sc3_origin(b)
            if where is None:
                raise b
            self.fail(f'sc3_raised:{type(b).__name__}@{where}', repr(b))
            return []
        num = b.bufnum
        self.check_new_bufs([num], 'new_cue')
        self.block_seq += 1
        self.bufs.append(Rec(b, num=num, frames=size, channels=channels,
                             live=True, block=(self.block_seq, 0, 1)))
        self.buf_ever.add(num)
        rd = ['/b_read', num, path, start, size, 0, 1]
        if cexp is not None:
            rd.append({'completion': [cexp]})
        return [['/b_alloc', num, size, channels, {'completion': [rd]}]]

    def op_bop(self, k, name, *p):
        b = self.pick(self.live_bufs(), k)
        if b is None:
            self.labels.add('skipped')
            return []
        self.labels.add('b_' + name)
        num = b.num
        call, exp = getattr(self, 'b_' + name)(b, *p)
        st_, r = self.guarded(call, (BufferAlreadyFreed,))
        if st_ == 'refused':
            self.fail('unexpected_refusal',
                      f'Buffer.{name} on live buffer {num}: {r!r}')
            return []
        if st_ != 'ok':
            return []
        return exp

    def b_zero(self, b, comp):
        cobj, cexp = self.completion(comp, b.num)
        m = ['/b_zero', b.num]
        if cexp is not None:
            m.append({'completion': [cexp]})
        return (lambda: b.obj.zero(cobj)), [m]

    def b_close(self, b, comp):
        cobj, cexp = self.completion(comp, b.num)
        m = ['/b_close', b.num]
        if cexp is not None:
            m.append({'completion': [cexp]})
        return (lambda: b.obj.close(cobj)), [m]

    def b_set(self, b, pairs):
        flat = [x for p in pairs for x in p]
        return (lambda: b.obj.set(*flat)), [['/b_set', b.num] + flat]

    def b_setn(self, b, pairs):
        flat, wire = [], []
        for i, x in pairs:
            flat += [i, x]
            wire += [i, len(x)] + list(x) if isinstance(x, list) \
                else [i, 1, x]
        return (lambda: b.obj.setn(*flat)), [['/b_setn', b.num] + wire]

    def b_fill(self, b, start, count, values):
        return (lambda: b.obj.fill(start, count, values)), \
            [['/b_fill', b.num, start, int(count)] + list(values)]

    def flags(self, n, w, c):
        return int(n) + 2 * int(w) + 4 * int(c)

    def b_sine1(self, b, amps, n, w, c):
        return (lambda: b.obj.sine1(amps, n, w, c)), \
            [['/b_gen', b.num, 'sine1', self.flags(n, w, c)] + amps]

    def b_cheby(self, b, amps, n, w, c):
        return (lambda: b.obj.cheby(amps, n, w, c)), \
            [['/b_gen', b.num, 'cheby', self.flags(n, w, c)] + amps]

    def b_sine2(self, b, fa, n, w, c):
        fr, am = [x[0] for x in fa], [x[1] for x in fa]
        flat = [y for x in fa for y in x]
        return (lambda: b.obj.sine2(fr, am, n, w, c)), \
            [['/b_gen', b.num, 'sine2', self.flags(n, w, c)] + flat]

    def b_sine3(self, b, fap, n, w, c):
        fr, am, ph = ([x[i] for x in fap] for i in range(3))
        flat = [y for x in fap for y in x]
        return (lambda: b.obj.sine3(fr, am, ph, n, w, c)), \
            [['/b_gen', b.num, 'sine3', self.flags(n, w, c)] + flat]

    def b_gen(self, b, cmd, args, n, w, c):
        return (lambda: b.obj.gen(cmd, args, n, w, c)), \
            [['/b_gen', b.num, cmd, self.flags(n, w, c)] + list(args)]

    def b_normalize(self, b, new_max, wt):
        return (lambda: b.obj.normalize(new_max, wt)), \
            [['/b_gen', b.num, 'wnormalize' if wt else 'normalize', new_max]]

    def b_copy(self, b, k, dpos, spos, count):
        d = self.pick(self.live_bufs(), k) or b
        return (lambda: b.obj.copy_data(d.obj, dpos, spos, count)), \
            [['/b_gen', d.num, 'copy', dpos, b.num, spos, count]]

    def b_read(self, b, path, fstart, frames, bstart, leave):
        return (lambda: b.obj.read(path, fstart, frames, bstart, leave)), \
            [['/b_read', b.num, path, fstart, frames, bstart, int(leave),
              {'completion': [['/b_query', b.num]]}]]

    def b_write(self, b, path, header, sample, frames, start, leave, comp):
        cobj, cexp = self.completion(comp, b.num)
        m = ['/b_write', b.num, path, header, sample, frames, start,
             int(leave)]
        if cexp is not None:
            m.append({'completion': [cexp]})
        return (lambda: b.obj.write(path, header, sample, frames, start,
                                    leave, cobj)), [m]

    def b_alloc_read(self, b, path, start, frames, comp):
        cobj, cexp = self.completion(comp, b.num)
        m = ['/b_allocRead', b.num, path, start, frames]
        if cexp is not None:
            m.append({'completion': [cexp]})
        return (lambda: b.obj.alloc_read(path, start, frames, cobj)), [m]

    def b_cue(self, b, path, start, comp):
        # "Cue a sound file into the buffer for use with DiskIn": read the
        # buffer's worth of frames from start into frame 0, leave file open
        cobj, cexp = self.completion(comp, b.num)
        tail = [{'completion': [cexp]}] if cexp is not None else []
        good = ['/b_read', b.num, path, start, b.frames, 0, 1] + tail
        swapped = ['/b_read', b.num, path, start, 0, 1, b.frames] + tail
        return (lambda: b.obj.cue(path, start, cobj)), \
            [Alt([([good], None), ([swapped], 'cue_args_transposed')])]

    def op_bfree_group(self, k):
        """Free every member of a new_consecutive group, base first (the
        documented way to handle such a group)."""
        groups = {}
        for b in self.bufs:
            if b.block[2] > 1 and b.live:
                groups.setdefault(b.block[0], []).append(b)
        keys = sorted(groups)
        if not keys:
            self.labels.add('skipped')
            return []
        self.labels.add('bfree_group')
        exp = []
        for b in sorted(groups[keys[k % len(keys)]], key=lambda x: x.num):
            st_, _ = self.guarded(lambda: b.obj.free())
            if st_ != 'ok':
                return exp
            b.live = False
            self.freed['buffer'].add(b.num)
            exp.append(['/b_free', b.num])
        return exp

    def op_bfree(self, k, comp):
        cand = [b for b in self.bufs if not getattr(b, 'stale', False)
                and b.block[2] == 1]
        b = self.pick(cand, k)
        if b is None:
            self.labels.add('skipped')
            return []
        if b.live:
            self.labels.add('bfree')
            num = b.num
            cobj, cexp = self.completion(comp, num)
            st_, _ = self.guarded(lambda: b.obj.free(cobj))
            if st_ != 'ok':
                return []
            b.live = False
            self.freed['buffer'].add(num)
            m = ['/b_free', num]
            if cexp is not None:
                m.append({'completion': [cexp]})
            return [m]
        self.labels.add('bfree_twice')
        st_, _ = self.guarded(lambda: b.obj.free(), (BufferAlreadyFreed,))
        if st_ != 'ok':
            return []
        # owns nothing any more: nothing may be named
        return [Alt([([], None),
                     ([['/b_free', 0]], 'buffer_second_free_sends_b_free_0')])]

    def op_bfree_all(self, srv):
        live = self.live_bufs()
        self.labels.add('bfree_all')
        if len(live) >= 2:
            self.labels.add('bfree_all_multi')
            self.nontrivial = True
        st_, _ = self.guarded(
            lambda: Buffer.free_all(S) if srv else Buffer.free_all())
        if st_ != 'ok':
            return []
        every = [['/b_free', b.num] for b in live]
        # the specific known deviation: last number of every allocation
        # block (single buffers are blocks of one) gets no /b_free
        short = [['/b_free', b.num] for b in live
                 if b.block[1] != b.block[2] - 1]
        for b in self.bufs:
            if b.live:
                self.freed['buffer'].add(b.num)
            b.live = False
            b.stale = True
        if not live:
            return []
        return [Perm(every, (short, 'free_all_skips_last_of_block'))]

    # buses

    def op_bus(self, kind, channels, srv):
        self.labels.add('bus_' + kind)
        klass = ControlBus if kind == 'control' else AudioBus
        lst = self.cbs if kind == 'control' else self.abs
        st_, b = self.guarded(
            lambda: klass(channels, S) if srv else klass(channels),
            (BusException,))
        if st_ == 'refused':
            self.labels.add('alloc_refused')
            return []
        if st_ != 'ok':
            return []
        idx = b.index
        lo = 0 if kind == 'control' else 4
        rng = set(range(idx, idx + channels)) if type(idx) is int else None
        if rng is None or rng & self.bus_ranges(lst) or \
                not (lo <= idx and idx + channels <= lo + NPOOL[kind]):
            self.fail('creation_id_not_fresh',
                      f'{kind} bus ({channels} ch) got index {idx!r}; live '
                      f'{sorted(self.bus_ranges(lst))}')
        lst.append(Rec(b, index=idx, channels=channels, live=True))
        return []

    def op_busfree(self, kind, k):
        lst = self.cbs if kind == 'control' else self.abs
        b = self.pick(lst, k)
        if b is None:
            self.labels.add('skipped')
            return []
        self.labels.add('busfree' if b.live else 'busfree_twice')
        st_, _ = self.guarded(lambda: b.obj.free())
        if st_ == 'ok' and b.live:
            b.live = False
            self.freed[kind].update(range(b.index, b.index + b.channels))
        return []

    def op_cop(self, k, name, *p):
        b = self.pick(self.live(self.cbs), k)
        if b is None:
            self.labels.add('skipped')
            return []
        self.labels.add('c_' + name)
        ch = b.channels
        i0 = b.index
        if name == 'set':
            vals = p[0][:ch]
            call = lambda: b.obj.set(*vals)
            exp = ['/c_set'] + [x for j, v in enumerate(vals)
                                for x in (i0 + j, v)]
        elif name == 'setn':
            vals = p[0][:ch]
            call = lambda: b.obj.setn(vals)
            exp = ['/c_setn', i0, len(vals)] + vals
        elif name == 'set_at':
            off = p[0] % ch
            vals = p[1][:ch - off]
            call = lambda: b.obj.set_at(off, *vals)
            exp = ['/c_set'] + [x for j, v in enumerate(vals)
                                for x in (i0 + off + j, v)]
        elif name == 'setn_at':
            off = p[0] % ch
            vals = p[1][:ch - off]
            call = lambda: b.obj.setn_at(off, vals)
            exp = ['/c_setn', i0 + off, len(vals)] + vals
        elif name == 'set_pairs':
            prs = [(o % ch, v) for o, v in p[0]]
            flat = [x for pr in prs for x in pr]
            call = lambda: b.obj.set_pairs(*flat)
            exp = ['/c_set'] + [x for o, v in prs for x in (i0 + o, v)]
        elif name == 'fill':
            n = 1 + p[1] % ch
            call = lambda: b.obj.fill(p[0], n)
            exp = ['/c_fill', i0, n, p[0]]
        elif name == 'clear':
            call = lambda: b.obj.clear()
            exp = ['/c_fill', i0, ch, 0]
        else:
            raise ValueError(name)
        st_, r = self.guarded(call, (BusAlreadyFreed,))
        if st_ == 'refused':
            self.fail('unexpected_refusal',
                      f'ControlBus.{name} on live bus: {r!r}')
            return []
        if st_ != 'ok':
            return []
        return [exp]

    # -- checking what was emitted ---------------------------------------------------

    def check_messages(self, wire_msgs, where):
        """Reference + id clauses on wire messages (pre-state ids plus the
        ones handed out during the op/block are acceptable)."""
        bufs = self.pre_bufs | self.buf_ever
        # (a bus allocated and freed again inside one bind block was the
        # client's own when the command that names it was issued)
        cbus = self.pre_cbus | self.bus_ranges(self.cbs) | self.cbus_ever
        abus = self.pre_abus | self.bus_ranges(self.abs) | self.abus_ever
        for m in wire_msgs:
            p = cmdref.parse(m)
            for pr in p.problems:
                self.fail('cmdref:' + pr.code, f'{where}: {pr} in '
                          f'{osc_ref.to_plain(m)}')
            for mt in p.mentions:
                if mt.role in ('node', 'group', 'target', 'node_new'):
                    ok = mt.value in self.node_ids or (
                        mt.role == 'node_new' and mt.command == '/s_new'
                        and mt.value == -1)
                    if not ok:
                        self.fail('mentions_unallocated_node',
                                  f'{where}: {mt.where} names node '
                                  f'{mt.value}; handed out: '
                                  f'{sorted(self.node_ids)}')
                elif mt.role == 'buffer':
                    if mt.value not in bufs:
                        self.fail('mentions_unallocated_buffer',
                                  f'{where}: {mt.where} names buffer '
                                  f'{mt.value}; owned: {sorted(bufs)}')
                elif mt.role in ('cbus', 'abus'):
                    pool = cbus if mt.role == 'cbus' else abus
                    if mt.value == -1 and mt.command.startswith('/n_map'):
                        continue
                    need = set(range(mt.value, mt.value + max(mt.extent, 1)))
                    if not need <= pool:
                        self.fail('mentions_unallocated_bus',
                                  f'{where}: {mt.where} names {mt.role} '
                                  f'{sorted(need)}; owned: {sorted(pool)}')

    def snapshot(self):
        self.pre_bufs = self.live_buf_nums()
        self.pre_cbus = self.bus_ranges(self.cbs)
        self.pre_abus = self.bus_ranges(self.abs)
        self.buf_ever = set()
        self.cbus_ever = set()
        self.abus_ever = set()

    def note_buses(self):
        self.cbus_ever |= self.bus_ranges(self.cbs)
        self.abus_ever |= self.bus_ranges(self.abs)

    def compare(self, exp, calls, where, kind):
        wire = []
        for c in calls:
            if c.bad:
                self.fail('wire_undecodable', f'{where}: {c.bad}')
                return
            wire.extend(c.wire)
        act = [strip_absent(m) for m in wire]
        dev = match(exp, act)
        # messages explained by a specific (named) deviation are reported
        # once, under that name, not again through the other clauses
        skip = {k for _, idx in (dev or []) for k in idx}
        self.check_messages(
            [m for k, m in enumerate(wire) if k not in skip], where)
        if dev is None:
            self.fail(kind, f'{where}: expected {canon(show_exp(exp))} got '
                      f'{canon(act)}')
            return
        for d, _ in dev:
            self.fail(d, f'{where}: got {canon(act)}')

    # -- top level / bind --------------------------------------------------------------

    def run_top(self, ops):
        for i, op in enumerate(ops):
            where = f'op {i} {json.dumps(op)[:160]}'
            if op[0] == 'bind':
                self.run_bind(op, where)
                continue
            n0 = len(CAP.calls)
            self.snapshot()
            exp = self.do(op)
            self.compare(exp, CAP.calls[n0:], where, 'emitted_mismatch')

    def run_bind(self, op, where):
        _, inner, exc = op
        self.labels.add('bind')
        n0 = len(CAP.calls)
        self.snapshot()
        addr0 = S.addr
        sink = []
        outcome = self.bind_block(inner, exc, sink, where, addr0, 1)
        if S.addr is not addr0:
            self.fail('bind_addr_not_restored',
                      f'{where}: server.addr is {S.addr!r} after the block')
            S._addr = addr0
        calls = CAP.calls[n0:]
        if outcome == 'sc3_raised':
            return
        if outcome == 'flush_failed':
            # the bundle is lost with the failing transport; the block is
            # over: later commands go to the real address again (checked
            # above and by the comparison of every later op)
            self.labels.add('bind_flush_failed')
            self.nontrivial = True
            if calls:
                self.fail('bind_sent_on_exception',
                          f'{where}: flush failed but '
                          f'{[c.raw for c in calls]} reached the interface')
            return
        if outcome == 'raised':
            self.labels.add('bind_raised')
            if calls:
                self.fail('bind_sent_on_exception',
                          f'{where}: block raised but '
                          f'{[c.raw for c in calls]} reached the interface')
            return
        ncmd = sum(len(e.msgs) if isinstance(e, Perm) else 1
                   for e in show_exp_items(sink))
        self.labels.add(f'bind_len_{min(ncmd, 6)}')
        if ncmd >= 2:
            self.nontrivial = True
        if len(calls) > 1 or any(c.kind != 'bundle' for c in calls):
            self.fail('bind_not_one_bundle',
                      f'{where}: {len(calls)} interface calls '
                      f'{[(c.kind, c.raw) for c in calls]}')
            return
        self.compare(sink, calls, where,
                     'bind_bundle_mismatch' if calls else 'bind_nothing_sent')

    def bind_block(self, inner, exc, sink, where, outer_addr, depth):
        """Runs `with S.bind():` around inner ops. Returns 'ok' | 'raised'
        (generated exception left the block) | 'sc3_raised'."""
        n_calls = len(CAP.calls)
        mine = []
        flush = bool(exc) and exc['type'] == 'Flush'
        if flush:
            # the transport fails when the (outermost) block flushes
            exc = None
            flush = depth == 1
        flush_err = OSError(90, 'generated: message too long')
        etype = EXC_TYPES[exc['type']] if exc else None
        try:
            with S.bind() as baddr:
                for j in range(len(inner) + 1):
                    if exc and exc['k'] == j:
                        raise etype('generated')
                    if j == len(inner):
                        if flush:
                            CAP.fail_flush = flush_err
                        break
                    op = inner[j]
                    if op[0] == 'bind':
                        self.labels.add('bind_nested')
                        sub = []
                        r = self.nested(op, sub, where, baddr, depth + 1)
                        if r == 'ok':
                            mine.extend(sub)
                        elif r == 'propagate':
                            raise self._pending
                    else:
                        mine.extend(self.do(op))
                        self.note_buses()
                    if len(CAP.calls) != n_calls:
                        self.fail('bind_leaked_during_block',
                                  f'{where}: inner op {j} {op[0]} reached the '
                                  f'interface: {CAP.calls[-1].raw}')
                        n_calls = len(CAP.calls)
                    if S.addr is not baddr:
                        self.fail('bind_addr_not_restored',
                                  f'{where}: inside the block after inner op '
                                  f'{j} server.addr is {S.addr!r}')
                        S._addr = baddr
        except BaseException as e:
            CAP.fail_flush = None
            if e is flush_err:
                return 'flush_failed'
            if etype is not None and type(e) is etype and \
                    e.args == ('generated',):
                return 'raised'
            if getattr(self, '_pending', None) is e:
                return 'raised'
            if isinstance(e, Exception) and sc3_origin(e) is not None:
                self.fail(f'sc3_raised:{type(e).__name__}@{sc3_origin(e)}',
                          f'{where}: at block exit: {e!r}')
                return 'sc3_raised'
            raise
        # a block with nothing to flush never meets the fault
        CAP.fail_flush = None
        sink.extend(mine)
        return 'ok'

    def nested(self, op, sink, where, outer_baddr, depth):
        _, inner, exc = op
        inner = [x for x in inner if x[0] != 'bind']   # nested once
        r = self.bind_block(inner, exc, sink, where + ' (nested)',
                            outer_baddr, depth)
        if S.addr is not outer_baddr:
            self.fail('bind_addr_not_restored',
                      f'{where}: after the nested block server.addr is '
                      f'{S.addr!r}, not the outer block\'s proxy')
            S._addr = outer_baddr
        if r == 'raised':
            self.labels.add('bind_nested_raised')
            if exc and not exc.get('catch', True):
                self._pending = C17Exc('propagated')
                return 'propagate'
            return 'dropped'
        if r == 'sc3_raised':
            return 'dropped'
        return 'ok'

    # -- end of history -----------------------------------------------------------------

    def drain(self):
        CAP.on = False
        try:
            got = {'buffer': set(), 'control': set(), 'audio': set()}
            for _ in range(NPOOL['buffers'] + 2):
                try:
                    got['buffer'].add(Buffer(1, 1, S, alloc=False).bufnum)
                except Exception as e:
                    if self.is_nospace(e):
                        break
                    raise
            for kind, klass in (('control', ControlBus), ('audio', AudioBus)):
                for _ in range(NPOOL[kind] + 2):
                    try:
                        got[kind].add(klass(1, S).index)
                    except BusException:
                        break
        finally:
            CAP.on = True
        live = {'buffer': self.live_buf_nums(),
                'control': self.bus_ranges(self.cbs),
                'audio': self.bus_ranges(self.abs)}
        for kind in got:
            both = got[kind] & live[kind]
            if both:
                self.fail('allocator_handed_out_live_id',
                          f'{kind}: {sorted(both)} owned by live objects were '
                          'handed out again')
            lost = (self.freed[kind] - live[kind]) - got[kind]
            if lost:
                self.fail('freed_id_not_returned',
                          f'{kind}: {sorted(lost)} were freed but cannot be '
                          f'allocated again (drained: {sorted(got[kind])})')

    def score_crosscheck(self):
        """The NRT score must hold exactly the captured messages."""
        cap = []
        for c in CAP.calls:
            if c.bad:
                return
            cap.extend(canon(osc_ref.to_plain(m)) for m in c.wire)
        score = main.process(0)
        got = []
        for pkt in osc_ref.split_size_prefixed(bytes(score.raw)):
            for _, m in osc_ref.flatten(osc_ref.decode_packet(pkt)):
                got.append(canon(osc_ref.to_plain(m)))
        if got and got[0] == canon(osc_ref.to_plain(osc_ref.Message(
                '/g_new', 'iii', [1, 0, 0]))):
            got = got[1:]
        if got and got[-1] == canon(osc_ref.to_plain(osc_ref.Message(
                '/c_set', 'ii', [0, 0]))):
            got = got[:-1]
        if sorted(got) != sorted(cap):
            self.fail('score_differs_from_capture',
                      f'score {got} captured {cap}')


def run_history(case, v):
    reset_world(case)
    r = Run(case, v)
    try:
        r.run_top(case['ops'])
        r.score_crosscheck()
        r.drain()
    finally:
        # never leave a proxy address behind for the next case
        if isinstance(S.addr, BundleNetAddr):
            a = S.addr
            while isinstance(a, BundleNetAddr):
                a = a._save_addr
            S._addr = a
        SHIM.tape = None
    return {'nontrivial': r.nontrivial, 'labels': sorted(r.labels)}


# --- strategies ----------------------------------------------------------------------------

K = st.integers(0, 5)
CTL = st.one_of(st.sampled_from(['freq', 'amp', 'gate', 'out', 'in', 'buf',
                                 'pan']), st.integers(0, 7))
INT = st.one_of(st.integers(-3, 12), st.sampled_from([440, 1000, 2 ** 20]))
FLT = st.integers(-256, 2048).map(lambda k: k / 64)
NUM = st.one_of(INT, FLT)
REF = st.one_of(
    st.tuples(st.sampled_from(['cbus', 'abus', 'buf', 'cmap', 'amap']),
              K).map(list))
LEAF = st.one_of(NUM, NUM, REF)
ARR = st.tuples(st.sampled_from(['l', 'l', 't']),
                st.lists(st.one_of(LEAF, LEAF, LEAF, st.tuples(
                    st.sampled_from(['l', 't']),
                    st.lists(NUM, min_size=1, max_size=3)).map(list)),
                    min_size=1, max_size=4)).map(list)
VAL = st.one_of(NUM, NUM, REF, ARR)
SCALAR_VAL = st.one_of(NUM, NUM, REF)


def pairs_flat(val, lo=0, hi=3):
    return st.lists(st.tuples(CTL, val), min_size=lo, max_size=hi).map(
        lambda ps: [x for p in ps for x in p])


ARGS = st.one_of(
    st.none(),
    pairs_flat(VAL, 1, 3).map(lambda f: ['list', f]),
    pairs_flat(VAL, 1, 3).map(lambda f: ['tuple', f]),
    st.lists(st.tuples(CTL, SCALAR_VAL), min_size=1, max_size=3,
             unique_by=lambda p: (type(p[0]).__name__, p[0])).map(
        lambda ps: ['dict', [list(p) for p in ps]]),
)
# dict with an array value: arrays are documented control values and dicts
# are accepted for args; kept rare (it hits a known defect)
ARGS_DICT_ARRAY = st.tuples(CTL, ARR).map(lambda p: ['dict', [list(p)]])

TARGET = st.one_of(
    st.just(['none']), st.just(['server']), st.just(['defg']),
    st.just(['root']),
    st.tuples(st.just('node'), K).map(list),
    st.tuples(st.just('node'), K).map(list),
    st.tuples(st.just('int'), K).map(list))
ACTION = st.sampled_from(list(ACTIONS))
COMP = st.sampled_from([None, None, None, 'zero', 'query', 'fn_zero',
                        'fn_query', 'nested', 'nfree'])
PATH = st.sampled_from(['/tmp/c17_a.wav', '/tmp/c17 b.aiff', 'rel/c.wav'])
FLAG = st.booleans()
FRAMES = st.sampled_from([1, 8, 64, 512])
NUMS = st.lists(NUM, min_size=1, max_size=4)


def _u(*alts):
    """Uniform choice among alternatives that is not flattened into an
    enclosing one_of."""
    return st.sampled_from(range(len(alts))).flatmap(lambda i: alts[i])


def t(*xs):
    return st.tuples(*[x if isinstance(x, st.SearchStrategy) else st.just(x)
                       for x in xs]).map(list)


SYNTH = st.one_of(
    t('synth', st.sampled_from(['new', 'new', 'new', 'paused', 'grain',
                                'after', 'before', 'head', 'tail', 'replace',
                                'replace_same']), ARGS, TARGET, ACTION),
)
SYNTH_DICT_ARRAY = t('synth', st.sampled_from(['new', 'grain', 'tail']),
                     ARGS_DICT_ARRAY, TARGET, ACTION)
GROUP = t('group', st.sampled_from(['Group', 'Group', 'ParGroup']),
          st.sampled_from(['new', 'new', 'new', 'after', 'before', 'head',
                           'tail', 'replace']), TARGET, ACTION)
BUSARG = st.one_of(t('bus', K), t('bus', K), t('idx', K, st.integers(0, 3)),
                   st.just(-1))
NODEOP = _u(
    t('set', K, pairs_flat(VAL, 1, 3)),
    t('set', K, pairs_flat(VAL, 1, 3)),
    t('setn', K, st.lists(st.tuples(CTL, st.one_of(
        NUM, st.lists(NUM, min_size=1, max_size=4).map(
            lambda x: ['l', x]))).map(list), min_size=1, max_size=3)),
    t('map', K, st.sampled_from(['map', 'mapn', 'mapa', 'mapan']),
      st.lists(st.tuples(CTL, BUSARG).map(list), min_size=1, max_size=3)),
    t('nfill', K, st.lists(st.tuples(CTL, st.integers(1, 4), NUM).map(list),
                           min_size=1, max_size=2)),
    t('release', K, st.sampled_from([None, None, 0, -1, 2, 0.5, 1.5])),
    t('run', K, FLAG),
    t('move', K, st.sampled_from(['before', 'after', 'head', 'tail',
                                  'head_default', 'tail_default']), K),
    t('nfree', K, st.sampled_from([True, True, True, False])),
    t('gfree', K, st.sampled_from(['free_all', 'deep_free'])),
    t('reorder', st.lists(K, min_size=1, max_size=3), TARGET,
      st.sampled_from(['addToHead', 'addToTail', 'addBefore', 'addAfter',
                       'head', 't', 2, 3])),
    t('free_defg'),
)
BUFNEW = st.one_of(
    t('buf', 'new', FRAMES, st.integers(1, 3), FLAG, COMP),
    t('buf', 'new', FRAMES, st.integers(1, 3), FLAG, COMP),
    t('buf', 'noalloc', FRAMES, st.integers(1, 3), FLAG, None),
    t('bufs', st.integers(1, 4), FRAMES, st.integers(1, 2), True,
      st.sampled_from([None, None, 'fn_zero', 'fn_query'])),
    t('new_cue', PATH, st.integers(0, 9), st.sampled_from([64, 512]),
      st.integers(1, 2), st.sampled_from([None, 'sync', 'nfree'])),
)
BUFS_DEFAULT_SERVER = t('bufs', st.integers(1, 3), FRAMES, 1, False, None)
SMALL = st.integers(0, 7)
BUFOP = _u(
    t('bop', K, 'zero', COMP),
    t('bop', K, 'set', st.lists(st.tuples(SMALL, NUM).map(list), min_size=1,
                                max_size=3)),
    t('bop', K, 'setn', st.lists(st.tuples(SMALL, st.one_of(NUM, NUMS)).map(
        list), min_size=1, max_size=2)),
    t('bop', K, 'fill', SMALL, st.one_of(st.integers(1, 8),
                                         st.sampled_from([4.0, 2.0])),
      st.tuples(NUM, st.lists(st.tuples(SMALL, st.integers(1, 4), NUM),
                              max_size=1)).map(
          lambda p: [p[0]] + [x for tr in p[1] for x in tr])),
    t('bop', K, 'sine1', NUMS, FLAG, FLAG, FLAG),
    t('bop', K, 'cheby', NUMS, FLAG, FLAG, FLAG),
    t('bop', K, 'sine2', st.lists(st.tuples(NUM, NUM).map(list), min_size=1,
                                  max_size=3), FLAG, FLAG, FLAG),
    t('bop', K, 'sine3', st.lists(st.tuples(NUM, NUM, NUM).map(list),
                                  min_size=1, max_size=3), FLAG, FLAG, FLAG),
    t('bop', K, 'gen', st.sampled_from(['sine1', 'cheby']), NUMS, FLAG, FLAG,
      FLAG),
    t('bop', K, 'normalize', st.sampled_from([1, 0.5, 2]), FLAG),
    t('bop', K, 'copy', K, SMALL, SMALL, st.sampled_from([-1, 4, 16])),
    t('bop', K, 'close', COMP),
    t('bop', K, 'read', PATH, SMALL, st.sampled_from([-1, 8]), SMALL, FLAG),
    t('bop', K, 'write', PATH, st.sampled_from(['aiff', 'wav']),
      st.sampled_from(['int24', 'float']), st.sampled_from([-1, 8]), SMALL,
      FLAG, COMP),
    t('bop', K, 'alloc_read', PATH, SMALL, st.sampled_from([-1, 8]), COMP),
    t('balloc', K, COMP),
)
BUFCUE = t('bop', K, 'cue', PATH, SMALL, st.sampled_from([None, 'query']))
BUFFREE = st.one_of(t('bfree', K, COMP), t('bfree', K, COMP),
                    t('bfree', K, None), t('bfree_group', K))
BUFFREEALL = t('bfree_all', FLAG)
BUSNEW = st.one_of(t('bus', 'control', st.integers(1, 4), FLAG),
                   t('bus', 'audio', st.integers(1, 4), FLAG))
BUSOP = _u(
    t('cop', K, 'set', NUMS), t('cop', K, 'setn', NUMS),
    t('cop', K, 'set_at', st.integers(0, 3), NUMS),
    t('cop', K, 'setn_at', st.integers(0, 3), NUMS),
    t('cop', K, 'set_pairs', st.lists(st.tuples(st.integers(0, 3), NUM).map(
        list), min_size=1, max_size=3)),
    t('cop', K, 'fill', NUM, st.integers(0, 3)),
    t('cop', K, 'clear'),
    t('busfree', st.sampled_from(['control', 'audio']), K),
    t('busfree', st.sampled_from(['control', 'audio']), st.integers(0, 1)),
)
DEFOP = t('def_send', st.sampled_from([None, 'sync', 'nfree']))

def weighted(*pairs):
    """Explicit weights (st.one_of flattens nested alternatives, which
    makes repetition a poor way to weight)."""
    idx = [i for i, (w, _) in enumerate(pairs) for _ in range(w)]
    strats = [s_ for _, s_ in pairs]
    return st.sampled_from(idx).flatmap(lambda i: strats[i])


PLAIN_OP = weighted(
    (32, NODEOP), (14, BUFOP), (10, SYNTH), (9, BUSOP), (7, BUFNEW),
    (6, BUFFREE), (5, GROUP), (5, BUSNEW), (1, DEFOP),
    # ops that meet known deviations: kept (so that they stay reproduced)
    # but rare (so that the search goes on behind them)
    (3, BUFFREEALL), (1, BUFCUE), (1, st.one_of(SYNTH_DICT_ARRAY,
                                                BUFS_DEFAULT_SERVER)),
)
EXC = st.one_of(
    st.none(), st.none(),
    st.fixed_dictionaries({'k': st.integers(0, 6),
                           'type': st.sampled_from(sorted(EXC_TYPES)),
                           'catch': st.booleans()}),
    st.just({'k': -1, 'type': 'Flush', 'catch': True}))


def _fix_exc(b):
    name, inner, exc = b
    if exc is not None and exc['type'] != 'Flush':
        exc = dict(exc, k=min(exc['k'], len(inner)))
    return [name, inner, exc]


NESTED_BIND = st.tuples(st.just('bind'),
                        st.lists(PLAIN_OP, min_size=0, max_size=3),
                        EXC).map(_fix_exc)
BIND = st.tuples(
    st.just('bind'),
    st.lists(weighted((6, PLAIN_OP), (1, NESTED_BIND)), min_size=0,
             max_size=6),
    EXC).map(_fix_exc)

PRE_BUF = ['buf', 'new', 64, 1, True, None]
PRE_BUS = ['bus', 'control', 3, True]
NODE_CREATE = weighted((3, SYNTH), (2, GROUP))
CREATE = weighted((3, SYNTH), (2, GROUP), (3, BUFNEW), (3, BUSNEW))


def history_strategy():
    return st.fixed_dictionaries({
        'ops': st.tuples(
            NODE_CREATE,
            st.lists(CREATE, min_size=1, max_size=4),
            st.lists(weighted((4, PLAIN_OP), (1, BIND)),
                     min_size=1, max_size=11)).map(
            lambda p: [p[0], PRE_BUF, PRE_BUS] + p[1] + p[2]),
        'tape': st.lists(st.integers(0, 7), min_size=0, max_size=6),
    })


# --- enumerated: completion messages ---------------------------------------------------------

def completion_cases(ctx):
    comps = [None, 'zero', 'query', 'fn_zero', 'fn_query', 'nested', 'nfree']
    k = 0
    for comp in comps:
        for meth in ('new', 'balloc', 'zero', 'close', 'bfree', 'write',
                     'alloc_read', 'bufs', 'cue'):
            for inbind in (False, True):
                if k % ctx.nshards == ctx.shard:
                    pre = [['synth', 'new', None, ['none'], 'addToHead'],
                           ['buf', 'noalloc', 8, 1, True, None]]
                    if meth == 'new':
                        op = ['buf', 'new', 8, 2, True, comp]
                    elif meth == 'balloc':
                        op = ['balloc', 0, comp]
                    elif meth == 'bfree':
                        op = ['bfree', 0, comp]
                    elif meth == 'write':
                        op = ['bop', 0, 'write', '/tmp/c17.aiff', 'aiff',
                              'int24', -1, 0, False, comp]
                    elif meth == 'alloc_read':
                        op = ['bop', 0, 'alloc_read', '/tmp/c17.aiff', 0, -1,
                              comp]
                    elif meth == 'bufs':
                        if comp not in (None, 'fn_zero', 'fn_query'):
                            k += 1
                            continue
                        op = ['bufs', 3, 8, 1, True, comp]
                    elif meth == 'cue':
                        if comp not in (None, 'query'):
                            k += 1
                            continue
                        op = ['bop', 0, 'cue', '/tmp/c17.aiff', 3, comp]
                    else:
                        op = ['bop', 0, meth, comp]
                    ops = pre + ([['bind', [op], None]] if inbind else [op])
                    yield {'ops': ops, 'tape': []}
                k += 1


def finding_cases(ctx):
    """Smallest histories of the ledger's suspicions and of what the search
    found, so that every run decides them whatever the seed."""
    syn = ['synth', 'new', None, ['none'], 'addToHead']
    buf = ['buf', 'new', 8, 1, True, None]
    cases = [
        [buf, buf, ['bfree_all', True]],
        [['bufs', 3, 8, 1, True, None], ['bfree_all', False]],
        [buf, ['bufs', 2, 8, 1, True, None], buf, ['bfree_all', True]],
        [buf, buf, ['bfree', 1, None], ['bfree', 1, None]],
        [buf, ['bfree', 0, 'zero'], ['bfree', 0, None], buf],
        [syn, ['synth', 'new', ['dict', [['freq', ['l', [110, 220]]]]],
               ['none'], 'addToHead']],
        [syn, ['synth', 'tail', ['dict', [['freq', ['t', [110, 220]]]]],
               ['node', 0], 'addToHead']],
        [['bus', 'control', 2, True],
         ['synth', 'grain', ['dict', [['freq', ['l', [['cmap', 0]]]]]],
          ['server'], 'addToTail']],
        [['bufs', 2, 8, 1, False, None]],
        [['buf', 'new', 64, 1, True, None],
         ['bop', 0, 'cue', '/tmp/c17.wav', 3, None]],
    ]
    k = 0
    for ops in cases:
        for inbind in (False, True):
            if k % ctx.nshards == ctx.shard:
                if inbind:
                    yield {'ops': ops[:-1] + [['bind', [ops[-1]], None]],
                           'tape': []}
                else:
                    yield {'ops': ops, 'tape': []}
            k += 1


# --- stage: servers ----------------------------------------------------------------------
# Two servers: every command of a node goes to the node's own server, and a
# default target (none given) is that server's default group.

SERVER_B = []


def run_servers(case, v):
    from sc3.synth.server import Server
    from sc3.base.netaddr import NetAddr
    reset_world(case)
    if not SERVER_B:
        SERVER_B.append(Server('c17-b', NetAddr('127.0.0.1', 57199)))
    servers = {'a': S, 'b': SERVER_B[0]}
    nodes = []
    labels = set()
    for i, op in enumerate(case['ops']):
        n0 = len(CAP.calls)
        where = f'op {i} {op}'
        if op[0] == 'new':
            _, cls, which, how = op
            srv = servers[which]
            target = {'server': srv, 'group': srv.default_group}[how]
            if cls == 'synth':
                node = Synth(DEFNAME, None, target)
            else:
                node = Group(target)
            nodes.append((node, which))
            exp_cmd = '/s_new' if cls == 'synth' else '/g_new'
        else:
            _, k, how = op
            if not nodes:
                continue
            node, which = nodes[k % len(nodes)]
            srv = servers[which]
            getattr(node, 'move_to_' + how)()     # no target given
            exp_cmd = '/g_' + how
            labels.add('default_target_on_' + which)
        calls = CAP.calls[n0:]
        msgs = [(c.target, m) for c in calls for m in c.raw]
        if not v.check(len(msgs) == 1 and msgs[0][1][0] == exp_cmd,
                       'emitted_mismatch', f'{where}: {msgs}'):
            break
        tgt, m = msgs[0]
        got = (tgt.hostname, tgt.port) if hasattr(tgt, 'hostname') else tuple(
            tgt) if isinstance(tgt, (list, tuple)) else tgt
        want = (srv.addr.hostname, srv.addr.port)
        v.check(got == want, 'command_sent_to_other_server',
                f'{where}: {m} went to {got}, the node lives on {want}')
        if op[0] == 'move':
            v.check(list(m[1:]) == [srv.default_group.node_id, node.node_id],
                    'emitted_mismatch',
                    f'{where}: {m}, expected {exp_cmd} '
                    f'{srv.default_group.node_id} {node.node_id}')
            v.check(node.group is srv.default_group or getattr(
                node.group, 'node_id', None) == srv.default_group.node_id
                and node.group.server is srv, 'node_group_on_other_server',
                f'{where}: node.group = {node.group!r}')
        if v.items:
            break
    return {'nontrivial': 'default_target_on_b' in labels,
            'labels': sorted(labels)}


def server_cases():
    new = st.tuples(st.just('new'), st.sampled_from(['synth', 'group']),
                    st.sampled_from(['a', 'b', 'b']),
                    st.sampled_from(['server', 'group'])).map(list)
    move = st.tuples(st.just('move'), st.integers(0, 5),
                     st.sampled_from(['head', 'tail'])).map(list)
    return st.fixed_dictionaries({
        'ops': st.lists(st.one_of(new, move, move), min_size=2, max_size=8)})


def stages(ctx):
    return [
        Stage('servers', run_servers, server_cases(), quick=150,
              thorough=1500),
        Stage('findings', run_history, cases=finding_cases),
        Stage('completion', run_history, cases=completion_cases,
              exhaustive=False),
        Stage('history', run_history, history_strategy(),
              quick=3500, thorough=10000),
    ]


# --- known findings ------------------------------------------------------------------------------

def _ops(case):
    for op in case.get('ops', []):
        if op[0] == 'bind':
            for x in op[1]:
                if x[0] == 'bind':
                    for y in x[1]:
                        yield y
                else:
                    yield x
        else:
            yield op


def classify_known(stage, case, viol):
    kind = viol.kind
    ops = list(_ops(case))
    if kind == 'free_all_skips_last_of_block' and any(
            o[0] == 'bfree_all' for o in ops):
        return 'free_all_skips_last_of_block'
    if kind == 'buffer_second_free_sends_b_free_0' and any(
            o[0] == 'bfree' for o in ops):
        return 'buffer_second_free_sends_b_free_0'
    dict_array = any(
        o[0] == 'synth' and o[2] and o[2][0] == 'dict' and any(
            isinstance(p[1], list) and p[1][0] in ('l', 't')
            for p in o[2][1]) for o in ops)
    # one root cause, several symptoms: the nested sequence reaches the
    # encoder / the size arithmetic as if it were a completion message, a
    # bundle or an unsupported type
    if dict_array and (
            kind == 'dict_array_value_not_embedded' or (
                kind.startswith('sc3_raised:') and kind.split('@')[-1].split(
                    ':')[0] in ('base/_oscinterface.py', 'base/_osclib.py',
                                'base/netaddr.py'))):
        return 'dict_args_array_value_not_embedded'
    if kind == 'sc3_raised:AttributeError@synth/buffer.py:new_consecutive' \
            and any(o[0] == 'bufs' and o[4] is False for o in ops):
        return 'new_consecutive_default_server_raises'
    if kind == 'cue_args_transposed' and any(
            o[0] == 'bop' and o[2] == 'cue' for o in ops):
        return 'cue_args_transposed'
    return None
