"""C20 - Definition builds are deterministic, isolated and leave no residue."""

import json
import os
import subprocess
import sys
import threading

from hypothesis import strategies as st

from vlib.core import Stage, sc3_origin, ROOT, SC3_PATH, HarnessError
from vlib import graph as G
from vlib import graphgen, mcgen

PROPERTY = 'C20'
LEVEL = 'exploration'
MODE = 'nrt'
SHARDS = {'quick': 2, 'thorough': 16}
MANIFEST = {
    'technique': 'property-based testing over build histories (successful, '
                 'failing, concurrent builds) with a metamorphic/differential '
                 'oracle: bytes of a spec are identical in every context '
                 '(in-history, worker processes with other PYTHONHASHSEED and '
                 'RT/NRT mode, real threads) + residue invariants after '
                 'every step',
    'category': 'exploration',
    'text': 'Generated histories interleave successful builds, builds failing '
            'in the graph function (Exception and BaseException subclasses, '
            'at a generated node), in input checks and in the writer, '
            'description reads, unit generators created outside any build '
            'and barriers of 2-6 real threads building (or reading '
            'descriptions from definition bytes) concurrently under a '
            '1 microsecond switch interval. Every successful build must give '
            'exactly the bytes that four reference interpreters '
            '(PYTHONHASHSEED 0/1/2/12345, NRT and RT mode) give for the same '
            'spec; after every step the build context is clear, the build '
            'lock is free and outside units belong to no definition.',
    'note': 'Trusted: reference workers run the same library (the oracle is '
            'metamorphic: context must not matter). Races outside the build '
            'lock are sampled by real threads, not enumerated.',
}
RULE = (
    'history stage: Hypothesis lists (1-8 ops) of build(spec from the C01 or '
    'C02 generator or an EnvGen definition whose envelope arguments (C19 '
    'generators) are long-lived list objects shared by every build of that '
    'spec, optional fault: graph function raises ValueError/KeyError/'
    'custom Exception/custom BaseException at node k, control signal into an '
    'audio output, constant beyond float32, name of 300 chars), SynthDesc '
    'read-back of an earlier build, unit created outside any build, and '
    'concurrent barriers of 2-6 threads. Non-trivial = a failing build is '
    'immediately followed by a successful one, or a concurrent barrier with '
    '>=2 threads, or the same spec is built twice. Every successful build '
    'is additionally compared across 4 interpreter contexts (hash seeds x '
    'modes), so every evaluated history differs in hash seed from its '
    'references. Distinct by sha1 of the history.'
    ' envdefs stage: EnvGen definitions over every envelope constructor and output-unit definitions over nested literal lists, built 2-3 times with the same argument objects (a failing build in between); thread barriers run behind a lock proxy that pauses after release.')
ASSUMPTIONS = [
    'Reference interpreters are long-lived (they build many specs); a '
    'history-dependence inside a reference shows up as a mismatch too.',
]

WORKERS = []
CONTEXTS = [('nrt', '1'), ('rt', '2'), ('nrt', '12345'), ('rt', '0')]


class CustomError(Exception):
    pass


class CustomBase(BaseException):
    pass


EXC = {'ValueError': ValueError, 'KeyError': KeyError,
       'CustomError': CustomError, 'CustomBase': CustomBase,
       'ZeroDivisionError': ZeroDivisionError}


def setup(ctx):
    global main, SynthDef, SynthDesc, U
    from sc3.base.main import main
    from sc3.synth.synthdef import SynthDef
    from sc3.synth.synthdesc import SynthDesc
    from sc3.synth.ugens import installed_ugens as U
    def start(k, mode, hs):
        env = dict(os.environ, PYTHONHASHSEED=hs)
        port = 40000 + (os.getpid() * 7 + k * 450) % 20000
        return subprocess.Popen(
            [sys.executable, os.path.join(ROOT, 'vlib', 'build_worker.py'),
             mode, SC3_PATH, str(port)],
            stdin=subprocess.PIPE, stdout=subprocess.PIPE,
            stderr=subprocess.DEVNULL, env=env, text=True, bufsize=1)

    procs = [start(k, mode, hs) for k, (mode, hs) in enumerate(CONTEXTS)]
    for k, p in enumerate(procs):
        line = p.stdout.readline()
        if (not line or 'ready' not in line) and CONTEXTS[k][0] == 'rt':
            # real-time initialisation needs a loopback UDP socket; where
            # the sandbox has none the context degrades to NRT (recorded)
            p.kill()
            CONTEXTS[k] = ('nrt', CONTEXTS[k][1])
            ctx.notes.append(f'reference context {k}: RT mode could not '
                             'start here, NRT used instead')
            p = start(k, 'nrt', CONTEXTS[k][1])
            line = p.stdout.readline()
        if not line or 'ready' not in line:
            raise HarnessError('reference worker failed to start')
        WORKERS.append(p)


def teardown(ctx):
    for p in WORKERS:
        try:
            p.stdin.close()
            p.wait(timeout=10)
        except Exception:
            p.kill()


def reference(gen, spec):
    req = json.dumps({'gen': gen, 'spec': spec}) + '\n'
    outs = []
    for p in WORKERS:
        p.stdin.write(req)
        p.stdin.flush()
    for p in WORKERS:
        line = p.stdout.readline()
        if not line:
            raise HarnessError('reference worker died')
        outs.append(json.loads(line))
    return outs


ENV_BUILDERS = {}     # per history: spec text -> Builder (long-lived lists)


def builder_for(op):
    spec = op['spec']
    fault = op.get('fault')
    if op['gen'] == 'env':
        # the same argument objects every time this spec is built
        key = json.dumps(spec, sort_keys=True)
        if key not in ENV_BUILDERS:
            from vlib import envdef
            ENV_BUILDERS[key] = envdef.builder(spec)
        b = ENV_BUILDERS[key]
        if fault and fault['kind'] == 'func':
            # a builder of its own (threads may build both at once) over
            # the same argument objects
            from vlib import envdef
            fb = envdef.builder(spec, fault['at'] % 2,
                                EXC[fault['exc']]('injected'))
            fb.objs = b.objs
            return fb
        return b
    cls = G.Builder if op['gen'] == 'c01' else mcgen.Builder
    if fault is None and not op.get('read'):
        # the same function object every time this spec is built without
        # a fault in this history ("repeated builds")
        key = op['gen'] + json.dumps(spec, sort_keys=True)
        if key not in ENV_BUILDERS:
            ENV_BUILDERS[key] = cls(spec)
        return ENV_BUILDERS[key]
    if fault and fault['kind'] == 'func':
        at = fault['at'] % (len(spec['nodes']) + 1)
        return cls(spec, fail_at=at, fail_exc=EXC[fault['exc']]('injected'))
    if fault and fault['kind'] == 'name_long':
        spec = dict(spec, name='n' * 300)
    b = cls(spec)
    if fault and fault['kind'] in ('input', 'const_overflow'):
        body0 = b.body

        def body(params):
            body0(params)
            if fault['kind'] == 'input':
                U['Out'].ar(0, U['SinOsc'].kr(3, 0))
            else:
                U['Out'].kr(0, U['SinOsc'].kr(1e39, 0))
        b.body = body
    return b


class YieldingLock:
    """Stands in for main._def_build_lock during thread barriers: the
    thread that releases the lock pauses right afterwards, so that a waiting
    thread gets to run inside its build while the first one executes
    whatever it does after the release (scheduling help only: same lock,
    same exclusion)."""

    def __init__(self, lock, pause):
        self._lock = lock
        self._pause = pause

    def acquire(self, *a, **k):
        return self._lock.acquire(*a, **k)

    def release(self):
        self._lock.release()
        import time
        time.sleep(self._pause)

    def locked(self):
        return self._lock.locked()

    def __enter__(self):
        self._lock.acquire()
        return self

    def __exit__(self, *exc):
        self.release()


def residue(v, where):
    v.check(main._current_synthdef is None, 'build_context_left_set',
            lambda: f'{where}: main._current_synthdef = '
                    f'{main._current_synthdef!r}')
    if main._current_synthdef is not None:
        main._current_synthdef = None    # so the search continues behind it
    locked = main._def_build_lock.locked()
    v.check(not locked, 'build_lock_held', where)
    if locked:
        main._def_build_lock.release()


def build_once(op, v, where):
    """Returns bytes or None (failed as requested)."""
    b = builder_for(op)
    fault = op.get('fault')
    name = op['spec']['name']
    try:
        data = b.build()
    except BaseException as e:
        if fault is None:
            if isinstance(e, Exception) and (
                    sc3_origin(e) or (e.__cause__ and sc3_origin(e.__cause__))):
                v.fail('wellformed_build_raised', f'{where}: {e!r}')
                return None
            raise
        return None
    if fault is not None and fault['kind'] != 'none':
        v.fail('faulty_build_succeeded', f'{where}: fault {fault}')
        return None
    return data


def run_history(case, v):
    ENV_BUILDERS.clear()
    outside = []
    built = []          # (gen, spec, bytes)
    labels = set()
    nontrivial = False
    prev_failed = False
    seen_specs = set()
    for i, op in enumerate(case):
        where = f'step {i} {op["op"]}'
        if op['op'] == 'build':
            key = json.dumps(op['spec'], sort_keys=True)
            fault = op.get('fault')
            if op['gen'] == 'env' and 'zeros' in op['spec']:
                labels.add('outdef_' + op['spec']['cls'])
                if key in seen_specs:
                    labels.add('envdef_same_objects_again')
            elif op['gen'] == 'env':
                e = op['spec']['env']
                labels.add('envdef_' + e.get('ctor', 'Env'))
                if key in seen_specs:
                    labels.add('envdef_same_objects_again')
            data = build_once(op, v, where)
            residue(v, where)
            if fault is not None:
                labels.add('fault_' + fault['kind'] + (
                    '_' + fault['exc'] if fault['kind'] == 'func' else ''))
                prev_failed = True
                continue
            if data is None:
                continue
            if prev_failed:
                nontrivial = True
                labels.add('ok_after_failure')
            if key in seen_specs:
                nontrivial = True
                labels.add('same_spec_twice')
            seen_specs.add(key)
            prev_failed = False
            refs = reference(op['gen'], op['spec'])
            for (mode, hs), r in zip(CONTEXTS, refs):
                if 'error' in r:
                    v.fail('reference_context_raised',
                           f'{where}: {mode}/hashseed {hs}: {r["error"]}')
                elif r['hex'] != data.hex():
                    v.fail('bytes_differ_between_contexts',
                           f'{where}: in-history build differs from a fresh '
                           f'{mode} interpreter with PYTHONHASHSEED={hs} '
                           f'({len(data)} vs {len(r["hex"]) // 2} bytes)')
            built.append((op['gen'], op['spec'], data))
        elif op['op'] == 'desc':
            if built:
                gen, spec, data = built[op['i'] % len(built)]
                import io
                SynthDesc._read_stream(io.BytesIO(data))
                residue(v, where)
                labels.add('desc_read')
        elif op['op'] == 'outside':
            u = U['SinOsc'].ar(440 + i, 0)
            v.check(u._synthdef is None, 'outside_unit_adopted',
                    lambda: f'{where}: unit created outside any build '
                            f'belongs to {u._synthdef!r}')
            outside.append(u)
            labels.add('outside_unit')
        elif op['op'] == 'threads':
            specs = op['specs']
            labels.add(f'threads_{len(specs)}')
            if len(specs) >= 2:
                nontrivial = True
            results = [None] * len(specs)
            barrier = threading.Barrier(len(specs))
            old = sys.getswitchinterval()

            # description readers: bytes come from the reference build
            blobs = {}
            for k, sp in enumerate(specs):
                if sp.get('read'):
                    r = reference(sp['gen'], sp['spec'])[0]
                    if 'hex' in r:
                        blobs[k] = bytes.fromhex(r['hex'])
                    labels.add('concurrent_desc_read')

            def work(k):
                try:
                    barrier.wait()
                    if specs[k].get('read'):
                        import io
                        for _ in range(specs[k]['read']):
                            if k in blobs:
                                SynthDesc._read_stream(io.BytesIO(blobs[k]))
                        results[k] = ('read', None)
                        return
                    b = builder_for(specs[k])
                    results[k] = ('ok', b.build())
                except BaseException as e:
                    results[k] = ('exc', e)

            ts = [threading.Thread(target=work, args=(k,))
                  for k in range(len(specs))]
            sys.setswitchinterval(1e-6)
            real_lock = main._def_build_lock
            if op.get('pause', 1):
                main._def_build_lock = YieldingLock(
                    real_lock, 0.0002 * op.get('pause', 1))
                labels.add('lock_release_pause')
            try:
                for t in ts:
                    t.start()
                for t in ts:
                    t.join()
            finally:
                sys.setswitchinterval(old)
                main._def_build_lock = real_lock
            residue(v, where)
            for k, sp in enumerate(specs):
                kind, val = results[k]
                fault = sp.get('fault')
                if kind == 'read':
                    continue
                if sp.get('read'):
                    v.fail('concurrent_desc_read_raised',
                           f'{where} thread {k}: {val!r}')
                    continue
                if fault is not None:
                    if kind == 'ok':
                        v.fail('faulty_build_succeeded', f'{where} thread {k}')
                    continue
                if kind == 'exc':
                    v.fail('concurrent_build_raised',
                           f'{where} thread {k}: {val!r}')
                    continue
                refs = reference(sp['gen'], sp['spec'])
                r = refs[0]
                if 'hex' in r and r['hex'] != val.hex():
                    v.fail('concurrent_bytes_differ',
                           f'{where} thread {k}: bytes differ from the '
                           'sequential reference build')
    # outside units belong to no definition built later
    for gen, spec, data in built:
        pass
    for u in outside:
        v.check(u._synthdef is None, 'outside_unit_adopted',
                'unit created outside a build acquired a definition later')
    return {'nontrivial': nontrivial, 'labels': sorted(labels)}


def build_op(max_steps):
    from checks import c19
    envs = st.tuples(st.one_of(c19.ctor_case(), c19.env_spec(plain=True)),
                     st.sampled_from(['kr', 'ar'])).map(
        lambda t: ('env', {'name': 'envdef', 'rate': t[1], 'env': t[0]}))
    spec = st.one_of(
        graphgen.graph_spec(max_steps=max_steps).map(
            lambda s: ('c01', s)),
        mcgen.mc_spec(max_steps=max_steps).map(lambda s: ('mc', s)),
        envs)
    fault = st.one_of(
        st.none(), st.none(),
        st.fixed_dictionaries({
            'kind': st.just('func'), 'at': st.integers(0, 200),
            'exc': st.sampled_from(sorted(EXC))}),
        st.fixed_dictionaries({'kind': st.sampled_from(
            ['input', 'const_overflow', 'name_long'])}))
    def mk(t):
        (gen, spec), fault = t
        if gen == 'env' and fault and fault['kind'] != 'func':
            fault = None
        return {'op': 'build', 'gen': gen, 'spec': spec, 'fault': fault}
    return st.tuples(spec, fault).map(mk)


def history_strategy(max_steps=10):
    b = build_op(max_steps)
    reader = st.tuples(build_op(6), st.integers(1, 8)).map(
        lambda t: {'op': 'build', 'gen': t[0]['gen'], 'spec': t[0]['spec'],
                   'fault': None, 'read': t[1]})
    op = st.one_of(
        b, b, b,
        st.fixed_dictionaries({'op': st.just('desc'),
                               'i': st.integers(0, 7)}),
        st.just({'op': 'outside'}),
        st.fixed_dictionaries({
            'op': st.just('threads'),
            'pause': st.sampled_from([0, 1, 1, 3]),
            'specs': st.lists(st.one_of(b, b, reader), min_size=2,
                              max_size=6)}))
    # repeat an earlier build now and then (same spec twice)
    def with_repeats(ops):
        out = list(ops)
        builds = [o for o in ops if o['op'] == 'build' and not o.get('fault')]
        if builds and len(ops) % 2 == 0:
            out.append(builds[0])
        # definitions that hand over long-lived argument objects are built
        # again with the same objects
        out += [o for o in builds if o['gen'] == 'env']
        return out
    return st.lists(op, min_size=1, max_size=7).map(with_repeats)


def env_history():
    """Histories of definitions that share long-lived argument objects:
    every envelope constructor, each definition built two or three times
    (a failing build of the same function may come in between)."""
    from checks import c19
    zero = st.sampled_from([0, 0.0])
    zeros = st.one_of(st.lists(zero, min_size=1, max_size=3),
                      st.lists(st.lists(zero, min_size=1, max_size=2),
                               min_size=1, max_size=2))
    outs = st.fixed_dictionaries({
        'cls': st.sampled_from(['Out', 'ReplaceOut', 'OffsetOut', 'XOut']),
        'bus': st.integers(0, 8), 'zeros': zeros})
    one = st.tuples(st.one_of(c19.ctor_case(), c19.ctor_case(),
                              c19.env_spec(plain=True), outs),
                    st.sampled_from(['kr', 'ar']),
                    st.sampled_from([None, None, 'ValueError', 'CustomBase']),
                    st.integers(2, 3))

    def mk(items):
        ops = []
        for n, (env, rate, exc, times) in enumerate(items):
            if 'zeros' in env:
                spec = dict(env, name=f'outdef{n}')
            else:
                spec = {'name': f'envdef{n}', 'rate': rate, 'env': env}
            b = {'op': 'build', 'gen': 'env', 'spec': spec, 'fault': None}
            ops.append(b)
            if exc:
                ops.append(dict(b, fault={'kind': 'func', 'at': 1,
                                          'exc': exc}))
            ops += [b] * (times - 1)
        return ops
    return st.lists(one, min_size=1, max_size=3).map(mk)


def stages(ctx):
    return [
        Stage('history', run_history, history_strategy(10),
              quick=200, thorough=1000),
        Stage('history_large', run_history, history_strategy(60),
              quick=10, thorough=100),
        Stage('envdefs', run_history, env_history(), quick=150,
              thorough=1500),
    ]
