"""C12 - TempoClock time arithmetic and quantisation are consistent."""

import math
from fractions import Fraction as F

from hypothesis import strategies as st

from vlib.core import Stage, Reject

PROPERTY = 'C12'
LEVEL = 'exploration'
MODE = 'nrt'
SHARDS = {'quick': 2, 'thorough': 16}
MANIFEST = {
    'technique': 'property-based testing of algebraic laws (inverse, '
                 'continuity, congruence/minimality of the grid function) '
                 'over generated histories of tempo/beats/meter changes made '
                 'from a routine running on the clock, checked in exact '
                 'rational arithmetic on dyadic inputs',
    'category': 'exploration',
    'text': 'A routine running on a generated TempoClock (tempo, beats) '
            'performs a history of waits, tempo changes, meter changes and a '
            'final beats change; after every step the clock is queried and '
            'the laws of the property are asserted exactly: beats<->seconds '
            'round trips, continuity of (beats, seconds) across tempo '
            'changes, beats= re-basing, beats advancing at the current '
            'tempo, next_time_on_grid = least beat >= ref congruent to phase '
            'mod quant from the last meter change, play(quant) waking '
            'exactly there, bar/beat conversions inverse, next_bar >= beats '
            'and integral in bars, 0 <= beat_in_bar < beats_per_bar, '
            'time_to_next_beat = grid - beats >= 0. A third stage runs '
            'programs with tempo changes in simulated real-time mode '
            '(jittered wake-ups) and compares every observed (seconds, '
            'beats) pair with the reference model.',
    'note': 'Trusted: exact Fraction arithmetic on the floats the library '
            'returns (all inputs dyadic, so the library\'s float results are '
            'exact); a second stage uses arbitrary floats with 1e-9 '
            'relative tolerance and skips congruence checks within 1e-7 of '
            'a grid point.',
}
RULE = (
    'Hypothesis draws tempo in {1/8..8 dyadic}, initial beats, 1-8 steps of '
    '(wait delta beats, optional op tempo=/beats_per_bar=, final beats=), and '
    'per step 1-3 grid queries (quant in {0, 1..16, dyadic fractions}, phase '
    'in (-quant, quant), refbeat None or dyadic, ints and floats both) plus '
    'one play(quant) probe. Non-trivial = at least one tempo change and one '
    'meter change precede a query with phase != 0. Distinct by sha1.'
    " Steps may use etempo and may move the pending play probe to another quant; rt stage: C05's tempo programs on the RT simulation.")
RULE += ' ' + (
    'In the rt stage routines also move the beats of clocks (beats_add); spawning steps then count as interacting.')
ASSUMPTIONS = [
    'beats= is generated as the last operation of a history only: the '
    'library documents that a beats change made from a scheduled routine '
    'takes effect after rescheduling.',
]


def setup(ctx):
    global main, TempoClock, Routine, Quant
    from sc3.base.main import main
    from sc3.base.clock import TempoClock, Quant
    from sc3.base.stream import Routine


def fr(x):
    return F(x)


def run_case(case, v, exact=True):
    main.reset()
    tol = F(0) if exact else F(1, 10 ** 9)
    obs = []          # observations made inside the routine
    errs = []

    def near(a, b):
        a, b = F(a), F(b)
        return abs(a - b) <= tol * max(1, abs(a), abs(b))

    def near9(a, b):
        a, b = F(a), F(b)
        return abs(a - b) <= F(1, 10 ** 9) * max(1, abs(a), abs(b))

    clock = TempoClock(case['tempo'], case['beats'])
    probes = []

    def probe_fn(rec):
        def g(inval):
            rec['woke_beats'] = clock.beats
            rec['woke_secs'] = clock.seconds
            yield 'hang'
        return g

    def body(inval):
        last = None
        for step in case['steps']:
            if step['wait'] is not None:
                yield step['wait']
            o = {'beats': clock.beats, 'secs': clock.seconds,
                 'tempo': clock.tempo, 'step': step}
            if last is not None:
                o['prev'] = last
            op = step.get('op')
            if op:
                b0, s0 = clock.beats, clock.seconds
                try:
                    if op[0] == 'tempo':
                        clock.tempo = op[1]
                    elif op[0] == 'etempo':
                        # (non-real-time: elapsed time is the logical time,
                        # the same change as the setter)
                        clock.etempo(op[1])
                    elif op[0] == 'meter':
                        clock.beats_per_bar = op[1]
                    elif op[0] == 'beats':
                        clock.beats = op[1]
                except Exception as e:
                    errs.append((op, e))
                o['op_before'] = (b0, s0)
                o['op_after'] = (clock.beats, clock.seconds)
                o['tempo_after'] = clock.tempo
            # conversions
            o['conv'] = []
            for x in step['xs']:
                o['conv'].append((x, clock.secs2beats(clock.beats2secs(x)),
                                  clock.beats2secs(clock.secs2beats(x)),
                                  clock.beats2bars(clock.bars2beats(x)),
                                  clock.bars2beats(clock.beats2bars(x))))
            o['bbb'] = clock.base_bar_beat
            o['bpb'] = clock.beats_per_bar
            o['now_beats'] = clock.beats
            o['next_bar'] = clock.next_bar()
            o['next_bar_bars'] = clock.beats2bars(o['next_bar'])
            o['beat_in_bar'] = clock.beat_in_bar()
            o['grid'] = []
            for q in step['queries']:
                try:
                    r = clock.next_time_on_grid(q['quant'], q['phase'],
                                                q['ref'])
                    ttnb = clock.time_to_next_beat(
                        Quant(q['quant'], q['phase']))
                    r0 = clock.next_time_on_grid(q['quant'], q['phase'])
                except Exception as e:
                    errs.append((q, e))
                    continue
                o['grid'].append((q, r, ttnb, r0))
            pq = step.get('play')
            if pq is not None:
                rec = {'q': pq, 'at_beats': clock.beats,
                       'step_index': case['steps'].index(step)}
                rec['expect'] = clock.next_time_on_grid(pq['quant'],
                                                        pq['phase'])
                if step.get('move') and probes and \
                        'woke_beats' not in probes[-1]:
                    # the pending probe is scheduled again (moved) instead
                    # of a new one: it wakes at the new grid point only
                    old = probes[-1]
                    old.update(q=pq, at_beats=rec['at_beats'],
                               step_index=rec['step_index'],
                               expect=rec['expect'], moved=True)
                    clock.play(old['routine'], (pq['quant'], pq['phase']))
                else:
                    rec['routine'] = Routine(probe_fn(rec))
                    rec['routine'].play(clock, (pq['quant'], pq['phase']))
                    probes.append(rec)
            obs.append(o)
            last = {'beats': o['op_after'][0] if op else o['beats'],
                    'secs': o['secs'],
                    'tempo': o.get('tempo_after', o['tempo']),
                    'op': op}

    Routine(body).play(clock, 0)
    main.process()
    main.reset()
    for op, e in errs:
        v.fail('clock_call_raised', f'{op}: {e!r}')
    # --- laws -----------------------------------------------------------------
    tempo_changes = meter_changes = 0
    nontrivial = False
    for o in obs:
        step = o['step']
        # beats advance at the current tempo
        if 'prev' in o and step['wait'] is not None and \
                (o['prev']['op'] or [None])[0] != 'beats':
            db = fr(o['beats']) - fr(o['prev']['beats'])
            ds = fr(o['secs']) - fr(o['prev']['secs'])
            if not near(db, step['wait']):
                v.fail('beats_advance', f'yielded {step["wait"]} beats, '
                       f'beats advanced {float(db)}')
            if not near(ds * fr(o['prev']['tempo']), db):
                v.fail('beats_vs_seconds',
                       f'{float(db)} beats took {float(ds)} s at tempo '
                       f'{o["prev"]["tempo"]}')
        op = step.get('op')
        if op and 'op_after' in o:
            (b0, s0), (b1, s1) = o['op_before'], o['op_after']
            if op[0] in ('tempo', 'etempo'):
                tempo_changes += 1
                if not (near(b0, b1) and near(s0, s1)):
                    v.fail('tempo_change_discontinuous',
                           f'tempo={op[1]}: ({b0}, {s0}) -> ({b1}, {s1})')
                if o['tempo_after'] != op[1]:
                    v.fail('tempo_not_set', f'{o["tempo_after"]} vs {op[1]}')
            elif op[0] == 'beats':
                if not (near(b1, op[1]) and near(s0, s1)):
                    v.fail('beats_setter',
                           f'beats={op[1]}: ({b0}, {s0}) -> ({b1}, {s1})')
            elif op[0] == 'meter':
                meter_changes += 1
                if not (near(b0, b1) and near(s0, s1)):
                    v.fail('meter_change_moves_time',
                           f'({b0}, {s0}) -> ({b1}, {s1})')
                if not near(o['bbb'], b1):
                    v.fail('base_bar_beat',
                           f'base_bar_beat {o["bbb"]} after meter change at '
                           f'beat {b1}')
        for x, a, b, c, d in o['conv']:
            if not (near(a, x) and near(b, x)):
                v.fail('beats_seconds_round_trip', f'x={x}: {a}, {b}')
            # bars use 1 / beats_per_bar, inexact for meters like 3 or 5
            if not (near9(c, x) and near9(d, x)):
                v.fail('bars_beats_round_trip', f'x={x}: {c}, {d}')
        nb = fr(o['next_bar'])
        if nb < fr(o['now_beats']) and not near(nb, o['now_beats']):
            v.fail('next_bar_before_now',
                   f'next_bar {o["next_bar"]} < beats {o["now_beats"]}')
        nbb = fr(o['next_bar_bars'])
        if abs(nbb - round(nbb)) > F(1, 10 ** 7):
            v.fail('next_bar_not_integral', f'{o["next_bar_bars"]} bars')
        bib = fr(o['beat_in_bar'])
        if not (-F(1, 10 ** 9) <= bib < fr(o['bpb'])) and exact:
            v.fail('beat_in_bar_range', f'{o["beat_in_bar"]} of {o["bpb"]}')
        for q, r, ttnb, r0 in o['grid']:
            quant, phase = fr(q['quant']), fr(q['phase'])
            ref = fr(q['ref']) if q['ref'] is not None else fr(o['now_beats'])
            r = fr(r)
            if quant == 0:
                if not near(r, ref + phase):
                    v.fail('grid_quant_zero', f'{q}: {float(r)}')
                continue
            if r < ref and not near(r, ref):
                v.fail('grid_before_reference',
                       f'{q} at beat {o["now_beats"]} (bbb {o["bbb"]}): '
                       f'{float(r)} < ref {float(ref)}')
            k = (r - fr(o['bbb']) - phase) / quant
            on_grid = k.denominator == 1 if exact else \
                abs(k - round(k)) < F(1, 10 ** 7)
            if not on_grid:
                v.fail('grid_not_congruent',
                       f'{q} (bbb {o["bbb"]}): {float(r)} is not phase mod '
                       f'quant')
            elif exact and not (r - quant < ref):
                v.fail('grid_not_earliest',
                       f'{q} (bbb {o["bbb"]}): {float(r)} but '
                       f'{float(r - quant)} >= ref {float(ref)} too')
            exp_ttnb = fr(r0) - fr(o['now_beats'])
            if not near(ttnb, exp_ttnb) or (fr(ttnb) < 0 and exact):
                v.fail('time_to_next_beat',
                       f'{q}: {ttnb} vs grid - beats = {float(exp_ttnb)}')
            if phase != 0 and tempo_changes and meter_changes:
                nontrivial = True
    later_rebase = [False] * len(case['steps'])
    seen = False
    for i in range(len(case['steps']) - 1, -1, -1):
        later_rebase[i] = seen
        if (case['steps'][i].get('op') or [None])[0] == 'beats':
            seen = True
    for rec in probes:
        if later_rebase[rec['step_index']]:
            # a later beats change while the probe sleeps moves the beat
            # the probe was scheduled for (C10's subject); a tempo change
            # does not: the probe still wakes at its beat
            continue
        if 'woke_beats' not in rec:
            v.fail('play_quant_never_woke', f'{rec}')
        elif not near(rec['woke_beats'], rec['expect']):
            v.fail('play_quant_wrong_beat',
                   f'play(quant={rec["q"]}) at beat {rec["at_beats"]} woke at '
                   f'{rec["woke_beats"]}, next_time_on_grid = {rec["expect"]}')
    labels = []
    if tempo_changes:
        labels.append('tempo_change')
    if meter_changes:
        labels.append('meter_change')
    if probes:
        labels.append('play_probe')
    if any(r.get('moved') for r in probes):
        labels.append('pending_probe_moved')
    return {'nontrivial': nontrivial, 'labels': labels}


def run_float(case, v):
    return run_case(case, v, exact=False)


DY = [0, 0.25, 0.5, 1, 1.0, 1.5, 2, 3, 4, 0.125, 5.75, 7, 16]


@st.composite
def cases(draw, exact=True):
    if exact:
        num = st.sampled_from(DY)
        tempo = st.sampled_from([0.125, 0.25, 0.5, 1, 1.0, 2, 4, 8])
        quant = st.sampled_from([0, 1, 2, 3, 4, 5, 8, 16, 0.5, 0.25, 1.5,
                                 2.5, 4.0])
    else:
        num = st.floats(0, 64, allow_nan=False).map(lambda x: round(x, 6))
        tempo = st.floats(0.1, 10, allow_nan=False).map(
            lambda x: round(x, 6))
        quant = st.one_of(st.integers(0, 16),
                          st.floats(0.1, 8).map(lambda x: round(x, 4)))

    def query():
        q = draw(quant)
        if q == 0:
            ph = draw(num)
        else:
            k = draw(st.integers(-7, 7))
            ph = q * k / 8
            if exact and isinstance(q, int) and k in (0, 8, -8):
                ph = int(ph)
        ref = draw(st.one_of(st.none(), num, st.integers(0, 40)))
        return {'quant': q, 'phase': ph, 'ref': ref}

    steps = []
    n = draw(st.integers(1, 8))
    for i in range(n):
        wait = None if i == 0 and draw(st.booleans()) else draw(num)
        op = None
        k = draw(st.integers(0, 5))
        if k <= 1:
            op = [draw(st.sampled_from(['tempo', 'tempo', 'etempo'])),
                  draw(tempo)]
        elif k == 2:
            op = ['meter', draw(st.sampled_from([1, 2, 3, 4, 5, 7, 1.5, 6]))]
        step = {'wait': wait, 'op': op,
                'xs': [draw(num) for _ in range(draw(st.integers(0, 2)))],
                'queries': [query() for _ in range(draw(st.integers(1, 3)))]}
        if draw(st.integers(0, 2)) == 0:
            pq = query()
            step['play'] = {'quant': pq['quant'], 'phase': pq['phase']}
            if draw(st.integers(0, 2)) == 0:
                step['move'] = True
        steps.append(step)
    if draw(st.integers(0, 3)) == 0:
        steps.append({'wait': draw(num), 'op': ['beats', draw(num)],
                      'xs': [draw(num)], 'queries': [query()]})
    return {'tempo': draw(tempo),
            'beats': draw(st.one_of(st.none(), num)), 'steps': steps}


# --- rt stage ----------------------------------------------------------------------
# The same laws in real-time mode, where logical time lags physical time:
# programs of routines on TempoClocks that change tempos while others sleep
# run on the RT simulation (wake-up jitter from a generated tape); the
# (seconds, beats) pairs every routine observes must be those of the affine
# maps of the reference model, i.e. a tempo change keeps the logical
# beat/second pair continuous whatever the physical lateness.

def setup_rt():
    from checks import c05
    if not c05.RT:
        from vlib import workers
        c05.RT.append(workers.rtsim_worker())
    return c05


def run_rt(case, v):
    c05 = setup_rt()
    res = c05.run_rt(case, v)
    p = case['prog']
    tempo = any(op[0] in ('tempo', 'beats_add') for r in p['routines'].values()
                for op in r['body'])
    res['nontrivial'] = bool(tempo and 'jitter' in res['labels'])
    return res


def teardown(ctx):
    from checks import c05
    for w in c05.RT:
        w.close()


def stages(ctx):
    from checks import c05
    return [
        Stage('exact', run_case, cases(True), quick=1500, thorough=15000),
        Stage('float', run_float, cases(False), quick=500, thorough=5000),
        Stage('rt', run_rt, c05.rt_cases(tempo_ops=True, beats_ops=True),
              quick=100, thorough=1000),
    ]
