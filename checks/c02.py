"""C02 - Emitted definitions are well-formed, topologically ordered SCgf v2."""

import io
import math
import zlib

from hypothesis import strategies as st

from vlib.core import Stage, sc3_origin
from vlib import graph as G
from vlib import graphgen, mcgen, scgf

PROPERTY = 'C02'
LEVEL = 'exploration'
MODE = 'nrt'
SHARDS = {'quick': 4, 'thorough': 16}
MANIFEST = {
    'technique': 'property-based testing: generated multichannel / width-first '
                 'graphs compiled and parsed by an independent SCgf-2 reader '
                 '(structural validity predicate) + differential check '
                 'against the library\'s own description reader; invalid '
                 'graphs must raise or still produce valid bytes',
    'category': 'exploration',
    'text': 'Generated graphs with multi-output units, nested multichannel '
            'expansion, local buffers, FFT chains, random seeding, array '
            'controls and names up to 255 characters are compiled; the bytes '
            'must parse completely as one SCgf v2 definition with backward-'
            'only references, width-first units before every later-created '
            'unit, consistent counts/rates/outputs, and SynthDesc must accept '
            'them and agree with the independent reader on name, controls, '
            'gate flag and bus units (type, rate, channels, and the bus: its '
            'constant or the name of the control it is wired to). '
            'Deliberately invalid graphs must be '
            'rejected with an exception or else satisfy all of the above '
            '(NaN / None / str in any input of any catalogue unit at any '
            'rate, tuples whose members are constants of the graph, rate '
            'mismatches, names and variants beyond the one-byte counts); an '
            'enumerated stage builds definitions at the limits of those '
            'counts (1..255 control names, names of 1..255 bytes).',
    'note': 'Trusted: the SCgf reader written from the file-format '
            'documentation; creation order is observed by wrapping '
            'SynthDef._add_ugen/_replace_ugen at run time (no source hook).',
}
RULE = (
    'mc stage: Hypothesis composite builds specs with channel lists (nested), '
    'multichannel-expanded units, multi-out units with channels picked by '
    'index, LocalBuf/SetBuf/ClearBuf, FFT->PV_*->IFFT chains (consumed once '
    'or twice), RandSeed/RandID, array controls of 4 rates, names from '
    'printable ASCII up to 255 chars. c01 stage: the C01 generator\'s specs. '
    'invalid stage: one well-formed spec plus one injected fault (control '
    'signal into an audio output, NaN/None/str/tuple input, first-input rate '
    'mismatch, name of 256+ chars or non-ASCII). Non-trivial = a channel '
    'other than 0 of a multi-out/expanded unit is consumed, or a width-first '
    'unit is followed by later units, or the optimiser rewrote something, '
    'or the spec is an invalid one. Distinct by sha1 of the spec.'
    " limits stage: enumerated definitions with 1..255 control names and names of 1..255 bytes. Specs may declare manual controls (Control.add_name) after the function's parameters; every fourth definition is also read back from a definition file with and without keep_defs.")
ASSUMPTIONS = [
    'Width-first classes are identified by name (LocalBuf, SetBuf, ClearBuf, '
    'MaxLocalBufs excluded, FFT, IFFT, PV_*, RandSeed, RandID).',
]

WIDTH_FIRST = {'LocalBuf', 'SetBuf', 'ClearBuf', 'FFT', 'IFFT', 'RandSeed',
               'RandID'} | set(mcgen.PV_UNITS)
OUT_UNITS = {'Out', 'ReplaceOut', 'OffsetOut', 'XOut', 'LocalOut'}
OUT_FIXED = {'Out': 1, 'ReplaceOut': 1, 'OffsetOut': 1, 'XOut': 2,
             'LocalOut': 0}
IN_UNITS = {'In', 'LocalIn', 'LagIn', 'InFeedback', 'InTrig'}
RATE_NAME = ['scalar', 'control', 'audio', 'demand']


def setup(ctx):
    global SynthDesc
    from sc3.synth.synthdesc import SynthDesc


def f32eq(a, b):
    return a == b or (math.isnan(a) and math.isnan(b))


def check_bytes(data, v, sd=None, creation=None):
    """Validity of emitted bytes + agreement with the library's reader.
    Returns the parsed definition or None."""
    try:
        defs = scgf.parse(data)
    except scgf.FormatError as e:
        v.fail('bytes_unparseable', str(e))
        return None
    if len(defs) != 1:
        v.fail('not_one_definition', len(defs))
        return None
    d = defs[0]
    errs = scgf.structural_errors(d)
    if errs:
        v.fail('structure', '; '.join(errs[:3]))
        return d
    units = d['units']
    # counts / rates / output lists mutually consistent
    for i, u in enumerate(units):
        nm = u['name']
        if nm in OUT_UNITS:
            if u['outputs']:
                v.fail('out_unit_has_outputs', f'unit {i} {u}')
            if len(u['inputs']) < OUT_FIXED[nm] + 1:
                v.fail('out_unit_no_channels', f'unit {i} {u}')
        elif nm in G.CONTROL_UNITS:
            if not u['outputs'] or u['special'] + len(u['outputs']) > \
                    len(d['params']):
                v.fail('control_unit_range',
                       f'unit {i} {nm} special {u["special"]} outputs '
                       f'{len(u["outputs"])} params {len(d["params"])}')
            if nm == 'LagControl' and len(u['inputs']) != len(u['outputs']):
                v.fail('lagcontrol_lags', f'unit {i} {u}')
        if any(o != u['rate'] for o in u['outputs']) and nm != 'Demand':
            v.fail('output_rate_differs', f'unit {i} {u}')
    # every control slot is served by exactly one control unit output
    served = {}
    for i, u in enumerate(units):
        if u['name'] in G.CONTROL_UNITS:
            for o in range(len(u['outputs'])):
                slot = u['special'] + o
                if slot in served:
                    v.fail('control_slot_twice', f'slot {slot}')
                served[slot] = u['outputs'][o]
    if sorted(served) != list(range(len(d['params']))):
        v.fail('control_slots_unserved',
               f'{sorted(served)} vs {len(d["params"])} params')
    # width-first ordering against the creation log
    if creation is not None and sd is not None:
        log, replaced = creation
        pos = {id(u): i for i, u in enumerate(sd._children)}
        if len(sd._children) != len(units) or any(
                c.name != u['name'] for c, u in zip(sd._children, units)):
            v.fail('children_vs_bytes', 'unit list differs from bytes')
        else:
            order = {id(u): k for k, u in enumerate(log)}
            for a, b in replaced:   # a rewritten unit stands where the old was
                if id(a) in order:
                    order[id(b)] = order[id(a)]
            alive = [(order[id(c)], pos[id(c)], c.name)
                     for c in sd._children if id(c) in order]
            alive.sort()
            for k, (o, p, nm) in enumerate(alive):
                if nm in WIDTH_FIRST:
                    for o2, p2, nm2 in alive[k + 1:]:
                        if p2 < p:
                            v.fail('width_first_order',
                                   f'{nm} (created #{o}) emitted at {p}, but '
                                   f'{nm2} (created #{o2}) at {p2}')
                            break
    # the library's own reader
    for how in ('stream', 'new_from', 'file', 'file_keep_defs'):
        try:
            if how == 'stream':
                descs = SynthDesc._read_stream(io.BytesIO(data))
                if len(descs) != 1:
                    v.fail('reader_count', len(descs))
                    continue
                desc = descs[0]
            elif how.startswith('file'):
                # a definition file (.scsyndef), the usual way descriptions
                # are read; every fourth definition only (files are slow)
                if zlib.crc32(data) % 4:
                    continue
                import os
                import tempfile
                fd, path = tempfile.mkstemp(suffix='.scsyndef')
                try:
                    with os.fdopen(fd, 'wb') as f:
                        f.write(data)
                    descs = SynthDesc.read(path,
                                           keep_defs=how.endswith('defs'))
                finally:
                    os.unlink(path)
                if len(descs) != 1:
                    v.fail('reader_count', len(descs))
                    continue
                desc = descs[0]
            else:
                if sd is None:
                    continue
                desc = SynthDesc.new_from(sd)
                G.def_bytes(sd)
        except Exception as e:
            v.fail('library_reader_raised', f'{how}: {e!r}')
            continue
        compare_desc(d, desc, v, how)
    return d


def compare_desc(d, desc, v, how):
    if desc.name != d['name']:
        v.fail('reader_name', f'{how}: {desc.name!r} vs {d["name"]!r}')
    names = {}
    for nm, idx in d['param_names']:
        names.setdefault(idx, nm)
    slot_rate = {}
    for u in d['units']:
        if u['name'] in G.CONTROL_UNITS:
            for o in range(len(u['outputs'])):
                slot_rate[u['special'] + o] = RATE_NAME[u['outputs'][o]]
    if len(desc.controls) != len(d['params']):
        v.fail('reader_control_count',
               f'{how}: {len(desc.controls)} vs {len(d["params"])}')
        return
    # the reader folds array defaults into the first slot's default value;
    # per slot we compare name, rate and (flattened in order) defaults
    flat = []
    for i, c in enumerate(desc.controls):
        exp_name = names.get(i, '?')
        if c.name != exp_name:
            v.fail('reader_control_name',
                   f'{how}: slot {i} {c.name!r} vs {exp_name!r}')
        if c.rate != slot_rate.get(i, c.rate):
            v.fail('reader_control_rate',
                   f'{how}: slot {i} {c.rate!r} vs {slot_rate.get(i)!r}')
        if c.index != i:
            v.fail('reader_control_index', f'{how}: slot {i} index {c.index}')
    i = 0
    while i < len(desc.controls):
        c = desc.controls[i]
        dv = c.default_value
        n = 1
        while i + n < len(desc.controls) and desc.controls[i + n].name == '?' \
                and c.name != '?':
            n += 1
        got = list(dv) if isinstance(dv, list) else [dv]
        if c.name == '?':
            got = got[:1]
        exp = d['params'][i:i + n] if c.name != '?' else d['params'][i:i + 1]
        if len(got) != len(exp) or not all(
                f32eq(G.f32(a), b) for a, b in zip(got, exp)):
            v.fail('reader_control_default',
                   f'{how}: slot {i} {got} vs {exp}')
        i += n if c.name != '?' else 1
    exp_names = [nm for nm, _ in d['param_names']]
    if list(desc.control_names) != exp_names:
        v.fail('reader_control_names',
               f'{how}: {desc.control_names} vs {exp_names}')
    if bool(desc.has_gate) != ('gate' in exp_names):
        v.fail('reader_gate_flag', f'{how}: {desc.has_gate} vs {exp_names}')
    exp_in, exp_out = [], []
    for u in d['units']:
        if u['name'] in IN_UNITS:
            exp_in.append((u['name'], RATE_NAME[u['rate']],
                           len(u['outputs'])))
        elif u['name'] in OUT_UNITS:
            exp_out.append((u['name'], RATE_NAME[u['rate']],
                            len(u['inputs']) - OUT_FIXED[u['name']]))
    got_in = [(x.type.__name__, x.rate, x.channels) for x in desc.inputs]
    got_out = [(x.type.__name__, x.rate, x.channels) for x in desc.outputs]
    if got_in != exp_in:
        v.fail('reader_inputs', f'{how}: {got_in} vs {exp_in}')
    if got_out != exp_out:
        v.fail('reader_outputs', f'{how}: {got_out} vs {exp_out}')
    if got_in != exp_in or got_out != exp_out:
        return
    # the bus of each recovered unit: the constant, or the name of the
    # control it is wired to ('?' for a slot without a name of its own);
    # a bus computed by other units is not compared
    io_units = [u for u in d['units'] if u['name'] in IN_UNITS] + \
        [u for u in d['units'] if u['name'] in OUT_UNITS]
    for u, io in zip(io_units, list(desc.inputs) + list(desc.outputs)):
        if u['name'] in ('LocalIn', 'LocalOut') or not u['inputs']:
            continue
        a, bi = u['inputs'][0]
        if a < 0:
            exp_bus = d['constants'][bi]
            ok = isinstance(io.starting_channel, (int, float)) and \
                f32eq(G.f32(io.starting_channel), exp_bus)
        elif d['units'][a]['name'] in ('Control', 'TrigControl',
                                       'LagControl'):
            # (an audio-rate control is not resolved to its name, as in
            # SuperCollider: AudioControl is no kind of Control)
            exp_bus = names.get(d['units'][a]['special'] + bi, '?')
            ok = isinstance(io.starting_channel, str) and \
                io.starting_channel == exp_bus
        else:
            continue
        if not ok:
            v.fail('reader_bus',
                   f'{how}: {u["name"]} bus {io.starting_channel!r} vs '
                   f'{exp_bus!r}')


def compile_spec(spec, builder_cls, v, **kw):
    b = builder_cls(spec)
    try:
        data = b.build(**kw)
    except Exception as e:
        where = sc3_origin(e) or (e.__cause__ is not None
                                  and sc3_origin(e.__cause__))
        if not where:
            raise
        return b, None, e, where
    return b, data, None, None


def outputs_present(spec, d, v):
    """Every output unit the function created is in the definition (a graph
    that silently loses its output is not the definition of that graph)."""
    from collections import Counter
    want = Counter(s['cls'] for s in spec['sinks'])
    have = Counter(u['name'] for u in d['units'])
    for cls, n in want.items():
        if have[cls] < n:
            v.fail('output_unit_missing',
                   f'{n} {cls} created by the function, {have[cls]} in '
                   f'the definition')


def run_mc(spec, v):
    b, data, exc, where = compile_spec(spec, mcgen.Builder, v,
                                       log_creation=True)
    if exc is not None:
        v.fail(f'compile_raised:{type(exc).__name__}@{where}', repr(exc))
        return {'nontrivial': False, 'labels': ['compile_raised']}
    d = check_bytes(data, v, b.synthdef, (b.log, b.replaced))
    labels = list(spec.get('gen_labels', []))
    nontrivial = False
    if d is not None:
        units = d['units']
        outputs_present(spec, d, v)
        if any(bi > 0 for u in units for a, bi in u['inputs'] if a >= 0):
            labels.append('channel_gt0_consumed')
            nontrivial = True
        wf = [i for i, u in enumerate(units) if u['name'] in WIDTH_FIRST]
        if wf and wf[0] < len(units) - 1:
            labels.append('width_first_followed')
            nontrivial = True
        if b.replaced:
            labels.append('optimiser_rewrite')
            nontrivial = True
        if len(spec['name']) > 31:
            labels.append('long_name')
        if len(units) > 100:
            labels.append('over_100_units')
    return {'nontrivial': nontrivial, 'labels': labels}


def limit_cases(ctx):
    """Definitions at the limits of the one-byte counts of the format:
    numbers of control names around 255 (the most the description reader
    accepts), names of parameters and definitions around 31 / 255 bytes."""
    for n in (1, 2, 31, 32, 127, 128, 200, 254, 255):
        for rate in ('kr', 'ir'):
            params = [{'name': f'p{i}', 'default': float(i % 7),
                       'rate': rate if i % 3 else 'kr'} for i in range(n)]
            yield {'name': f'lim{n}', 'params': params,
                   'nodes': [{'k': 'c', 'v': 0}, {'k': 'c', 'v': 440},
                             {'k': 'u', 'cls': 'SinOsc', 'rate': 'ar',
                              'args': [1, 0]}],
                   'sinks': [{'cls': 'Out', 'rate': 'ar', 'bus': 0, 'x': 2}],
                   'gen_labels': [f'controls_{n}']}
    for ln in (1, 31, 32, 127, 128, 254, 255):
        yield {'name': 'n' * ln,
               'params': [{'name': 'q' * min(ln, 255), 'default': 0.5,
                           'rate': 'kr'}],
               'nodes': [{'k': 'c', 'v': 0}, {'k': 'c', 'v': 440},
                         {'k': 'u', 'cls': 'SinOsc', 'rate': 'ar',
                          'args': [1, 0]}],
               'sinks': [{'cls': 'Out', 'rate': 'ar', 'bus': 0, 'x': 2}],
               'gen_labels': [f'name_len_{ln}']}


def run_limits(spec, v):
    res = run_mc(spec, v)
    res['nontrivial'] = True
    return res


def run_c01(spec, v):
    b, data, exc, where = compile_spec(spec, G.Builder, v)
    if exc is not None:
        v.fail(f'compile_raised:{type(exc).__name__}@{where}', repr(exc))
        return {'nontrivial': False, 'labels': ['compile_raised']}
    d = check_bytes(data, v, b.synthdef)
    if d is not None:
        outputs_present(spec, d, v)
    nt = d is not None and any(
        u['name'] in ('Sum3', 'Sum4', 'MulAdd') for u in d['units'])
    return {'nontrivial': nt, 'labels': []}


# --- invalid graphs --------------------------------------------------------------

FAULTS = ['control_into_audio_out', 'nan_input', 'none_input', 'str_input',
          'tuple_input', 'tuple_input_known_constants', 'first_input_rate', 'name_too_long',
          'name_non_ascii', 'name_empty_ok', 'variant_name_too_long',
          'variant_unknown_control', 'variant_too_many_values']


BAD_VALUES = {'nan_input': float('nan'), 'none_input': None,
              'str_input': '440'}
# classes (C01 catalogue: argument kinds; 'eq' = a signal at the unit's
# rate) plus the panners, which validate their inputs in a method of their own
UNIT_ARGS = {c: e['args'] for c, e in G.CATALOGUE.items()
             if set(e['rates']) <= {'ar', 'kr'}}
UNIT_ARGS.update({'LinPan2': ['eq', 'sig', 'sig'],
                  'Balance2': ['eq', 'eq', 'sig', 'sig'],
                  'XFade2': ['eq', 'eq', 'sig', 'sig'],
                  'LinXFade2': ['eq', 'eq', 'sig', 'sig'],
                  'Rotate2': ['eq', 'eq', 'sig']})
UNIT_RATES = {c: G.CATALOGUE[c]['rates'] if c in G.CATALOGUE
              else ['ar', 'kr'] for c in UNIT_ARGS}
BAD_UNITS = sorted([c, r, k] for c in UNIT_ARGS for r in UNIT_RATES[c]
                   for k in range(len(UNIT_ARGS[c])))

FIRST_RATE = ['Decay', 'HPF', 'Integrator', 'LPF', 'Lag', 'LinExp', 'OnePole',
              'PulseCount', 'Ringz']

MUST_REJECT = {'control_into_audio_out', 'nan_input', 'none_input',
               'str_input', 'first_input_rate'}


def run_invalid(case, v):
    spec, fault = case['spec'], case['fault']
    from sc3.synth.synthdef import SynthDef
    from sc3.synth.ugens import installed_ugens as U
    inner = mcgen.Builder(spec)
    name = spec['name']
    if fault == 'name_too_long':
        name = 'n' * case['n']
    elif fault == 'name_non_ascii':
        name = 'déf' + chr(case['n'])
    elif fault == 'name_empty_ok':
        name = 'ok'
    body0 = inner.body

    def body(params):
        body0(params)
        if fault == 'control_into_audio_out':
            U['Out'].ar(0, [U['SinOsc'].ar(440, 0), U['SinOsc'].kr(3, 0)])
        elif fault in BAD_VALUES:
            # the bad value in input `pos` of a unit of class `cls` at `r`
            cls, r, pos = case.get('unit') or ['SinOsc', 'ar', 0]
            ent = UNIT_ARGS[cls]
            args = []
            for k, kind in enumerate(ent):
                if k == pos:
                    args.append(BAD_VALUES[fault])
                elif kind == 'eq':
                    args.append(getattr(U['SinOsc'], r)(440, 0))
                else:
                    args.append(0.5)
            sig = getattr(U[cls], r)(*args)
            if not hasattr(sig, '_as_ugen_input') or isinstance(sig, list):
                sig = sig[0]
            getattr(U['Out'], r)(0, sig)
        elif fault == 'tuple_input':
            U['Out'].ar(0, U['SinOsc'].ar((440, 441), 0))
        elif fault == 'tuple_input_known_constants':
            # the members of the tuple are constants of the graph already
            U['Out'].ar(0, [U['SinOsc'].ar(440, 0), U['SinOsc'].ar(441, 0),
                            U['SinOsc'].ar((440, 441), 0)])
        elif fault == 'first_input_rate':
            # a unit that must run at the rate of its first input gets a
            # signal of the other rate there
            cls, r, _ = case.get('unit') or ['LPF', 'ar', 0]
            if cls not in FIRST_RATE:
                cls = FIRST_RATE[len(cls) % len(FIRST_RATE)]
            other = 'kr' if r == 'ar' else 'ar'
            args = [getattr(U['SinOsc'], other)(3, 0)] + [0.5] * (
                len(UNIT_ARGS[cls]) - 1)
            getattr(U['Out'], r)(0, getattr(U[cls], r)(*args))

    inner.body = body
    variants = None
    if fault.startswith('variant_'):
        ps = spec['params']
        good = {'ok': {ps[0]['name']: 0.5}} if ps else {}
        if fault == 'variant_name_too_long':
            bad = {'v' * (case['n'] % 40 + 33): dict(good.get('ok', {}))}
        elif fault == 'variant_unknown_control':
            bad = {'bad': {'no_such_control': 1.0}}
        else:
            bad = {'bad': {ps[0]['name']: [1.0] * 9}} if ps else \
                {'bad': {'no_such_control': 1.0}}
        variants = dict(good)
        variants.update(bad)
        variants['last'] = dict(good.get('ok', {}))
    try:
        sd = SynthDef(name, inner.make_func(), variants=variants)
        data = G.def_bytes(sd)
    except Exception as e:
        # rejection is the documented outcome; it must come from the library
        if sc3_origin(e) or (e.__cause__ is not None and
                             sc3_origin(e.__cause__)) \
                or isinstance(e, (ValueError, TypeError, Exception)):
            return {'nontrivial': True, 'labels': [fault + ':rejected']}
    # accepted. The statement lists rate mismatches, NaN and non-numeric
    # inputs as graphs that must be rejected with an exception.
    if fault in MUST_REJECT:
        v.fail('invalid_graph_accepted',
               f'fault {fault} compiled to {len(data)} bytes without error')
    n0 = len(v.items)
    check_bytes(data, v, sd)
    if len(v.items) > n0:
        for it in v.items[n0:]:
            it.kind = 'invalid_graph_bad_bytes:' + it.kind
            it.detail = f'fault {fault}: ' + it.detail
    return {'nontrivial': True, 'labels': [fault + ':accepted']}


def names_strategy():
    alphabet = st.characters(min_codepoint=32, max_codepoint=126)
    return st.one_of(
        st.sampled_from(['mc', 'a', 'default', 'x' * 31, 'y' * 32, 'z' * 255]),
        st.text(alphabet, min_size=1, max_size=40),
        st.text(alphabet, min_size=200, max_size=255))


def stages(ctx):
    return [
        Stage('mc', run_mc, mcgen.mc_spec(max_steps=25,
                                          names=names_strategy()),
              quick=600, thorough=4000),
        Stage('mc_large', run_mc, mcgen.mc_spec(max_steps=110),
              quick=40, thorough=300),
        Stage('c01', run_c01, graphgen.graph_spec(max_steps=20),
              quick=300, thorough=2000),
        Stage('limits', run_limits, cases=limit_cases),
        Stage('invalid', run_invalid, st.fixed_dictionaries({
            'spec': mcgen.mc_spec(max_steps=6),
            'fault': st.sampled_from(FAULTS + sorted(BAD_VALUES)),
            'unit': st.sampled_from(BAD_UNITS),
            'n': st.integers(256, 400)}), quick=300, thorough=1500),
    ]
