"""C03 - Multichannel expansion follows the wrap-and-zip law everywhere."""

import ast
import inspect
import operator
import textwrap

from hypothesis import strategies as st

from vlib.core import Stage, sc3_origin, Reject

PROPERTY = 'C03'
LEVEL = 'exploration'
MODE = 'nrt'
SHARDS = {'quick': 2, 'thorough': 16}
MANIFEST = {
    'technique': 'property-based testing against a 15-line reference '
                 'implementation of wrap-and-zip expansion; the expanded '
                 'call is compared structurally with the single-channel '
                 'calls it must be equivalent to (metamorphic oracle), '
                 'inside one aborted build',
    'category': 'exploration',
    'text': 'For every unit-generator constructor that delegates directly to '
            'the generic expansion (found by an AST rule, ~290 class x rate '
            'pairs), for ChannelList operators and convenience methods, and '
            'for the output units, generated argument shapes (omitted, '
            'scalar, tuple, lists of co-prime lengths, nested lists, channel '
            'lists, lists of units) are passed; the result must have the '
            'nesting and lengths of the reference expansion, element i must '
            'equal (class, rate, operator, inputs by identity) the same call '
            'with element i mod len of every list, tuples must arrive '
            'unexpanded, and the number of units created must equal the '
            'number of leaf combinations.',
    'note': 'Trusted: the reference expand(); structural equality of units '
            '(identity for pre-existing inputs, recursive structure for '
            'units created by the call).',
}
RULE = (
    'ctor stage: class x rate drawn uniformly from the AST-selected generic '
    'constructors, each argument position drawn from {omitted, number, '
    'tuple, pool unit, list len 1-4, nested list depth<=3, ChannelList}. '
    'chanlist stage: ChannelList (possibly nested) with every Python infix '
    'operator (both orientations, number/unit/list/ChannelList operand), '
    'unary operators and the convenience methods with scalar or flat list '
    'arguments. out stage: Out/ReplaceOut/OffsetOut/XOut/LocalOut with '
    'nested channel lists containing literal 0/0.0. Non-trivial = two list '
    'arguments of different length, or nesting depth >= 2, or a tuple beside '
    'a list (out stage: a literal zero inside a list). Distinct by sha1.')
RULE += ' ' + (
    'Channel lists may get their elements after creation (append, item assignment, extend) before they are used.')
ASSUMPTIONS = [
    'Empty lists are not generated (the generic expansion treats an empty '
    'list as "no list").',
    'Tuples are generated only as constructor arguments; arithmetic between '
    'a channel list and a tuple has no documented meaning.',
    'Convenience methods of ChannelList get scalar or flat-list arguments '
    '(the law is stated for the channel-list method, not for the single '
    'unit method receiving a nested list).',
]

CATALOGUE = []       # (class name, method name, n params)


class _Abort(Exception):
    pass


def discover():
    from sc3.synth.ugens import installed_ugens
    out = []
    for name in sorted(installed_ugens):
        cls = installed_ugens[name]
        for meth in ('ar', 'kr', 'ir', 'new', 'dr'):
            fn = cls.__dict__.get(meth)
            if fn is None:
                continue
            fn = getattr(fn, '__func__', fn)
            try:
                src = textwrap.dedent(inspect.getsource(fn))
                tree = ast.parse(src)
            except (OSError, TypeError, SyntaxError):
                continue
            fd = tree.body[0]
            if not isinstance(fd, ast.FunctionDef):
                continue
            body = [s for s in fd.body
                    if not (isinstance(s, ast.Expr)
                            and isinstance(s.value, ast.Constant))]
            if len(body) != 1 or not isinstance(body[0], ast.Return):
                continue
            call = body[0].value
            if not (isinstance(call, ast.Call)
                    and isinstance(call.func, ast.Attribute)
                    and call.func.attr == '_multi_new'
                    and isinstance(call.func.value, ast.Name)
                    and call.func.value.id == 'cls'):
                continue
            if call.keywords or not call.args:
                continue
            if not (isinstance(call.args[0], ast.Constant)
                    and isinstance(call.args[0].value, str)):
                continue
            params = [a.arg for a in fd.args.args][1:]
            passed = [a.id if isinstance(a, ast.Name) else None
                      for a in call.args[1:]]
            if passed != params or fd.args.vararg or fd.args.kwonlyargs:
                continue
            out.append((name, meth, len(params)))
    return out


def setup(ctx):
    global U, ugn, SynthDef, ChannelList, main
    from sc3.synth.ugens import installed_ugens as U
    from sc3.synth import ugen as ugn
    from sc3.synth.synthdef import SynthDef
    from sc3.synth.ugen import ChannelList
    from sc3.base.main import main
    CATALOGUE[:] = discover()
    if len(CATALOGUE) < 150:
        raise RuntimeError(f'only {len(CATALOGUE)} generic constructors found')
    ctx.notes.append(f'{len(CATALOGUE)} generic constructors selected by the '
                     'AST rule')


# --- values from shapes -----------------------------------------------------------

def make_pool():
    return [U['SinOsc'].ar(101, 0), U['SinOsc'].kr(102, 0),
            U['LFNoise0'].ar(103), U['LFSaw'].kr(104, 0),
            U['Pan2'].ar(U['Dust'].ar(105), 0, 1)[1], U['Rand'].new(0, 106),
            U['WhiteNoise'].ar(), U['LFPulse'].kr(107, 0, 0.5)]


def realise(shape, pool):
    k = shape[0]
    if k == 'n':
        return shape[1]
    if k == 'u':
        return pool[shape[1] % len(pool)]
    if k == 't':
        return tuple(shape[1])
    if k == 'l':
        return [realise(s, pool) for s in shape[1]]
    if k == 'cl':
        items = [realise(s, pool) for s in shape[1]]
        how = shape[2] if len(shape) > 2 else None
        # a channel list is a list: it may get its elements after creation
        if how == 'append':
            cl = ChannelList(items[:-1])
            cl.append(items[-1])
            return cl
        if how == 'setitem':
            cl = ChannelList([0] * len(items))
            for i, x in enumerate(items):
                cl[i] = x
            return cl
        if how == 'extend':
            cl = ChannelList(items[:1])
            cl.extend(items[1:])
            return cl
        return ChannelList(items)
    raise ValueError(shape)


def depth(shape):
    if shape[0] in ('l', 'cl'):
        return 1 + max([depth(s) for s in shape[1]] or [0])
    return 0


def ref_expand(call, args):
    lens = [len(a) for a in args if isinstance(a, list)]
    if not lens:
        return call(*args)
    n = max(lens)
    return [ref_expand(call, [a[i % len(a)] if isinstance(a, list) else a
                              for a in args]) for i in range(n)]


class Raised:
    def __init__(self, e):
        self.e = e


def leafwrap(call, log):
    def f(*args):
        try:
            r = call(*args)
        except _Abort:
            raise
        except Exception as e:
            if sc3_origin(e) is None and not isinstance(
                    e, (TypeError, ValueError, AttributeError, IndexError,
                        KeyError, ZeroDivisionError, OverflowError)):
                raise
            r = Raised(e)
        log.append(r)
        return r
    return f


def same(a, b, memo=None):
    """Structural equality of results: identity, or same kind of unit with
    pairwise-same inputs; numbers/tuples/strings by type and value."""
    if a is b:
        return True
    if isinstance(a, list) and isinstance(b, list):
        return len(a) == len(b) and all(same(x, y) for x, y in zip(a, b))
    if isinstance(a, list) or isinstance(b, list):
        return False
    A, B = isinstance(a, ugn.SynthObject), isinstance(b, ugn.SynthObject)
    if A != B:
        return False
    if not A:
        if isinstance(a, tuple) and isinstance(b, tuple):
            return len(a) == len(b) and all(same(x, y) for x, y in zip(a, b))
        return type(a) is type(b) and (a == b or (a != a and b != b))
    if type(a) is not type(b) or a.rate != b.rate:
        return False
    if isinstance(a, ugn.OutputProxy):
        return a._output_index == b._output_index and same(
            a.source_ugen, b.source_ugen)
    if getattr(a, '_operator', None) != getattr(b, '_operator', None):
        return False
    if getattr(a, '_special_index', 0) != getattr(b, '_special_index', 0) \
            and not isinstance(a, ugn.MultiOutUGen):
        return False
    ia, ib = a.inputs, b.inputs
    if len(ia) != len(ib):
        return False
    return all(same(x, y) for x, y in zip(ia, ib)) and len(
        getattr(a, '_channels', [])) == len(getattr(b, '_channels', []))


def in_build(body):
    """Run body() inside a definition build that is aborted at the end."""
    box = {}

    def graph():
        box['sd'] = main._current_synthdef
        box['result'] = body(box['sd'])
        raise _Abort()

    try:
        SynthDef('c03', graph)
    except _Abort:
        pass
    return box.get('result')


def describe(x, d=0):
    if isinstance(x, list):
        return '[' + ', '.join(describe(i, d + 1) for i in x[:6]) + ']'
    if isinstance(x, Raised):
        return f'<raised {type(x.e).__name__}>'
    try:
        return repr(x)[:80]
    except Exception:
        return f'<{type(x).__name__}>'


def compare_call(v, call, args, kind, where):
    """Inside a build: real = call(*args) vs reference expansion."""
    sd = main._current_synthdef
    log = []
    n0 = len(sd._children)
    try:
        real = call(*args)
        real_exc = None
    except _Abort:
        raise
    except Exception as e:
        if sc3_origin(e) is None and not isinstance(
                e, (TypeError, ValueError, AttributeError, IndexError,
                    KeyError, ZeroDivisionError, OverflowError)):
            raise
        real, real_exc = None, e
    n_real = len(sd._children) - n0
    n1 = len(sd._children)
    ref = ref_expand(leafwrap(call, log), list(args))
    n_ref = len(sd._children) - n1
    any_raised = any(isinstance(r, Raised) for r in log)
    if real_exc is not None or any_raised:
        if (real_exc is None) != (not any_raised):
            v.fail(kind + '_raises_differently',
                   f'{where}: expanded call '
                   f'{"raised " + repr(real_exc) if real_exc else "returned"}'
                   f', single-channel calls '
                   f'{[describe(r) for r in log if isinstance(r, Raised)][:2]}')
        return 'raised', len(log)
    if not same(real, ref):
        v.fail(kind + '_structure',
               f'{where}: expanded {describe(real)} != reference '
               f'{describe(ref)}')
    elif n_real != n_ref:
        v.fail(kind + '_unit_count',
               f'{where}: expanded call created {n_real} units, the '
               f'{len(log)} single-channel calls create {n_ref}')
    return 'ok', len(log)


# --- ctor stage -------------------------------------------------------------------

def run_ctor(case, v):
    cls_name, meth, nparams = CATALOGUE[case['entry'] % len(CATALOGUE)]
    shapes = case['args'][:nparams]
    info = {}

    def body(sd):
        pool = make_pool()
        args = [realise(s, pool) for s in shapes]
        ctor = getattr(U[cls_name], meth)
        info['r'] = compare_call(v, ctor, args, 'ctor',
                                 f'{cls_name}.{meth}{tuple(shapes)}')

    in_build(body)
    lens = {len(s[1]) for s in shapes if s[0] in ('l', 'cl')}
    dmax = max([depth(s) for s in shapes] or [0])
    has_tuple = any(s[0] == 't' for s in shapes) or any(
        x[0] == 't' for s in shapes if s[0] in ('l', 'cl') for x in s[1])
    nontrivial = len(lens) >= 2 or dmax >= 2 or (has_tuple and bool(lens))
    labels = [info.get('r', ('?',))[0]]
    if len(lens) >= 2:
        labels.append('different_lengths')
    if dmax >= 2:
        labels.append('nested')
    if has_tuple and lens:
        labels.append('tuple_beside_list')
    if not lens:
        labels.append('no_list')
    return {'nontrivial': nontrivial, 'labels': labels}


NUMS = [0, 1, 0.5, 2, 440, -1, 3.25]


def leaf_shape():
    return st.one_of(
        st.sampled_from(NUMS).map(lambda x: ['n', x]),
        st.integers(0, 7).map(lambda k: ['u', k]))


def tuple_shape():
    return st.lists(st.sampled_from(NUMS), min_size=1, max_size=3).map(
        lambda xs: ['t', xs])


def list_shape(max_depth):
    elem = st.one_of(leaf_shape(), leaf_shape(), tuple_shape())
    if max_depth > 1:
        elem = st.one_of(elem, elem, st.deferred(
            lambda: list_shape(max_depth - 1)))
    return st.tuples(st.sampled_from(['l', 'l', 'cl']),
                     st.lists(elem, min_size=1, max_size=4),
                     st.sampled_from([None, None, 'append', 'setitem',
                                      'extend'])).map(
        lambda t: [t[0], t[1], t[2]] if t[0] == 'cl' and t[2]
        else [t[0], t[1]])


def arg_shape():
    return st.one_of(leaf_shape(), leaf_shape(), tuple_shape(),
                     list_shape(3), list_shape(1), list_shape(1))


def ctor_cases():
    return st.fixed_dictionaries({
        'entry': st.integers(0, 100000),
        'args': st.lists(arg_shape(), min_size=0, max_size=10)})


def ctor_sweep(ctx):
    """Every catalogue entry with two fixed shape vectors (thorough sweep of
    the population; the random stage samples it)."""
    fixed = [
        [['l', [['n', 1], ['u', 0], ['n', 2]]], ['l', [['n', 3], ['u', 1]]],
         ['n', 0.5], ['t', [1, 2]], ['l', [['n', 4]]]] * 2,
        [['cl', [['l', [['n', 1], ['n', 2]]], ['u', 2]]], ['n', 1],
         ['l', [['u', 3], ['n', 5], ['n', 6], ['n', 7]]]] * 4,
    ]
    k = 0
    for e in range(len(CATALOGUE)):
        for f in fixed:
            if k % ctx.nshards == ctx.shard:
                yield {'entry': e, 'args': f}
            k += 1


# --- chanlist stage ------------------------------------------------------------------

INFIX = {'+': operator.add, '-': operator.sub, '*': operator.mul,
         '/': operator.truediv, '//': operator.floordiv, '%': operator.mod,
         '**': operator.pow, '<': operator.lt, '>': operator.gt,
         '<=': operator.le, '>=': operator.ge, '&': operator.and_,
         '|': operator.or_}
UNARY = ['neg', 'abs', 'midicps', 'squared', 'reciprocal', 'tanh', 'floor',
         'sign', 'distort']
# method -> number of arguments generated (all have defaults or are required)
METHODS = {
    'madd': 2, 'range': 2, 'exprange': 2, 'unipolar': 1, 'bipolar': 1,
    'clip': 2, 'fold': 2, 'wrap': 2, 'lag': 1, 'lag2': 1, 'lag3': 1,
    'lagud': 2, 'slew': 2, 'blend': 2, 'min': 1, 'max': 1, 'round': 1,
    'linlin': 4, 'linexp': 4, 'moddif': 2, 'prune': 2, 'dup': 0, 'sum': 0,
}


def unit_only(shape):
    """The channel list under test holds units only (plain numbers have no
    unit methods, and number-with-number arithmetic is the numeric kernels'
    business, C15), and its nested levels are channel lists too, as the
    library's own expansions produce them."""
    k = shape[0]
    if k in ('l', 'cl'):
        return ['cl', [unit_only(s) for s in shape[1]]]
    if k == 'u':
        return shape
    return ['u', (hash(str(shape)) % 7)]


def run_chanlist(case, v):
    info = {}
    kind = case['kind']

    def body(sd):
        pool = make_pool()
        if kind == 'infix':
            a = realise(unit_only(case['self']), pool)
            b = realise(case['other'], pool)
            op = INFIX[case['op']]
            args = [b, a] if case['swap'] else [a, b]
            if case['swap'] and isinstance(b, list) and not isinstance(
                    b, ChannelList):
                raise Reject()      # list + ChannelList is list concatenation
            info['r'] = compare_call(
                v, op, args, 'operator',
                f'{case["op"]} swap={case["swap"]} {case["self"]} '
                f'{case["other"]}')
        elif kind == 'unary':
            a = realise(unit_only(case['self']), pool)
            a = ChannelList(a if isinstance(a, list) else [a])
            name = case['op']
            call = (lambda x: -x) if name == 'neg' else (
                lambda x: getattr(x, name)())
            info['r'] = compare_call(v, call, [a], 'unary',
                                     f'{name} {case["self"]}')
        else:
            a = realise(unit_only(case['self']), pool)
            a = ChannelList(a if isinstance(a, list) else [a])
            name = case['op']
            nargs = METHODS[name]
            args = [realise(s, pool) for s in case['margs'][:nargs]]
            if name == 'dup':
                r = a.dup(3)
                if not (isinstance(r, ChannelList) and len(r) == 3
                        and all(x is a for x in r)):
                    v.fail('method_dup', f'{describe(r)}')
                info['r'] = ('ok', 1)
                return
            if name == 'sum':
                flat = ChannelList([x for x in a
                                    if not isinstance(x, list)] or [pool[0]])
                r = flat.sum()
                ref = 0
                for x in flat:
                    ref = ref + x
                if not same(r, ref):
                    v.fail('method_sum', f'{describe(r)} vs {describe(ref)}')
                info['r'] = ('ok', 1)
                return
            call = lambda x, *rest: getattr(x, name)(*rest)
            info['r'] = compare_call(
                v, call, [a] + args, 'method',
                f'{name} self={case["self"]} args={case["margs"][:nargs]}')

    in_build(body)
    shapes = [case['self']] + ([case['other']] if kind == 'infix' else
                               case.get('margs', [])[:METHODS.get(
                                   case['op'], 0)] if kind == 'method' else [])
    lens = {len(s[1]) for s in shapes if s[0] in ('l', 'cl')}
    dmax = max([depth(s) for s in shapes] or [0])
    labels = [kind, info.get('r', ('?',))[0]]
    nontrivial = len(lens) >= 2 or dmax >= 2
    if len(lens) >= 2:
        labels.append('different_lengths')
    if dmax >= 2:
        labels.append('nested')
    return {'nontrivial': nontrivial, 'labels': labels}


def method_sweep(ctx):
    """Every convenience method and operator with a few fixed shapes."""
    selfs = [['cl', [['u', 0], ['u', 2]]],
             ['cl', [['u', 0], ['cl', [['u', 2], ['u', 4]]], ['u', 6]]]]
    argsets = [
        [['n', 0.5], ['n', 2], ['n', 1], ['n', 10]],
        [['l', [['n', 0.1], ['n', 0.5], ['n', 1]]], ['n', 2], ['n', 1],
         ['n', 10]],
        [['n', 0.5], ['l', [['n', 2], ['n', 10], ['n', 1]]], ['n', 1],
         ['l', [['n', 10], ['n', 2]]]],
    ]
    k = 0
    for name in sorted(METHODS):
        for sf in selfs:
            for margs in argsets:
                if k % ctx.nshards == ctx.shard:
                    yield {'kind': 'method', 'self': sf, 'op': name,
                           'margs': margs}
                k += 1
    others = [['n', 2], ['u', 1], ['l', [['n', 2], ['u', 1], ['n', 3]]],
              ['cl', [['u', 3], ['cl', [['n', 2], ['u', 5]]]]]]
    for op in sorted(INFIX):
        for sf in selfs:
            for other in others:
                for swap in (False, True):
                    if k % ctx.nshards == ctx.shard:
                        yield {'kind': 'infix', 'self': sf, 'other': other,
                               'op': op, 'swap': swap}
                    k += 1
    for op in UNARY:
        for sf in selfs:
            if k % ctx.nshards == ctx.shard:
                yield {'kind': 'unary', 'self': sf, 'op': op}
            k += 1


def flat_list_shape():
    return st.tuples(st.sampled_from(['l', 'cl']),
                     st.lists(leaf_shape(), min_size=1, max_size=4)).map(list)


def chanlist_cases():
    selfshape = st.one_of(
        flat_list_shape().map(lambda s: ['cl', s[1]]),
        list_shape(2).map(lambda s: ['cl', s[1]]))
    notuple = lambda s: 't' not in str(s).replace("'cl'", '').replace(
        "'l'", '').split("'t'")[0] if False else True
    infix = st.fixed_dictionaries({
        'kind': st.just('infix'), 'self': selfshape.map(strip_tuples),
        'other': st.one_of(leaf_shape(), flat_list_shape(),
                           list_shape(2).map(strip_tuples)),
        'op': st.sampled_from(sorted(INFIX)), 'swap': st.booleans()})
    unary = st.fixed_dictionaries({
        'kind': st.just('unary'), 'self': selfshape.map(strip_tuples),
        'op': st.sampled_from(UNARY)})
    method = st.fixed_dictionaries({
        'kind': st.just('method'), 'self': selfshape.map(strip_tuples),
        'op': st.sampled_from(sorted(METHODS)),
        'margs': st.lists(st.one_of(
            st.sampled_from([0.1, 0.5, 1, 2, 10]).map(lambda x: ['n', x]),
            st.lists(st.sampled_from([0.1, 0.5, 1, 2, 10]).map(
                lambda x: ['n', x]), min_size=1, max_size=4).map(
                    lambda xs: ['l', xs])), min_size=4, max_size=4)})
    return st.one_of(infix, infix, unary, method, method)


def strip_tuples(shape):
    k = shape[0]
    if k in ('l', 'cl'):
        return [k, [strip_tuples(s) for s in shape[1]]]
    if k == 't':
        return ['n', shape[1][0]]
    return shape


# --- out stage ------------------------------------------------------------------------

OUTS = {'Out': 1, 'ReplaceOut': 1, 'OffsetOut': 1, 'XOut': 2, 'LocalOut': 0}


def only_zeros(shape):
    if shape[0] == 'l':
        return all(only_zeros(s) for s in shape[1])
    return shape[0] == 'z'


def run_out(case, v):
    name = case['cls']
    nfixed = OUTS[name]
    info = {'zero': False, 'shared': False}
    # lists of literal numbers only are the caller's own objects: the same
    # objects are passed again in a second build (a constant "muted pair")
    keep = {}

    def body(sd):
        pool = [U['SinOsc'].ar(101, 0), U['LFNoise0'].ar(103),
                U['WhiteNoise'].ar(), U['Dust'].ar(104),
                U['Pan2'].ar(U['Dust'].ar(105), 0, 1)[1]]

        def chans(shape, path=()):
            if shape[0] == 'l':
                if path and only_zeros(shape):
                    if path in keep:
                        info['shared'] = True
                    else:
                        keep[path] = [chans(s, path + (k,))
                                      for k, s in enumerate(shape[1])]
                    return keep[path]
                return [chans(s, path + (k,))
                        for k, s in enumerate(shape[1])]
            if shape[0] == 'z':
                info['zero'] = True
                return shape[1]
            return pool[shape[1] % len(pool)]

        def plain(x):     # the argument as the caller wrote it
            return [plain(y) for y in x] if isinstance(x, list) else x

        def pure(shape):
            # (what the caller's literal lists contain: numbers)
            if shape[0] == 'l':
                return [pure(s) for s in shape[1]]
            return shape[1] if shape[0] == 'z' else None

        def written(shape, val):
            if shape[0] == 'l':
                if only_zeros(shape):
                    return pure(shape)
                return [written(s, x) for s, x in zip(shape[1], val)]
            return val

        ch = chans(case['chs'])
        fixed = [case['bus']] if nfixed >= 1 else []
        if nfixed == 2:
            fixed.append(0.5)
        # reference: positions are the fixed args followed by one position
        # per top-level channel; nested lists expand by the general law
        # (taken from what the caller wrote, before the call)
        ref_ch = written(case['chs'], plain(ch))
        positions = fixed + (ref_ch if isinstance(ref_ch, list) else [ref_ch])
        n0 = len(sd._children)
        getattr(U[name], 'ar')(*fixed, ch)
        created = [u for u in sd._children[n0:] if type(u).__name__ == name]
        leaves = []
        ref_expand(lambda *a: leaves.append(a), positions)
        if len(created) != len(leaves):
            v.fail('out_unit_count',
                   f'{name}.ar {case["chs"]}: {len(created)} units for '
                   f'{len(leaves)} combinations')
            return
        for u, exp in zip(created, leaves):
            got = u.inputs
            if len(got) != len(exp):
                v.fail('out_inputs', f'{describe(list(got))} vs '
                       f'{describe(list(exp))}')
                return
            for k, (g, e) in enumerate(zip(got, exp)):
                if k >= nfixed and isinstance(e, (int, float)) and e == 0:
                    src = getattr(g, 'source_ugen', g)
                    ok = (isinstance(g, ugn.SynthObject) and g.rate == 'audio'
                          and type(src).__name__ == 'DC'
                          and src._synthdef is sd
                          and len(src.inputs) == 1
                          and isinstance(src.inputs[0], (int, float))
                          and src.inputs[0] == 0)
                    if not ok:
                        v.fail('out_zero_not_silence',
                               f'{name}.ar input {k}: {describe(g)}')
                elif not (g is e or (not isinstance(e, ugn.SynthObject)
                                     and type(g) is type(e) and g == e)):
                    v.fail('out_inputs',
                           f'{name}.ar input {k}: {describe(g)} vs '
                           f'{describe(e)}')

    in_build(body)
    if keep and not v.items:
        in_build(body)      # the same literal lists in another definition
    d = depth(case['chs'])
    return {'nontrivial': info['zero'] and d >= 1,
            'labels': [name, f'depth_{d}'] + (['zero'] if info['zero'] else [])
            + (['literal_list_reused'] if info['shared'] else [])}


def out_cases():
    leaf = st.one_of(st.integers(0, 4).map(lambda k: ['u', k]),
                     st.integers(0, 4).map(lambda k: ['u', k]),
                     st.sampled_from([0, 0.0]).map(lambda z: ['z', z]))

    def lst(d):
        elem = leaf if d <= 1 else st.one_of(leaf, leaf, st.deferred(
            lambda: lst(d - 1)))
        return st.lists(elem, min_size=1, max_size=4).map(
            lambda xs: ['l', xs])
    return st.fixed_dictionaries({
        'cls': st.sampled_from(sorted(OUTS)),
        'bus': st.integers(0, 32),
        'chs': st.one_of(leaf, lst(1), lst(1), lst(2), lst(3))})


def stages(ctx):
    return [
        Stage('ctor', run_ctor, ctor_cases(), quick=3000, thorough=10000),
        Stage('ctor_sweep', run_ctor, cases=ctor_sweep, exhaustive=False),
        Stage('chanlist', run_chanlist, chanlist_cases(), quick=2500,
              thorough=6000),
        Stage('chanlist_sweep', run_chanlist, cases=method_sweep),
        Stage('out', run_out, out_cases(), quick=1500, thorough=5000),
    ]
