"""C08 - Real-time clocks wake every task once, on time, in order, and survive
errors."""

from fractions import Fraction as F

from hypothesis import strategies as st

from vlib.core import Stage, Reject

PROPERTY = 'C08'
LEVEL = 'exploration'
MODE = None
SHARDS = {'quick': 2, 'thorough': 16}
MANIFEST = {
    'technique': 'property-based testing over generated concurrent '
                 'scheduling histories on a deterministic simulation of the '
                 'clock threads (virtual time; a generated tape chooses the '
                 'interleaving at every lock/condition operation and the '
                 'latency of every timed wake-up); history invariants as '
                 'oracle; failing tape = exact replay',
    'category': 'exploration',
    'text': 'Scripts of sched/sched_abs/clear/stop/tempo calls are issued '
            'concurrently from the main thread, from 1-3 other simulated '
            'threads and from inside clock tasks against SystemClock, '
            'AppClock and 0-2 TempoClocks (tempo != 1, tempo changes while '
            'tasks sleep); tasks return numbers (re-schedule), non-numbers, '
            'raise exceptions or StopStream. On the observed history: every '
            'scheduling is invoked exactly once (plus once per numeric '
            'return), never before its scheduled time and never later than '
            'the injected wake-up latency after it (so not waiting for an '
            'unrelated later deadline), in (time, scheduling order) per '
            'clock, with logical time = scheduled time and re-scheduling '
            'relative to the scheduled time (physical time on AppClock); '
            'nothing runs after clear()/stop(); a raising task leaves the '
            'others and the clock thread untouched.',
    'note': 'Trusted: the simulation shim (vlib/rtsim.py): real sc3 clock '
            'threads gated by a baton, pre-emption only at the library\'s '
            'own synchronisation operations. Races inside regions the '
            'library protects with no lock are not explored.',
}
RULE = (
    'Hypothesis draws 0-2 TempoClock tempos, per thread a script of sleeps '
    '(dyadic, aligned so that callers become runnable at the same virtual '
    'instants as clock wake-ups) and scheduling ops with deltas >= 1/8 s, '
    'task behaviours, and a tape of 0-80 small ints. Non-trivial = a task '
    'became the earliest of its clock while the clock thread was asleep on '
    'a later deadline (or with an empty queue), or a raising task had '
    'successors, or a clear/stop cancelled pending tasks. Distinct by sha1 '
    'of case (scripts + tape).')
ASSUMPTIONS = [
    'Upper bound on lateness = the largest latency the tape can inject '
    '(1/64 s) per wake-up; executing a task takes no virtual time.',
    'Every scheduling uses a fresh task object (re-adding the same object '
    'moves it, which is C09/C10 matter).',
]

RT = []
LAT = F(1, 64)


def setup(ctx):
    from vlib import workers
    RT.append(workers.rtsim_worker())


def teardown(ctx):
    for w in RT:
        w.close()


# --- oracle ------------------------------------------------------------------------

class Timeline:
    """beats <-> seconds of one TempoClock, reconstructed from the tempo ops
    observed in the history."""

    def __init__(self, tempo):
        self.segs = [(F(0), F(0), F(tempo))]     # (secs, beats, tempo)
        self.ns = [-1]                           # record number of the change

    def change(self, secs, tempo, n):
        s0, b0, t0 = self.segs[-1]
        secs = F(secs)
        self.segs.append((secs, b0 + (secs - s0) * t0, F(tempo)))
        self.ns.append(n)

    def beats(self, secs, n):
        """Beats at `secs` under the map in effect when record n was
        written (a change is anchored at the logical time of the task that
        made it, which may lie before the physical instant of a call that
        nevertheless preceded it)."""
        secs = F(secs)
        seg = [s for s, k in zip(self.segs, self.ns) if k < n]
        s0, b0, t0 = seg[-1]
        return b0 + (secs - s0) * t0

    def secs(self, beats):
        beats = F(beats)
        for i, (s0, b0, t0) in enumerate(self.segs):
            nxt = self.segs[i + 1] if i + 1 < len(self.segs) else None
            if nxt is None or beats < nxt[1]:
                return s0 + (beats - b0) / t0
        return None


def evaluate(case, out, v):
    hist = out['hist']
    tl = [Timeline(t) for t in case['clocks']]
    for h in hist:
        if h['ev'] == 'tempo':
            # tempo changes are made by tasks running on that clock: the
            # change happens at the task's logical time
            tl[h['clock']].change(h['L'], h['tempo'], h['n'])
    invs = {}
    for h in hist:
        if h['ev'] == 'inv':
            invs.setdefault(h['task'], []).append(h)
    specs = {}

    def collect(ops):
        for op in ops:
            if op[0] in ('sched', 'sched_abs'):
                specs[op[3]['id']] = op[3]
                collect(op[3].get('do', []))
    for th in case['threads']:
        collect(th)
    cancels = [h for h in hist if h['ev'] in ('clear', 'stop')]
    inv_of_task = {}      # who 'taskN' -> its first invocation record
    for tid, lst in invs.items():
        inv_of_task[f'task{tid}'] = lst[0]
    labels = set()
    nontrivial = False
    per_clock = {}
    end = F(out['end'])
    for h in hist:
        if h['ev'] not in ('sched', 'sched_abs'):
            continue
        clock = h['clock']
        tid = h['task']
        spec = specs[tid]
        from_task = str(h['who']).startswith('task')
        base = F(h['L']) if from_task else F(h['t'])
        t_call = F(h['t'])
        # scheduled time in clock units and in seconds
        if isinstance(clock, int):
            if h['ev'] == 'sched':
                key = tl[clock].beats(base, h['n']) + F(h['delta'])
            else:
                key = F(h['when'])
            to_secs = tl[clock].secs
        else:
            key = base + F(h['delta']) if h['ev'] == 'sched' else F(h['when'])
            if clock == 'app' and h['ev'] == 'sched':
                key = t_call + F(h['delta'])     # physical present
            to_secs = lambda x: x
        got = invs.get(tid, [])
        k = 0
        n_call = h['n']
        while True:
            due = to_secs(key)
            if due is None:
                break
            # clear(): cancels what is pending when it returns. stop():
            # the clock is going away - whatever is or gets scheduled on it
            # from the stop() call on may be dropped
            # (a clear() by another thread at the very same virtual instant
            # may have taken effect after the task was queued even if it was
            # recorded first: AppClock.sched is two locked regions)
            cancelled_by = [c for c in cancels if c['clock'] == clock
                            and (c['n'] > n_call or c['ev'] == 'stop'
                                 or F(c['t']) == t_call)]
            if k >= len(got):
                # not invoked: fine only if cancelled while still pending,
                # or not yet due when the observation ended
                pend_ok = any(F(c['t']) <= max(due, t_call) + LAT
                              for c in cancelled_by)
                pend_ok = pend_ok or any(c['ev'] == 'stop'
                                         for c in cancelled_by)
                if not pend_ok and max(due, t_call) + LAT < end:
                    v.fail('task_never_invoked',
                           f'task {tid} (invocation {k}) on {clock} due at '
                           f'{float(due)} s never ran; history end '
                           f'{float(end)}')
                if pend_ok:
                    labels.add('cancelled_pending')
                break
            g = got[k]
            T = F(g['t'])
            for c in cancelled_by:
                if c['ev'] == 'clear' and g['n'] > c['n'] \
                        and n_call < c['n']:
                    v.fail('invoked_after_cancel',
                           f'task {tid} scheduled before {c["ev"]} of '
                           f'{clock} ran after it (t={float(T)})')
            if T < due:
                v.fail('invoked_early',
                       f'task {tid} on {clock}: ran at {float(T)} before '
                       f'its scheduled time {float(due)}')
            if T > max(due, t_call) + LAT:
                v.fail('invoked_late',
                       f'task {tid} on {clock}: due {float(due)} (scheduled '
                       f'at {float(t_call)}) ran at {float(T)}, more than '
                       f'the wake-up latency later')
            if clock == 'sys':
                if abs(F(g['L']) - due) > F(1, 2 ** 40):
                    v.fail('logical_time_not_scheduled_time',
                           f'task {tid} on {clock}: logical {g["L"]} vs '
                           f'scheduled {float(due)}')
            elif isinstance(clock, int):
                # in the clock's own unit (a tempo change landing between
                # the due instant and a late wake-up re-maps the seconds)
                if abs(F(g['beats']) - key) > F(1, 2 ** 40):
                    v.fail('logical_time_not_scheduled_time',
                           f'task {tid} on clock {clock}: beats '
                           f'{g["beats"]} vs scheduled {float(key)}')
            per_clock.setdefault(clock, []).append(
                (due, n_call, g['n'], T, t_call, tid, k,
                 h['who'] if k == 0 else f'resched{tid}'))
            rets = spec['rets']
            r = rets[k] if k < len(rets) else None
            if isinstance(r, (int, float)) and not isinstance(r, bool):
                if clock == 'app':
                    key = T + F(r)
                else:
                    key = key + F(r)
                ret = [x for x in hist if x['ev'] == 'ret'
                       and x['task'] == tid and x['k'] == k]
                n_call = ret[0]['n'] if ret else g['n']
                t_call = T
                k += 1
                continue
            if r == 'raise':
                labels.add('raising_task')
            k += 1
            if k < len(got):
                v.fail('invoked_too_often',
                       f'task {tid} on {clock} ran {len(got)} times, '
                       f'expected {k}')
            break
    # order per clock
    for clock, lst in per_clock.items():
        for a in lst:
            for b in lst:
                # ties in scheduled time: scheduling order is observable
                # only between calls of one caller or at different instants
                # (two threads inside sched() at the same instant may be
                # recorded in either order)
                tie_known = a[7] == b[7] or a[4] < b[4]
                before = a[0] < b[0] or (a[0] == b[0] and a[1] < b[1]
                                         and tie_known)
                if before and b[4] <= a[3] and a[2] > b[2]:
                    v.fail('order_within_clock',
                           f'{clock}: task {a[5]} (time {float(a[0])}) ran '
                           f'after task {b[5]} (time {float(b[0])})')
                    break
            else:
                continue
            break
    for name, ok in out['alive'].items():
        stopped = any(c['ev'] == 'stop' and str(c['clock']) == name
                      for c in cancels)
        if not ok and not stopped:
            v.fail('clock_thread_died', f'clock {name}')
    if out['errors']:
        v.fail('clock_thread_raised', str(out['errors'])[:400])
    # non-trivial: new head while the clock thread sleeps on a later deadline
    waits = out['waits']
    for h in hist:
        if h['ev'] in ('sched', 'sched_abs'):
            name = {'sys': 'SystemClock', 'app': 'AppClock'}.get(
                h['clock'], 'TempoClock')
            prior = [w for w in waits if w[1].startswith(name)
                     and w[0] <= h['t']]
            if prior:
                w = prior[-1]
                if w[2] is None or w[2] > h['t'] + (h.get('delta') or 0):
                    labels.add('new_head_while_asleep')
                    nontrivial = True
    if 'raising_task' in labels and len(specs) > 1:
        nontrivial = True
    if 'cancelled_pending' in labels:
        nontrivial = True
    if out['preempts']:
        labels.add('preempted')
    return {'nontrivial': nontrivial, 'labels': sorted(labels)}


def run_case(case, v):
    out = RT[0].ask({'module': 'vlib.c08_exec', 'func': 'run', 'case': case})
    if 'deadlock' in out:
        v.fail('deadlock', out['deadlock'])
        return {'nontrivial': False, 'labels': ['deadlock']}
    if 'error' in out:
        raise RuntimeError(out['error'] + out.get('tb', ''))
    return evaluate(case, out, v)


# --- generator ----------------------------------------------------------------------

DELTAS = [0.125, 0.25, 0.25, 0.375, 0.5, 0.75, 1, 1.0]
SLEEPS = [0.0625, 0.125, 0.125, 0.25, 0.25, 0.375, 0.5]


@st.composite
def cases(draw):
    nclocks = draw(st.integers(0, 2))
    tempos = [draw(st.sampled_from([0.5, 2, 4])) for _ in range(nclocks)]
    refs = ['sys', 'sys', 'app'] + list(range(nclocks))
    refs_main = refs
    refs_other = ['sys', 'sys', 'app'] + list(range(max(nclocks - 1, 0)))
    tid = [0]

    def task(depth=0, on=None):
        tid[0] += 1
        kind = draw(st.integers(0, 9))
        if kind <= 3:
            rets = [None]
        elif kind <= 5:
            rets = [draw(st.sampled_from(DELTAS))
                    for _ in range(draw(st.integers(1, 3)))] + [None]
        elif kind == 6:
            rets = ['raise']
        elif kind == 7:
            rets = ['stop']
        elif kind == 8:
            rets = [draw(st.sampled_from(DELTAS)), 'raise']
        else:
            rets = [draw(st.sampled_from(['hang', True]))]
        t = {'id': tid[0], 'rets': rets}
        if depth == 0 and draw(st.integers(0, 4)) == 0:
            t['do'] = [['sched', draw(st.sampled_from(refs_other)),
                        draw(st.sampled_from(DELTAS)), task(1)]]
        elif depth == 0 and isinstance(on, int) and \
                draw(st.integers(0, 2)) == 0:
            # tempo change from a task of that clock, others asleep on it
            t['do'] = [['tempo', on, draw(st.sampled_from([0.5, 1, 2, 4]))]]
        return t

    stopped = [False]

    def script(is_main):
        refs = list(refs_main if is_main else refs_other)
        ops = []
        for _ in range(draw(st.integers(1, 7))):
            k = draw(st.integers(0, 13))
            if k <= 6:
                c = draw(st.sampled_from(refs))
                ops.append(['sched', c, draw(st.sampled_from(DELTAS)),
                            task(on=c)])
            elif k == 7:
                # (AppClock has no sched_abs)
                ops.append(['sched_abs', draw(st.sampled_from(
                    [r for r in refs if r != 'app'])),
                    draw(st.sampled_from(DELTAS)), task()])
            elif k == 8:
                ops.append(['clear', draw(st.sampled_from(refs))])
            elif k == 9 and [r for r in refs if isinstance(r, int)]:
                c = draw(st.sampled_from(
                    [r for r in refs if isinstance(r, int)]))
                ops.append(['sched', c, draw(st.sampled_from(DELTAS)),
                            task(on=c)])
            elif k == 10 and nclocks and is_main and not stopped[0]:
                # the last TempoClock is used by the main thread only, so
                # that stop() does not race with calls from other threads
                stopped[0] = True
                ops.append(['stop', nclocks - 1])
                # using a clock after stop() is not part of the property
                refs = [r for r in refs if r != nclocks - 1]
            else:
                ops.append(['sleep', draw(st.sampled_from(SLEEPS))])
        return ops

    threads = [script(True)]
    for _ in range(draw(st.integers(0, 3))):
        threads.append(script(False))
    return {'clocks': tempos, 'threads': threads,
            'tape': draw(st.lists(st.integers(0, 11), max_size=80)),
            'horizon': 6.0}


def stages(ctx):
    return [Stage('history', run_case, cases(), quick=900, thorough=4000)]
