"""C08 - Real-time clocks wake every task once, on time, in order, and survive
errors."""

from fractions import Fraction as F

from hypothesis import strategies as st

from vlib.core import Stage, Reject

PROPERTY = 'C08'
LEVEL = 'exploration'
MODE = None
SHARDS = {'quick': 2, 'thorough': 16}
MANIFEST = {
    'technique': 'property-based testing over generated concurrent '
                 'scheduling histories on a deterministic simulation of the '
                 'clock threads (virtual time; a generated tape chooses the '
                 'interleaving at every lock/condition operation and the '
                 'latency of every timed wake-up); history invariants as '
                 'oracle; failing tape = exact replay',
    'category': 'exploration',
    'text': 'Scripts of sched/sched_abs/clear/stop/tempo calls are issued '
            'concurrently from the main thread, from 1-3 other simulated '
            'threads and from inside clock tasks against SystemClock, '
            'AppClock and 0-2 TempoClocks (tempo != 1, tempo changes while '
            'tasks sleep); tasks return numbers (re-schedule), non-numbers, '
            'raise exceptions or StopStream. On the observed history: every '
            'scheduling is invoked exactly once (plus once per numeric '
            'return), never before its scheduled time and never later than '
            'the injected wake-up latency after it (so not waiting for an '
            'unrelated later deadline), in (time, scheduling order) per '
            'clock, with logical time = scheduled time and re-scheduling '
            'relative to the scheduled time (physical time on AppClock); '
            'nothing runs after clear()/stop(); a raising task leaves the '
            'others and the clock thread untouched.',
    'note': 'Trusted: the simulation shim (vlib/rtsim.py): real sc3 clock '
            'threads gated by a baton, pre-emption only at the library\'s '
            'own synchronisation operations. Races inside regions the '
            'library protects with no lock are not explored.',
}
RULE = (
    'Hypothesis draws 0-2 TempoClock tempos, per thread a script of sleeps '
    '(dyadic, aligned so that callers become runnable at the same virtual '
    'instants as clock wake-ups) and scheduling ops with deltas >= 1/8 s, '
    'task behaviours, and a tape of 0-80 small ints. Non-trivial = a task '
    'became the earliest of its clock while the clock thread was asleep on '
    'a later deadline (or with an empty queue), or a raising task had '
    'successors, or a clear/stop cancelled pending tasks. Distinct by sha1 '
    'of case (scripts + tape).')
RULE += ' ' + (
    'The main thread changes the tempo of the clock it alone changes through the tempo setter or etempo().')
ASSUMPTIONS = [
    'Upper bound on lateness = the largest latency the tape can inject '
    '(1/64 s) per wake-up; executing a task takes no virtual time.',
    'Every scheduling uses a fresh task object (re-adding the same object '
    'moves it, which is C09/C10 matter).',
]

RT = []
LAT = F(1, 64)


def setup(ctx):
    from vlib import workers
    RT.append(workers.rtsim_worker())


def teardown(ctx):
    for w in RT:
        w.close()


# --- oracle ------------------------------------------------------------------------

class Timeline:
    """beats <-> seconds of one TempoClock, reconstructed from the tempo ops
    observed in the history."""

    def __init__(self, tempo):
        self.segs = [(F(0), F(0), F(tempo))]     # (secs, beats, tempo)
        self.ns = [-1]                           # record number of the change

    def change(self, secs, tempo, n):
        s0, b0, t0 = self.segs[-1]
        secs = F(secs)
        self.segs.append((secs, b0 + (secs - s0) * t0, F(tempo)))
        self.ns.append(n)

    def beats(self, secs, n):
        """Beats at `secs` under the map in effect when record n was
        written (a change is anchored at the logical time of the task that
        made it, which may lie before the physical instant of a call that
        nevertheless preceded it)."""
        secs = F(secs)
        seg = [s for s, k in zip(self.segs, self.ns) if k < n]
        s0, b0, t0 = seg[-1]
        return b0 + (secs - s0) * t0

    def secs(self, beats):
        beats = F(beats)
        for i, (s0, b0, t0) in enumerate(self.segs):
            nxt = self.segs[i + 1] if i + 1 < len(self.segs) else None
            if nxt is None or beats < nxt[1]:
                return s0 + (beats - b0) / t0
        return None


def evaluate(case, out, v):
    """History invariants, evaluated by one pass over the observed history:
    per (task, clock) at most one pending scheduling (scheduling the same
    object again moves it)."""
    hist = out['hist']
    tasks = case['tasks']
    tl = [Timeline(t) for t in case['clocks']]
    for h in hist:
        if h['ev'] == 'tempo':
            # tempo changes are made by tasks running on that clock: the
            # change happens at the task's logical time
            tl[h['clock']].change(h['L'], h['tempo'], h['n'])
    # tempo changes made by caller threads: [(n of start marker, n of the
    # record, clock)]; a scheduling call of another thread on that clock
    # recorded in between may have seen the old or the new tempo
    spans = []
    open_ = {}
    for h in hist:
        if h['ev'] == 'tempo_start':
            open_[(h['who'], h['clock'])] = h['n']
        elif h['ev'] in ('tempo', 'not_running') and (
                h['who'], h.get('clock')) in open_:
            n0 = open_.pop((h['who'], h['clock']))
            if not str(h['who']).startswith('task'):
                spans.append((n0, h['n'], h['clock']))
    labels = set()
    pending = {}          # (task, clock) -> dict
    done_invs = {}        # clock -> [(due, n_call, n_inv, T, t_call, tid, who)]
    stopped = set()
    finished = set()
    clears = {}
    end = F(out['end'])
    inv_L = {}            # 'taskN' -> logical time of its running invocation

    def to_secs(clock, key):
        return tl[clock].secs(key) if isinstance(clock, int) else key

    def overdue(p, t_now):
        due = to_secs(p['clock'], p['key'])
        return due is not None and max(due, p['t_call']) + LAT < t_now

    for h in hist:
        ev = h['ev']
        if ev in ('sched', 'sched_abs'):
            clock, tid = h['clock'], h['task']
            if clock in stopped:
                continue       # the clock is going away
            from_task = str(h['who']).startswith('task')
            base = F(h['L']) if from_task else F(h['t'])
            t_call = F(h['t'])
            if isinstance(clock, int):
                key = (tl[clock].beats(base, h['n']) + F(h['delta'])
                       if ev == 'sched' else F(h['when']))
            elif clock == 'app' and ev == 'sched':
                key = t_call + F(h['delta'])       # physical present
            else:
                key = base + F(h['delta']) if ev == 'sched' \
                    else F(h['when'])
            if tid in finished:
                continue       # awaking a finished routine does nothing
            if (tid, clock) in pending:
                labels.add('moved_pending_task')
            pending[(tid, clock)] = dict(
                clock=clock, key=key, n=h['n'], t_call=t_call, who=h['who'],
                fuzzy=any(a < h['n'] < b and c == clock
                          for a, b, c in spans),
                # AppClock.sched is two locked regions (queue, then notify):
                # a clear() by another thread at the same virtual instant
                # may have come between them although it was recorded first
                maybe_cancelled=(clock == 'app' and
                                 t_call in clears.get(clock, ())))
        elif ev == 'inv':
            clock, tid = h['clock'], h['task']
            T = F(h['t'])
            p = pending.pop((tid, clock), None)
            if p is None:
                if clock not in stopped:
                    v.fail('invoked_without_pending_scheduling',
                           f'task {tid} on {clock} ran at {float(T)} (its '
                           f'invocation {h["k"]}) with no scheduling pending')
                continue
            if p.get('fuzzy') and isinstance(clock, int) \
                    and h.get('beats') is not None:
                # scheduled while a caller thread was changing this clock's
                # tempo: the beat it was scheduled for is read back
                p['key'] = F(h['beats'])
                labels.add('sched_during_tempo_change')
            due = to_secs(clock, p['key'])
            if T < due:
                v.fail('invoked_early',
                       f'task {tid} on {clock}: ran at {float(T)} before '
                       f'its scheduled time {float(due)}')
            if T > max(due, p['t_call']) + LAT:
                v.fail('invoked_late',
                       f'task {tid} on {clock}: due {float(due)} (scheduled '
                       f'at {float(p["t_call"])}) ran at {float(T)}, more '
                       f'than the wake-up latency later')
            if clock == 'sys':
                if abs(F(h['L']) - due) > F(1, 2 ** 40):
                    v.fail('logical_time_not_scheduled_time',
                           f'task {tid} on sys: logical {h["L"]} vs '
                           f'scheduled {float(due)}')
            elif isinstance(clock, int):
                if abs(F(h['beats']) - p['key']) > F(1, 2 ** 40):
                    v.fail('logical_time_not_scheduled_time',
                           f'task {tid} on clock {clock}: beats '
                           f'{h["beats"]} vs scheduled {float(p["key"])}')
            done_invs.setdefault(clock, []).append(
                (due, p['n'], h['n'], T, p['t_call'], tid, p['who']))
            h['_p'] = p
        elif ev == 'ret':
            clock, tid, k = h['clock'], h['task'], h['k']
            spec = tasks[str(tid)]
            r = spec['rets'][k] if k < len(spec['rets']) else None
            inv = next((x for x in reversed(hist[:hist.index(h)])
                        if x['ev'] == 'inv' and x['task'] == tid
                        and x['k'] == k), None)
            p = inv.get('_p') if inv else None
            if r == 'raise':
                labels.add('raising_task')
            if spec.get('routine') and r in (None, 'stop', 'raise'):
                # the routine is done: its other wake-ups find it finished
                finished.add(tid)
                for key_ in [k_ for k_ in pending if k_[0] == tid]:
                    del pending[key_]
            if p is not None and isinstance(r, (int, float)) \
                    and not isinstance(r, bool) and clock not in stopped:
                if (tid, clock) in pending:
                    labels.add('moved_pending_task')
                key = (F(inv['t']) if clock == 'app' else p['key']) + F(r)
                pending[(tid, clock)] = dict(
                    clock=clock, key=key, n=h['n'], t_call=F(inv['t']),
                    who=f'resched{tid}')
        elif ev == 'clear':
            clock = h['clock']
            t_c = F(h['t'])
            clears.setdefault(clock, set()).add(t_c)
            for (tid, c), p in list(pending.items()):
                if c != clock:
                    continue
                if p['n'] < h['n'] or p['t_call'] == t_c:
                    if overdue(p, t_c) and not p.get('maybe_cancelled'):
                        v.fail('task_never_invoked',
                               f'task {tid} on {clock} due at '
                               f'{float(to_secs(clock, p["key"]))} had not '
                               f'run when clear() came at {float(t_c)}')
                    del pending[(tid, c)]
                    labels.add('cancelled_pending')
        elif ev == 'stop':
            stopped.add(h['clock'])
            for key_ in [k_ for k_ in pending if k_[1] == h['clock']]:
                del pending[key_]
                labels.add('cancelled_pending')
    for (tid, clock), p in pending.items():
        if overdue(p, end) and not p.get('maybe_cancelled'):
            v.fail('task_never_invoked',
                   f'task {tid} on {clock} due at '
                   f'{float(to_secs(clock, p["key"]))} s never ran; history '
                   f'end {float(end)}')
    # a clear() recorded just before a same-instant invocation may in fact
    # have followed it; an invocation after an earlier clear is a violation
    for h in hist:
        if h['ev'] == 'inv' and h.get('_p') is not None:
            p = h['_p']
            for c in hist:
                if c['ev'] == 'clear' and c['clock'] == h['clock'] and \
                        p['n'] < c['n'] < h['n'] and F(c['t']) != p['t_call']:
                    v.fail('invoked_after_cancel',
                           f'task {h["task"]} scheduled before clear of '
                           f'{h["clock"]} ran after it (t={h["t"]})')
    # order per clock
    for clock, lst in done_invs.items():
        bad = None
        for a in lst:
            for b in lst:
                # ties in scheduled time: scheduling order is observable
                # only between calls of one caller or at different instants
                tie_known = a[6] == b[6] or a[4] < b[4]
                before = a[0] < b[0] or (a[0] == b[0] and a[1] < b[1]
                                         and tie_known)
                if before and b[4] <= a[3] and b[1] < a[2] and a[2] > b[2]:
                    bad = (a, b)
                    break
            if bad:
                break
        if bad:
            a, b = bad
            v.fail('order_within_clock',
                   f'{clock}: task {a[5]} (time {float(a[0])}) ran after '
                   f'task {b[5]} (time {float(b[0])})')
    for name, ok in out['alive'].items():
        if not ok and not any(str(c) == name for c in stopped):
            v.fail('clock_thread_died', f'clock {name}')
    if out['errors']:
        v.fail('clock_thread_raised', str(out['errors'])[:400])
    # non-trivial: new head while the clock thread sleeps on a later deadline
    nontrivial = False
    waits = out['waits']
    for h in hist:
        if h['ev'] in ('sched', 'sched_abs'):
            name = {'sys': 'SystemClock', 'app': 'AppClock'}.get(
                h['clock'], 'TempoClock')
            prior = [w for w in waits if w[1].startswith(name)
                     and w[0] <= h['t']]
            if prior:
                w = prior[-1]
                if w[2] is None or w[2] > h['t'] + (h.get('delta') or 0):
                    labels.add('new_head_while_asleep')
                    nontrivial = True
    if 'raising_task' in labels and len(tasks) > 1:
        nontrivial = True
    if 'cancelled_pending' in labels or 'moved_pending_task' in labels:
        nontrivial = True
    if out['preempts']:
        labels.add('preempted')
    if any(t.get('routine') for t in tasks.values()):
        labels.add('routine_task')
    return {'nontrivial': nontrivial, 'labels': sorted(labels)}


def run_case(case, v):
    out = RT[0].ask({'module': 'vlib.c08_exec', 'func': 'run', 'case': case})
    if 'deadlock' in out:
        v.fail('deadlock', out['deadlock'])
        return {'nontrivial': False, 'labels': ['deadlock']}
    if 'error' in out:
        if out.get('sc3_origin'):
            v.fail('sc3_raised@' + out['sc3_origin'], out['error'])
            return {'nontrivial': False, 'labels': ['sc3_raised']}
        raise RuntimeError(out['error'] + out.get('tb', ''))
    return evaluate(case, out, v)


# --- generator ----------------------------------------------------------------------

# mostly a coarse grid (callers and clocks become runnable at the same
# instants), plus a few values 1/64 apart: deadlines closer to each other than
# the wake-up latency
DELTAS = [0.125, 0.25, 0.25, 0.375, 0.5, 0.75, 1, 1.0, 0.140625, 0.265625,
          0.2578125]
SLEEPS = [0.0625, 0.125, 0.125, 0.25, 0.25, 0.375, 0.5]


@st.composite
def cases(draw):
    nclocks = draw(st.sampled_from([0, 1, 1, 2, 2]))
    tempos = [draw(st.sampled_from([0.5, 2, 4])) for _ in range(nclocks)]
    refs_main = ['sys', 'app'] + list(range(nclocks)) * 2
    refs_other = ['sys', 'app'] + list(range(max(nclocks - 1, 0))) * 2
    tasks = {}

    def task(depth=0, on=None):
        tid = len(tasks) + 1
        kind = draw(st.integers(0, 9))
        if kind <= 3:
            rets = [None]
        elif kind <= 5:
            rets = [draw(st.sampled_from(DELTAS))
                    for _ in range(draw(st.integers(1, 3)))] + [None]
        elif kind == 6:
            rets = ['raise']
        elif kind == 7:
            rets = ['stop']
        elif kind == 8:
            rets = [draw(st.sampled_from(DELTAS)), 'raise']
        else:
            # non-numbers and the infinite delta ("never"): not rescheduled
            rets = [draw(st.sampled_from(['hang', True, 'inf', 'inf']))]
        t = {'rets': rets}
        tasks[str(tid)] = t
        if draw(st.integers(0, 2)) == 0:
            # a Routine: while it runs, the library's current thread is the
            # routine (and its logical time the scheduled time)
            t['routine'] = True
            if rets == [True]:
                t['rets'] = ['hang']
        if depth == 0 and on == 0 and draw(st.booleans()):
            # tempo change from a task of that clock, others asleep on it
            t['do'] = [['tempo', on, draw(st.sampled_from([0.5, 1, 2, 4]))]]
        elif depth == 0 and draw(st.integers(0, 3)) == 0:
            # scheduling from inside a task; on AppClock this passes a lock
            # hand-over in the middle of the task
            t['do'] = [['sched', draw(st.sampled_from(
                refs_other + ['app'])), draw(st.sampled_from(DELTAS)),
                task(1)]]
        return tid

    stopped = [False]

    def script(is_main):
        refs = list(refs_main if is_main else refs_other)
        mine = []
        ops = []
        for _ in range(draw(st.integers(1, 7))):
            k = draw(st.integers(0, 14))
            if k <= 6:
                c = draw(st.sampled_from(refs))
                tid = task(on=c)
                mine.append((tid, c))
                ops.append(['sched', c, draw(st.sampled_from(DELTAS)), tid])
            elif k == 7:
                # (AppClock has no sched_abs)
                c = draw(st.sampled_from([r for r in refs if r != 'app']))
                tid = task(on=c)
                mine.append((tid, c))
                ops.append(['sched_abs', c, draw(st.sampled_from(DELTAS)),
                            tid])
            elif k == 8:
                ops.append(['clear', draw(st.sampled_from(refs))])
            elif k in (9, 14) and mine:
                # the same task object again, on the same clock (moved if
                # still pending) or, sometimes, on another one
                tid, c = draw(st.sampled_from(mine))
                # (a task that changes the tempo of its clock stays on that
                # clock: from another clock's thread the change would have
                # no defined place in the clock's own timeline)
                tempo_task = any(o[0] == 'tempo' for o in tasks[str(tid)].get(
                    'do', ()))
                if not tempo_task and (
                        c not in refs or draw(st.integers(0, 3)) == 0):
                    c = draw(st.sampled_from(refs))
                if c not in refs:
                    continue
                ops.append(['sched', c, draw(st.sampled_from(DELTAS)), tid])
            elif k == 11 and is_main and 1 in refs:
                # the main thread changes a tempo while the clock sleeps (its
                # logical time is the physical present). Only clock 1, whose
                # tasks never change its tempo, and only this one thread:
                # two tempo changes in flight at once have no defined order
                ops.append([draw(st.sampled_from(['tempo', 'tempo', 'etempo'])),
                            1, draw(st.sampled_from([0.5, 1, 2, 4]))])
            elif k == 10 and nclocks and is_main and not stopped[0]:
                # the last TempoClock is used by the main thread only, so
                # that stop() does not race with calls from other threads
                stopped[0] = True
                ops.append(['stop', nclocks - 1])
                # using a clock after stop() is not part of the property
                refs = [r for r in refs if r != nclocks - 1]
            else:
                ops.append(['sleep', draw(st.sampled_from(SLEEPS))])
        return ops

    threads = [script(True)]
    for _ in range(draw(st.integers(0, 3))):
        threads.append(script(False))
    return {'clocks': tempos, 'threads': threads, 'tasks': tasks,
            'tape': draw(st.lists(st.integers(0, 11), max_size=80)),
            'horizon': 6.0}


@st.composite
def handover_cases(draw):
    """Aimed at one window: a Routine task is in the middle of its step
    (the library's current thread is the routine, its logical time the
    scheduled one) and passes a lock hand-over (it schedules on AppClock)
    exactly when other threads, woken at the same instant, call sched()."""
    nclocks = draw(st.integers(0, 1))
    tempos = [draw(st.sampled_from([0.5, 2]))] * nclocks
    d = draw(st.sampled_from([0.125, 0.25, 0.5]))
    tasks = {}
    host = draw(st.sampled_from(['sys'] + list(range(nclocks))))
    tasks['2'] = {'rets': [None]}
    tasks['1'] = {'rets': [draw(st.sampled_from([None, 0.25]))],
                  'routine': True,
                  'do': [['sched', 'app', 0.25, 2]] * draw(st.integers(1, 3))}
    hd = d if host == 'sys' else d * tempos[0]
    threads = [[['sched', host, hd, 1], ['sleep', d]]]
    for i in range(draw(st.integers(1, 3))):
        tid = str(len(tasks) + 1)
        tasks[tid] = {'rets': [None],
                      'routine': draw(st.booleans())}
        tid2 = str(len(tasks) + 1)
        tasks[tid2] = {'rets': [None]}
        threads.append([['sleep', d],
                        ['sched', 'sys', draw(st.sampled_from(
                            [0.125, 0.25, 0.140625])), int(tid)],
                        ['sched', draw(st.sampled_from(
                            ['sys', 'app'] + list(range(nclocks)))),
                         0.25, int(tid2)]])
    threads[0] += [['sched', 'sys', 0.125, int(tid)]] \
        if draw(st.booleans()) else []
    return {'clocks': tempos, 'threads': threads, 'tasks': tasks,
            'tape': draw(st.lists(st.integers(0, 11), min_size=8,
                                  max_size=60)),
            'horizon': 4.0}


def stages(ctx):
    return [Stage('history', run_case, cases(), quick=900, thorough=4000),
            Stage('handover', run_case, handover_cases(), quick=400,
                  thorough=3000)]
