"""C10 - Real-time and non-real-time modes run the same program identically."""

import copy
import json
from fractions import Fraction as F

from hypothesis import strategies as st

from vlib.core import Stage, Reject
from vlib import prog, prog_model, proggen, osc_ref

PROPERTY = 'C10'
LEVEL = 'exploration'
MODE = 'nrt'
SHARDS = {'quick': 2, 'thorough': 16}
# programs whose outcome depends on the order of near-simultaneous events of
# different clock threads are discarded by the model (about 10 %, counted)
MAX_REJECT = 0.3
MANIFEST = {
    'technique': 'differential property-based testing: every generated '
                 'program is run under NrtMain (in process and in a second '
                 'interpreter) and under RtMain on the deterministic thread/'
                 'time simulation with a generated jitter tape; both are '
                 'compared with each other and with an exact reference '
                 'model; metamorphic check of random-stream independence',
    'category': 'exploration',
    'text': 'Programs over routines, SystemClock and TempoClocks, tempo '
            'changes, pause/resume/stop of other routines before and after '
            'their pending wake-up, conditions and flow variables, '
            'explicitly seeded random draws of every routine-aware builtin, '
            'messages and bundles: per routine the sequence of (logical '
            'time, event) and per bundle the (time, contents) must agree '
            'between NRT, simulated RT and the model, seeded draws must be '
            'equal in both modes, two NRT runs in different interpreters '
            'must give byte-identical scores, and adding routines that draw '
            'random numbers must not change what seeded routines draw.',
    'note': 'Trusted: reference model, RT simulation shim, OSC reference '
            'codec. Events of different clocks at exactly the same instant '
            'have no defined order in RT: programs where that order matters '
            'are detected by the model and discarded (counted as rejected).',
}
RULE = (
    'Hypothesis builds 1-3 target routines (log, seeded draws, sends, '
    'condition/flow waits, waits on a quarter-beat grid) on SystemClock or '
    'TempoClocks (tempo 0.5/1/2) and 1-2 controller routines acting at odd '
    'multiples of 1/16 s: pause/resume/stop a target, change a tempo, set '
    'and signal conditions, bind flow variables. Non-trivial = a resume of a '
    'paused routine whose old wake-up is still pending, or a tempo change '
    'while another routine sleeps on that clock, or two seeded routines '
    'drawing. Distinct by sha1 of program + tape.')
RULE += ' ' + (
    "Seeds are ints or strings (the RT and NRT interpreters run with different PYTHONHASHSEED); a quarter of the controllers start by pausing and resuming a pending routine and then changing its clock's tempo.")
ASSUMPTIONS = [
    'Random-stream independence is asserted for explicitly seeded routines '
    '(routines that inherit share their parent\'s generator by design).',
    'Timetags are compared up to 2**-31 s.',
]

RT, NRT2 = [], []
TWO32 = 2 ** 32


def setup(ctx):
    from vlib import workers
    RT.append(workers.rtsim_worker())
    NRT2.append(workers.nrt_worker('1'))


def teardown(ctx):
    for w in RT + NRT2:
        w.close()


def view(trace, with_rand=False):
    """Per routine: list of comparable event tuples."""
    out = {}
    for x in trace:
        r = x.get('r')
        k = x['kind']
        if k == 'log':
            e = ('log', x['tag'], F(x['secs']))
        elif k == 'flow':
            e = ('flow', x['k'], x['value'], F(x['secs']))
        elif k in ('self_refused', 'rebind_refused', 'refused'):
            e = (k,)
        elif k == 'rand' and with_rand:
            e = ('rand', x['fn'], json.dumps(x['value']))
        else:
            continue
        out.setdefault(r, []).append(e)
    return out


def first_diff(a, b):
    for r in sorted(set(a) | set(b), key=str):
        if a.get(r) != b.get(r):
            la, lb = a.get(r, []), b.get(r, [])
            k = next((i for i, (x, y) in enumerate(zip(la, lb)) if x != y),
                     min(len(la), len(lb)))
            fl = lambda t: tuple(float(z) if isinstance(z, F) else z
                                 for z in t)
            return (f'routine {r} event {k}: '
                    f'{fl(la[k]) if k < len(la) else None} vs '
                    f'{fl(lb[k]) if k < len(lb) else None} '
                    f'(lengths {len(la)}/{len(lb)})')
    return None


def nrt_bundles(score):
    out = {}
    for e in score:
        for m in e[1:]:
            if isinstance(m[0], str) and m[0] in ('/b', '/m'):
                out[m[1]] = F(e[0])
    return out


def classify(p, m):
    labels = []
    # resume with old wake-up pending / tempo change with sleepers: measured
    # on the model run
    if getattr(m, 'moved', 0):
        labels.append('resume_moves_pending_wakeup')
    if getattr(m, 'tempo_with_sleepers', 0):
        labels.append('tempo_change_with_sleepers')
    if getattr(m, 'jumped', 0):
        labels.append('beats_jump_over_sleeper')
    drawers = [r for r, b in p['routines'].items()
               if r in p.get('seeded', {}) and any(
                   op[0] == 'rand' for op in b['body'])]
    if len(drawers) >= 2:
        labels.append('two_seeded_drawers')
    return bool(labels), labels


class CountingModel(prog_model.Model):
    moved = 0
    tempo_with_sleepers = 0

    def sched(self, clock, key, rname):
        if any(e['r'] == rname and e['clock'] == clock for e in self.queue):
            self.moved += 1
        super().sched(clock, key, rname)

    jumped = 0

    def do(self, who, op, now):
        if op[0] == 'beats_add' and op[2] > 0:
            c = self.clocks[op[1]]
            b = c.secs2beats(now)
            if any(e['clock'] == op[1] and e['r'] != who
                   and b < e['key'] <= b + F(op[2]) for e in self.queue):
                self.jumped += 1
        if op[0] == 'tempo' and any(e['clock'] == op[1] and e['r'] != who
                                    for e in self.queue):
            self.tempo_with_sleepers += 1
        return super().do(who, op, now)


def control_ops(p):
    return any(op[0] in ('pause', 'resume', 'stop', 'tempo', 'csignal',
                         'cunhang', 'fset', 'ctest')
               for r in p['routines'].values() for op in r['body'])


def run_case(case, v):
    p = case['prog']
    try:
        m = CountingModel(p).run()
    except prog_model.Ambiguous:
        raise Reject()
    if m.simultaneous and control_ops(p):
        raise Reject()
    mv = view(m.trace)
    # --- NRT (this process) --------------------------------------------------
    nrt = prog.run_nrt(copy.deepcopy(p))
    d = first_diff(view(nrt['trace']), mv)
    if d:
        v.fail('nrt_vs_model', d)
    # --- RT (simulation) --------------------------------------------------------
    horizon = float(m.last_event) + 1.5
    rt = RT[0].ask({'prog': p, 'tape': case['tape'], 'horizon': horizon})
    if 'deadlock' in rt or 'error' in rt:
        v.fail('rt_run_failed', str(rt)[:600])
        return {'nontrivial': False, 'labels': ['rt_failed']}
    d = first_diff(view(rt['trace']), mv)
    if d:
        v.fail('rt_vs_model', d)
    d = first_diff(view(rt['trace'], True), view(nrt['trace'], True))
    if d and not v.items:
        v.fail('rt_vs_nrt', d)
    # bundles: (logical time, bundle)
    nb = nrt_bundles(nrt['score'])
    rb = {}
    for hx, _ in rt['dgrams']:
        pkt = osc_ref.decode_packet(bytes.fromhex(hx))
        if isinstance(pkt, osc_ref.Message):
            rb[pkt.args[0]] = None
        else:
            t = None if pkt.timetag == osc_ref.IMMEDIATELY else \
                F(pkt.timetag - rt['osc_offset'], TWO32) - F(rt['t0'])
            for e in pkt.elements:
                rb[e.args[0]] = t
    if set(nb) != set(rb):
        v.fail('bundles_differ',
               f'NRT sent tags {sorted(nb)}, RT {sorted(rb)}')
    else:
        for tg, t in rb.items():
            if t is not None and abs(t - nb[tg]) > F(2, TWO32):
                v.fail('bundle_time_differs',
                       f'tag {tg}: RT {float(t)} NRT {float(nb[tg])}')
                break
    # --- determinism: another interpreter --------------------------------------
    other = NRT2[0].ask({'prog': p})
    if 'error' in other:
        v.fail('nrt_second_run_failed', other['error'])
    else:
        if other['raw'] != nrt['raw'].hex():
            v.fail('nrt_score_not_deterministic',
                   'score.raw differs between two interpreters')
        if json.dumps(other['trace'], default=repr) != json.dumps(
                json.loads(json.dumps(nrt['trace'], default=repr))):
            v.fail('nrt_trace_not_deterministic', 'traces differ')
    # --- independence of seeded random streams -----------------------------------
    seeded = p.get('seeded', {})
    if seeded and case['extra']:
        p2 = copy.deepcopy(p)
        for i, ex in enumerate(case['extra']):
            body = [['seed', ex['seed']]] if ex['seed'] is not None else []
            for d_ in ex['draws']:
                body.append(['rand', d_[0], d_[1]])
                body.append(['wait', 0.25])
            p2['routines'][f'x{i}'] = {'body': body}
            p2['top'].insert(0, ['play', f'x{i}', 'sys', 0])
        n2 = prog.run_nrt(p2)
        a = {r: [e for e in es if e[0] == 'rand']
             for r, es in view(nrt['trace'], True).items() if r in seeded}
        b = {r: [e for e in es if e[0] == 'rand']
             for r, es in view(n2['trace'], True).items() if r in seeded}
        if a != b:
            v.fail('seeded_stream_depends_on_others', f'{a} vs {b}')
    nt, labels = classify(p, m)
    return {'nontrivial': nt, 'labels': labels}


def cases():
    return st.fixed_dictionaries({
        'prog': proggen.control_program(),
        'tape': st.lists(st.integers(0, 11), min_size=0, max_size=60),
        'extra': st.lists(st.fixed_dictionaries({
            'seed': st.one_of(st.none(), st.integers(0, 99)),
            'draws': st.lists(st.sampled_from(proggen.DRAWS), min_size=1,
                              max_size=5)}), max_size=2)})


def stages(ctx):
    return [Stage('diff', run_case, cases(), quick=1200, thorough=3000)]
