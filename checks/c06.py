"""C06 - OSC encoding round-trips, conforms to OSC 1.0 and is sized correctly.

Oracles (DESIGN.md C06): vlib/osc_ref.py (strict OSC 1.0 codec written from
the specification) and vlib/osc_model.py (the documented sc3 coercions).
Nothing of sc3 is compared with itself.
"""

import contextlib
import itertools
import json
import math
import os
import types

from hypothesis import strategies as st

from vlib.core import Stage, Violation, sc3_origin, ROOT
from vlib import osc_ref as R
from vlib import osc_model as M

PROPERTY = 'C06'
LEVEL = 'exploration'
MODE = 'nrt'
SHARDS = {'quick': 2, 'thorough': 16}
MANIFEST = {
    'technique': 'property-based testing (Hypothesis) against an independent '
                 'strict OSC 1.0 reference codec and a reference model of the '
                 'documented argument coercions; capture of outgoing datagrams '
                 'by a recording OscInterface',
    'category': 'exploration',
    'text': 'Generated messages and bundles (int32 and out-of-range ints, '
            'floats incl. NaN/inf/overflow, ASCII/non-ASCII/NUL strings, blobs '
            'of every length mod 4 up to 70 000 bytes as bytes/bytearray/'
            'memoryview, bool, None, [], nested message and bundle lists, '
            'array markers, latencies None/negative/0/dyadic/too large, '
            'nesting <= 4) are built by OscInterface._build_msg/_build_bundle '
            'and the base send_msg/send_bundle paths; the bytes are decoded '
            'strictly by the reference decoder, compared with the reference '
            'model and byte-for-byte with the reference encoder, and with '
            'what sc3\'s own OscPacket reads back; values without a '
            'representation must raise. Predicted sizes (_calc_msg_dgram_size/'
            '_calc_bndl_dgram_size) must be >= the real size. '
            'send_clumped_bundles, NetAddr.sync(elements=) and BundleNetAddr '
            'are driven with element lists straddling 8192/65468/65504 bytes '
            'through a recording interface: every datagram <= 65504 bytes, '
            'elements exactly once and in order. SynthDef._do_send must not '
            'pick /d_recv for a datagram above the limit. The NRT score bytes '
            'are parsed as size-prefixed bundles.',
    'note': 'Trusted: osc_ref.py (checked against the hex examples of the OSC '
            '1.0 specification), osc_model.py (transcribed from the send_msg/'
            'send_bundle docstrings). RT timetag path is exercised in the NRT '
            'process with SystemClock._elapsed_osc_offset set to a fixed int '
            'for the duration of a case. Latency-to-timetag stamping beyond '
            'exact reproduction at logical time 0 is C07.',
}
RULE = (
    'msg/bundle stages: Hypothesis recursive strategies over the argument '
    'classes of the quantifier (weights fixed by construction, no '
    'filtering); blob lengths are forced evenly over len%4, both UTF-8 and '
    'ASCII strings of 0-9 characters, big blobs/strings near 8192 and 65504 '
    'bytes; one unrepresentable value (int outside int32, str with NUL, '
    'lone surrogate, malformed list, unbalanced marker) or may-refuse value '
    '(empty blob, float beyond binary32) is injected in ~1/6 of the '
    'messages, 1/120 of the bundle times is not representable, nested '
    'bundle times are >= the enclosing one except in 1/8. Every case runs '
    'on the NRT interface or on the base-class (RT) interface. Non-trivial '
    '= the packet was accepted and verified and contains a blob with len%4 '
    '!= 0, a non-ASCII string, a nested message/bundle list or an array, or '
    'it carried an unrepresentable value whose refusal was checked. clump '
    'stage: element lists expanded from (template, count) groups (tiny '
    '8-byte messages, int messages, ASCII / non-ASCII strings, aligned / '
    'unaligned blobs, nested bundles, completion messages) with counts '
    'chosen so that the total real or predicted size lands within a few '
    'elements of 8192, 65468, 65504, 65536 or 2x65504, sent through '
    'send_clumped_bundles, sync(elements=) or BundleNetAddr; non-trivial = '
    'more than one datagram was sent or the total is within 64 bytes of a '
    'limit. dsend: definition byte lengths placed so the '
    '/d_recv datagram is within +-12 bytes of 65504 (all residues mod 4), '
    'nine completion messages; non-trivial = within 12 bytes of the limit. '
    'score: 1-6 packets sent through the NRT interface and read back from '
    'the score bytes; non-trivial = >= 2 packets entered the score, one '
    'with a nested list, array, unaligned blob or non-ASCII string. '
    'Distinct by sha1 of the canonical case JSON.')
RULE += ' ' + (
    'The clump stage offers one non-ASCII address: a refusal (UnicodeEncodeError) is accepted, an over-limit datagram is not.')
ASSUMPTIONS = [
    'Addresses are valid OSC 1.0 ASCII addresses (no pattern characters); '
    'the clump stage also offers one non-ASCII address, which the library '
    'may refuse with UnicodeEncodeError (it does) but must not send in an '
    'over-limit datagram.',
    'Strings are compared as UTF-8 (sc3 sends UTF-8; OSC 1.0 says ASCII).',
    'A size prediction that raises for a packet the builder accepts is '
    'counted as a failed prediction (callers send nothing).',
    'Over-prediction is allowed by the statement: _do_send is only required '
    'not to choose /d_recv for an over-limit datagram (not the converse).',
    'Timetags of successive clumps (time + 1e-9) are not asserted (C07).',
    'Elements larger than the limit on their own are outside the domain of '
    'the clumping stage (no split exists).',
]

LIMIT = 65504
SYNC_MAX = 65504 - 36
TARGET = ('127.0.0.1', 57110)
# a realistic elapsed->OSC offset (library started at unix time 1.7e9)
RT_OFFSET = int((1700000000 + 2208988800) * 2 ** 32)

try:
    _ACTIVE = {e['key'] for e in json.load(open(os.path.join(
        ROOT, 'known_findings', 'C06.json'))).get('findings', [])
        if e.get('status') == 'known'}
except FileNotFoundError:
    _ACTIVE = set()


def setup(ctx):
    global main, NetAddr, BundleNetAddr, OscInterface, OscPacket, SystemClock
    global Cap, SDEF
    from sc3.base.main import main
    from sc3.base.netaddr import NetAddr, BundleNetAddr
    from sc3.base._oscinterface import OscInterface
    from sc3.base._osclib import OscPacket
    from sc3.base.clock import SystemClock
    from sc3.synth.synthdef import SynthDef
    from sc3.synth.ugens import Out, DC

    class Cap(OscInterface):
        """Recording interface: the abstract base class with only the
        transport (_send) filled in, i.e. the code shared by UDP and TCP."""

        def __init__(self):
            super().__init__()
            self.sent = []

        def _send(self, msg, target):
            self.sent.append(bytes(msg.dgram))

    SDEF = SynthDef('c06def', lambda: Out.ar(0, DC.ar(0)))
    SDEF._write_def_file = lambda *a, **k: None     # never touch the disk


@contextlib.contextmanager
def rt_offset():
    """Give SystemClock the integer offset it has in real time (in the NRT
    process it is the float 0.0, which cannot be packed)."""
    old = SystemClock._elapsed_osc_offset
    SystemClock._elapsed_osc_offset = RT_OFFSET
    try:
        yield
    finally:
        SystemClock._elapsed_osc_offset = old


def timebase(iface, lenient=False):
    st_ = float(main.current_tt._seconds)
    if iface == 'rt':
        return M.TimeBase('rt', RT_OFFSET, st_, lenient=lenient)
    return M.TimeBase('nrt', 0, st_, in_routine=False, lenient=lenient)


# --- case data -> Python values ---------------------------------------------------

def pattern_bytes(n, fill):
    reps = n // 256 + 2
    return (bytes(range(256)) * reps)[fill % 256:fill % 256 + n]


def mat(x):
    """Case JSON -> the Python values handed to sc3."""
    if isinstance(x, dict):
        if 'str' in x:
            return x['str'][0] * x['str'][1]
        if 'hex' in x:
            b = bytes.fromhex(x['hex'])
        else:
            b = pattern_bytes(*x['blob'])
        w = x.get('w', 0)
        return b if w == 0 else bytearray(b) if w == 1 else memoryview(b)
    if isinstance(x, (list, tuple)):
        return [mat(e) for e in x]
    return x


def fail(v, kind, detail='', **data):
    viol = Violation(kind, detail)
    viol.data = data
    v.items.append(viol)
    return viol


def short(x, n=300):
    s = repr(x)
    return s if len(s) <= n else s[:n] + f'...<{len(s)} chars>'


# --- features (labels, non-triviality, predicates) ----------------------------------

def features(x):
    f = {'blob_mod': set(), 'nonascii': False, 'nested_msg': False,
         'nested_bundle': False, 'array': False, 'empty_list': False,
         'bundle_arg': False, 'nul': False, 'big': False,
         'blob_deficit': 0, 'utf8_deficit': 0, 'maxdepth': 0}

    def strpad(n):
        return R.pad4(n + 1)

    def fn(a, d):
        f['maxdepth'] = max(f['maxdepth'], d)
        if M.is_blob(a):
            f['blob_mod'].add(len(a) % 4)
            f['blob_deficit'] += R.pad4(len(a)) - len(a)
            if len(a) > 8000:
                f['big'] = True
        elif isinstance(a, str):
            if a in ('[', ']'):
                f['array'] = True
            else:
                if '\x00' in a:
                    f['nul'] = True
                try:
                    nb = len(a.encode('utf-8'))
                except UnicodeEncodeError:
                    nb = len(a)
                if nb != len(a):
                    f['nonascii'] = True
                    f['utf8_deficit'] += strpad(nb) - strpad(len(a))
                if len(a) > 8000:
                    f['big'] = True
        elif isinstance(a, list):
            if not a:
                f['empty_list'] = True
            elif M.is_msg_list(a):
                f['nested_msg'] = True
            elif M.is_bundle_arg(a):
                f['nested_bundle'] = True
                f['bundle_arg'] = True
    M.walk_args(x, fn)
    return f


def none_timed_nested(x):
    """x (message or bundle list) contains, at any depth, a bundle one of
    whose elements is a bundle with time None."""
    if not isinstance(x, list) or not x:
        return False
    if M.is_msg_list(x):
        return any(none_timed_nested(a) for a in x[1:])
    if M.is_bundle_elem(x):
        for e in x[1:]:
            if M.is_bundle_elem(e) and e[0] is None:
                return True
            if none_timed_nested(e):
                return True
    return False


def feature_labels(f):
    lb = [f'blob_len%4={r}' for r in sorted(f['blob_mod'])]
    for k in ('nonascii', 'nested_msg', 'nested_bundle', 'array',
              'empty_list', 'big'):
        if f[k]:
            lb.append(k)
    lb.append(f'list_depth={f["maxdepth"]}')
    return lb


def interesting(f):
    return bool(f['blob_mod'] - {0} or f['nonascii'] or f['nested_msg']
                or f['nested_bundle'] or f['array'])


# --- the core: build with sc3, compare with the references -----------------------------

def sc3_build(iface, shape, x):
    """Returns (dgram, None) or (None, exception)."""
    if iface == 'rt':
        cap = Cap()
        with rt_offset():
            try:
                if shape == 'msg':
                    cap.send_msg(TARGET, *x)
                else:
                    cap.send_bundle(TARGET, x[0], *x[1:])
            except Exception as e:
                if sc3_origin(e) is None:
                    raise
                return None, e
        assert len(cap.sent) == 1
        return cap.sent[0], None
    nrt = main._osc_interface
    send_time = main.current_tt._seconds
    try:
        if shape == 'msg':
            d = nrt._build_msg(send_time, x).dgram
        else:
            d = nrt._build_bundle(send_time, x).dgram
    except Exception as e:
        if sc3_origin(e) is None:
            raise
        return None, e
    return bytes(d), None


def model(shape, x, iface):
    """(expected packet | None, Refuse | None). A may-refuse input yields both
    the Refuse and the faithful expectation."""
    fn = M.expect_msg if shape == 'msg' else M.expect_bundle
    try:
        return fn(x, timebase(iface)), None
    except M.Refuse as r:
        if r.must:
            return None, r
        try:
            return fn(x, timebase(iface, lenient=True)), r
        except M.Refuse as r2:
            return None, r2


def verify(shape, case, v):
    x = mat(case[shape])
    iface = case['iface']
    f = features(x)
    labels = feature_labels(f) + [f'iface={iface}']
    exp, refuse = model(shape, x, iface)
    dgram, exc = sc3_build(iface, shape, x)

    if exc is not None:
        if refuse is None:
            fail(v, 'refused_representable',
                 f'{short(x)} raised {exc!r}')
        labels.append(f'refused:{refuse.reason if refuse else "?"}')
        return {'nontrivial': refuse is not None and refuse.must,
                'labels': labels}
    if refuse is not None and refuse.must:
        fail(v, f'unrepresentable_accepted:{refuse.reason}',
             f'{short(x)} was encoded as {short(dgram)}')
        labels.append(f'accepted_bad:{refuse.reason}')
        return {'nontrivial': True, 'labels': labels}
    if refuse is not None:
        labels.append(f'accepted_optional:{refuse.reason}')
    labels.append('accepted')

    # (1) strict OSC 1.0 + round trip + canonical bytes
    ok = True
    try:
        dec = R.decode_packet(dgram, check_nested_time=True)
    except R.OscDecodeError as e:
        fail(v, 'not_osc10', f'{short(x)} -> {short(dgram)}: {e}')
        return {'nontrivial': False, 'labels': labels}
    if not R.same_packet(dec, exp):
        ok = False
        fail(v, 'roundtrip_differs',
             f'{short(x)} decoded {short(R.to_plain(dec), 600)} expected '
             f'{short(R.to_plain(exp), 600)}')
    elif R.encode_packet(exp) != dgram:
        ok = False
        fail(v, 'bytes_differ_from_reference',
             f'{short(x)} -> {short(dgram)} reference '
             f'{short(R.encode_packet(exp))}')

    # (2) sc3's own reader on the same bytes
    if ok:
        check_oscpacket(dgram, dec, x, v)

    # (3) predicted size
    addr = NetAddr('127.0.0.1', 57110)
    try:
        if shape == 'msg':
            pred = addr._calc_msg_dgram_size(x)
        else:
            pred = addr._calc_bndl_dgram_size(x[1:])
    except Exception as e:
        if sc3_origin(e) is None:
            raise
        fail(v, 'size_raised', f'{short(x)}: builder accepts ({len(dgram)} '
             f'bytes), size prediction raised {e!r}', exc=type(e).__name__)
    else:
        if pred < len(dgram):
            fail(v, 'size_underpredicted',
                 f'{short(x)}: predicted {pred} real {len(dgram)}',
                 deficit=len(dgram) - pred)
        labels.append('size_exact' if pred == len(dgram) else 'size_over'
                      if pred > len(dgram) else 'size_under')
    return {'nontrivial': ok and interesting(f), 'labels': labels}


def check_oscpacket(dgram, dec, x, v):
    try:
        got = OscPacket(dgram).messages
    except Exception as e:
        if sc3_origin(e) is None:
            raise
        fail(v, 'oscpacket_raised', f'{short(x)}: {e!r}')
        return
    flat = R.flatten(dec)
    flat = [m for _, m in sorted(
        enumerate(flat), key=lambda p: (p[1][0] or 0, p[0]))]
    same = len(got) == len(flat)
    if same:
        for g, (tt, m) in zip(got, flat):
            if not (g.time == tt and g.message.address == m.address
                    and R.same_value(list(g.message.params), m.args)):
                same = False
                break
    if not same:
        fail(v, 'oscpacket_disagrees',
             f'{short(x)}: sc3 read '
             f'{short([(g.time, g.message.address, g.message.params) for g in got], 500)}'
             f' reference {short(flat, 500)}')


def run_msg(case, v):
    return verify('msg', case, v)


def run_bundle(case, v):
    return verify('bundle', case, v)


# --- strategies: arguments ----------------------------------------------------------

ADDR_CHARS = [c for c in map(chr, range(33, 127)) if c not in ' #*,/?[]{}']
ASCII = [chr(c) for c in range(32, 127)]


def freq(*pairs):
    """Weighted choice. (one_of would flatten nested one_ofs and distort the
    weights; integer draws are biased to the ends: index by sampled_from.)"""
    table = [s for w, s in pairs for _ in range(w)]
    idx = st.sampled_from(range(len(table)))

    @st.composite
    def pick(draw):
        return draw(table[draw(idx)])
    return pick()


def chance(k, n):
    """True with probability about k/n."""
    return st.sampled_from([False] * (n - k) + [True] * k)


def not_marker(s):
    return s + '_' if s in ('[', ']') else s


address = st.one_of(
    st.sampled_from(['/a', '/ab', '/abc', '/s_new', '/n_set', '/b_alloc',
                     '/d_recv', '/sync', '/status', '/g_freeAll', '/n_setn']),
    st.lists(st.text(ADDR_CHARS, min_size=1, max_size=6), min_size=1,
             max_size=3).map(lambda xs: '/' + '/'.join(xs)))

ints = freq(
    (3, st.integers(-2 ** 31, 2 ** 31 - 1)),
    (3, st.integers(-2000, 2000)),
    (1, st.sampled_from([0, 1, -1, 2 ** 31 - 1, -2 ** 31, 255, 256, 65536])))

floats = freq(
    (3, st.floats(width=32, allow_nan=False, allow_infinity=False)),
    (2, st.floats(min_value=-3e38, max_value=3e38, allow_nan=False)),
    (2, st.sampled_from([0.0, -0.0, 0.5, 0.1, 440.0, 1e-45, 1e-50,
                         3.4028234663852886e38, -3.4028234663852886e38,
                         3.4028235e38, 16777217.0])),
    (1, st.sampled_from([float('nan'), float('inf'), float('-inf')])))

ascii_str = st.text(ASCII, max_size=9).map(not_marker)
wide_chars = st.characters(min_codepoint=0xA0, max_codepoint=0x2FFFF,
                           blacklist_categories=('Cs',))
nonascii_str = st.tuples(st.text(ASCII, max_size=4),
                         st.text(wide_chars, min_size=1, max_size=4),
                         st.text(ASCII, max_size=3)).map(''.join)
big_str = st.tuples(st.sampled_from(['x', 'é', '€', '😀']),
                    st.sampled_from([1000, 8191, 16376, 21830, 32768])
                    ).map(lambda p: {'str': list(p)})


def _trim(br):
    b, r = br
    n = len(b) - ((len(b) - r) % 4)
    return b[:n]


small_blob = st.tuples(st.binary(min_size=4, max_size=24),
                       st.integers(0, 3)).map(_trim)
wrapk = st.sampled_from([0, 0, 1, 2])
blob = st.tuples(small_blob, wrapk).map(
    lambda p: {'hex': p[0].hex(), 'w': p[1]})
big_blob = st.tuples(
    st.one_of(st.integers(8180, 8200), st.integers(65440, 65510),
              st.integers(30000, 70000)),
    st.integers(0, 255), wrapk).map(
        lambda p: {'blob': [p[0], p[1]], 'w': p[2]})

good_scalar = freq(
    (4, ints), (4, floats), (4, ascii_str), (4, nonascii_str), (6, blob),
    (1, st.booleans()), (1, st.none()), (1, st.just([])), (1, st.just('')))

# values with no representation: the library has to raise
bad_scalar = st.one_of(
    st.sampled_from([2 ** 31, -2 ** 31 - 1, 2 ** 40, -2 ** 63, 2 ** 64]),
    st.sampled_from(['a\x00b', '\x00', 'abc\x00', '\x00abc', 'é\x00é',
                     'abcd\x00efg']),
    st.just('\ud800'),
    st.sampled_from([[1], [1, 2], [0.5, 'x'], [None], [None, 3]]),
    st.sampled_from([['['], [']'], [']', '['], ['[', '[', ']']]).map(
        lambda xs: {'splice': xs}),
)
# values the library may refuse (documented) or encode faithfully
optional_scalar = st.one_of(
    st.just({'hex': '', 'w': 0}), st.just({'hex': '', 'w': 1}),
    st.sampled_from([1e39, -1e300, 3.4028235677973366e38]))

LAT_POOL = [None, None, -1, -0.5, 0, 0.0, 0.25, 0.5, 1, 1.0, 1.5, 2, 0.2,
            0.1, 3.75, 1000000.5]
LAT_BAD = [2 ** 32, 1e12, float('inf'), float('nan')]


def concat(runs):
    out = []
    for r in runs:
        out.extend(r)
    return out


def inject(args, extra, pos):
    if extra is None:
        return args
    i = pos % (len(args) + 1)
    if isinstance(extra, dict) and 'splice' in extra:
        return args[:i] + list(extra['splice']) + args[i:]
    return args[:i] + [extra] + args[i:]


def make_strategies(max_depth, max_args, big, inj=(14, 2, 1)):
    """msg[d], bundle[d]: strategies of message / bundle lists whose list
    arguments nest at most d levels."""
    msgs, bundles = {}, {}
    for d in range(max_depth + 1):
        nested = []
        if d > 0:
            nested = [(20, msgs[d - 1]), (16, bundles[d - 1])]
        scalar_run = good_scalar.map(lambda a: [a])
        plain_item = freq((80, good_scalar), *nested)
        inner_array = st.lists(plain_item, max_size=3).map(
            lambda xs: ['['] + xs + [']'])
        array = st.lists(st.one_of(plain_item.map(lambda a: [a]),
                                   plain_item.map(lambda a: [a]),
                                   inner_array), max_size=3).map(
            lambda rs: ['['] + concat(rs) + [']'])
        extra = []
        if big:
            extra = [(1, big_blob.map(lambda a: [a])),
                     (1, big_str.map(lambda a: [a]))]
        run = freq((64, scalar_run), (12, array), *extra,
                   *[(w, s.map(lambda a: [a])) for w, s in nested])
        args = st.lists(run, max_size=max_args).map(concat)
        injected = freq((inj[0], st.none()), (inj[1], bad_scalar),
                        (inj[2], optional_scalar))
        msgs[d] = st.tuples(address, args, injected,
                            st.integers(0, 50)).map(
            lambda t: [t[0]] + inject(t[1], t[2], t[3]))
        bundles[d] = bundle_strategy(msgs[d], d)
    return msgs, bundles


def bundle_strategy(msg, depth):
    @st.composite
    def bndl(draw, nest=min(depth + 1, 3), parent=('none',)):
        bad_time = draw(chance(1, 120))
        if bad_time:
            time = draw(st.sampled_from(LAT_BAD))
        elif parent[0] == 'none' or parent[1] is None \
                or draw(chance(1, 8)):
            time = draw(st.sampled_from(LAT_POOL))
        else:
            time = parent[1] + draw(st.sampled_from([0, 0, 0.25, 1, 2.5]))
        n = draw(st.integers(0, 4))
        elems = []
        for _ in range(n):
            if nest > 0 and draw(chance(1, 4)):
                elems.append(draw(bndl(nest - 1, ('t', time))))
            else:
                elems.append(draw(msg))
        return [time] + elems
    return bndl()


def msg_case_strategy(tier):
    d = 3 if tier == 'quick' else 4
    msgs, _ = make_strategies(d, 6, big=True)
    pick = freq((3, msgs[0]), (3, msgs[1]), (2, msgs[2]), (1, msgs[d]))
    return st.fixed_dictionaries({
        'iface': st.sampled_from(['nrt', 'rt']), 'msg': pick})


def bundle_case_strategy(tier):
    d = 2 if tier == 'quick' else 3
    _, bundles = make_strategies(d, 4, big=False, inj=(50, 2, 1))
    pick = freq((3, bundles[0]), (3, bundles[1]), (2, bundles[d]))
    return st.fixed_dictionaries({
        'iface': st.sampled_from(['nrt', 'rt']), 'bundle': pick})


# --- clumping --------------------------------------------------------------------

def tmpl_element(t, i, time=None):
    """Element number i of template t (case JSON, before mat)."""
    k = t[0]
    if k == 'tiny':
        return ['/' + 'abcdefghijklmnopqrstuvwxyz'[i % 26]]
    if k == 'ints':
        return ['/n_set', i] + [j for j in range(t[1])]
    if k == 'wideaddr':
        # an address outside OSC 1.0's ASCII: the size-predicting paths may
        # refuse it (the unchanged library does), never send oversize for it
        return ['/\u97f3\u91cf', i] + [j for j in range(t[1])]
    if k == 'str':
        return ['/s', i, {'str': ['€' if t[2] else 'x', t[1]]}]
    if k == 'blob':
        return ['/b_setn', i, {'blob': [t[1], i % 256], 'w': i % 3}]
    if k == 'bndl':
        # nested bundle dt seconds after the enclosing bundle's time
        return [(time if time is not None else 0) + t[1]] + [
            ['/x', i, j] for j in range(t[2])]
    if k == 'compl':
        return ['/b_alloc', i, 512, 1, ['/b_set', i, 0, 1.5, 'k']]
    raise ValueError(k)


def tmpl_size(t):
    tb = M.TimeBase('nrt')
    return R.packet_size(M.expect_packet(mat(tmpl_element(t, 0)), tb))


template = st.one_of(
    st.just(['tiny']),
    st.integers(0, 12).map(lambda k: ['ints', k]),
    st.integers(0, 12).map(lambda k: ['ints', k]),
    st.integers(0, 6).map(lambda k: ['wideaddr', k]),
    st.tuples(st.sampled_from([3, 40, 200, 1000, 4000, 9000, 20000]),
              st.integers(0, 3)).map(
        lambda p: ['str', p[0] + p[1], False]),
    st.tuples(st.sampled_from([3, 40, 700, 3000, 9000, 21000]),
              st.integers(0, 3)).map(lambda p: ['str', p[0] + p[1], True]),
    st.tuples(st.sampled_from([4, 64, 256, 1024, 4096, 8192, 20000, 30000]),
              st.integers(0, 12)).map(lambda p: ['blob', p[0] + 4 * p[1]]),
    st.tuples(st.sampled_from([4, 64, 1024, 8192, 30000]),
              st.integers(1, 3)).map(lambda p: ['blob', p[0] + p[1]]),
    st.tuples(st.sampled_from([0, 0.5, 0.5, 1]), st.integers(0, 6)).map(
        lambda p: ['bndl', p[0], p[1]]),
    st.tuples(st.sampled_from([0, 0, 0.5]), st.integers(1, 40)).map(
        lambda p: ['bndl', p[0], p[1]]),
    st.tuples(st.sampled_from([0, 1]), st.integers(0, 3)).map(
        lambda p: ['bndl', p[0], p[1]]),
    st.just(['compl']),
)


@st.composite
def clump_case(draw):
    path = draw(st.sampled_from(['clumped', 'clumped', 'sync', 'sync',
                                 'bind']))
    time = draw(st.sampled_from([None, 0, 0.25, 1, -1]))
    ngroups = draw(st.sampled_from([1, 1, 2, 3]))
    total_target = draw(st.sampled_from(
        [8192, 65468, 65468, 65504, 65504, 65536, 2 * 65504, 20000]))
    groups = []
    remaining = total_target - 16
    for g in range(ngroups):
        t = draw(template)
        if path == 'sync' and t[0] == 'bndl':
            # sync(elements=) is documented for messages only
            t = ['ints', t[2]]
        s = tmpl_size(t)
        if s > LIMIT - 60:
            t = ['ints', 3]
            s = tmpl_size(t)
        last = g == ngroups - 1
        share = remaining if last else draw(st.integers(0, remaining))
        per = s + (4 if draw(st.booleans()) else 0)
        n = max(0, share // per + (draw(st.integers(-2, 2)) if last else 0))
        n = min(n, 9000)
        if n == 0 and last and not groups:
            n = 1
        if n:
            groups.append({'t': t, 'n': n})
            remaining = max(0, remaining - n * per)
    if draw(st.integers(0, 2)) == 0:
        # land exactly on a size at the limit (the room the library keeps
        # for the '/sync' element makes the last 20 bytes a case of their
        # own): drop trailing elements, then fill with one blob
        target = LIMIT - 4 * draw(st.integers(-2, 8))
        size = lambda gs: 16 + sum(g['n'] * (tmpl_size(g['t']) + 4)
                                   for g in gs)
        room = tmpl_size(['blob', 4]) + 4 - 4     # element with empty blob
        while groups and size(groups) + room > target:
            g = groups[-1]
            over = size(groups) + room - target
            drop = min(g['n'], -(-over // (tmpl_size(g['t']) + 4)))
            g['n'] -= drop
            if g['n'] <= 0:
                groups.pop()
        fill = target - size(groups) - room
        if fill >= 4 and fill % 4 == 0 and fill + room <= LIMIT - 60:
            groups.append({'t': ['blob', fill], 'n': 1})
    return {'path': path, 'time': time, 'groups': groups}


def expand(case):
    out = []
    i = 0
    for g in case['groups']:
        for _ in range(g['n']):
            out.append(tmpl_element(g['t'], i, case['time']))
            i += 1
    return out


class FakeCondition:
    """Stand-in for stream.Condition whose reply has already arrived (the
    '/synced' reply is not part of this property)."""

    def wait(self):
        yield 0


def run_clump(case, v):
    elems = mat(expand(case))
    path = case['path']
    tb = M.TimeBase('rt', RT_OFFSET, float(main.current_tt._seconds))
    if path == 'bind':
        # BundleNetAddr collects messages; send_bundle(t, *msgs) contributes
        # its messages (time discarded, documented in the class)
        flat = []
        for e in elems:
            flat.extend([e] if M.is_msg_list(e) else e[1:])
        sources = flat
    else:
        sources = elems
    exp = [M.expect_packet(e, tb) for e in sources]
    sizes = [R.packet_size(e) for e in exp]
    total = R.bundle_size(sizes)
    labels = [f'path={path}']
    wide = any(g['t'][0] == 'str' and g['t'][2] for g in case['groups'])
    unaligned = any(g['t'][0] == 'blob' and g['t'][1] % 4
                    for g in case['groups'])
    if wide:
        labels.append('nonascii')
    if unaligned:
        labels.append('blob_unaligned')
    for lim in (8192, SYNC_MAX, LIMIT):
        if abs(total - lim) <= 64:
            labels.append(f'within64_of_{lim}')
    labels.append('total>limit' if total > LIMIT else 'total<=limit')

    addr = NetAddr('127.0.0.1', 57110)
    cap = Cap()
    addr._osc_interface = cap
    ids = itertools.count(1000)
    addr._make_sync_responder = lambda cond: next(ids)
    with rt_offset():
        try:
            if path == 'clumped':
                addr.send_clumped_bundles(case['time'], *elems)
            elif path == 'sync':
                for _ in addr.sync(FakeCondition(), case['time'], elems):
                    pass
            else:
                with BundleNetAddr(addr) as b:
                    for e in elems:
                        if M.is_msg_list(e):
                            b.send_msg(*e)
                        else:
                            b.send_bundle(e[0], *e[1:])
        except Exception as e:
            if sc3_origin(e) is None:
                raise
            if isinstance(e, UnicodeEncodeError) and any(
                    g['t'][0] == 'wideaddr' for g in case['groups']):
                # clean refusal of an address that is not OSC 1.0
                labels.append('nonascii_address_refused')
                return {'nontrivial': False, 'labels': labels}
            fail(v, 'clump_raised', f'{path}: {e!r} for {short(case)}',
                 exc=type(e).__name__, oversized=total > LIMIT)
            return {'nontrivial': False, 'labels': labels}

    got = []
    for i, d in enumerate(cap.sent):
        try:
            dec = R.decode_packet(d)
        except R.OscDecodeError as e:
            fail(v, 'clump_not_osc10', f'datagram {i}: {e}')
            return {'nontrivial': False, 'labels': labels}
        if not isinstance(dec, R.Bundle):
            fail(v, 'clump_not_bundle', f'datagram {i}: {short(dec)}')
            return {'nontrivial': False, 'labels': labels}
        els = list(dec.elements)
        if path == 'sync':
            if not (els and isinstance(els[-1], R.Message)
                    and els[-1].address == '/sync'
                    and els[-1].tags == 'i'):
                fail(v, 'sync_missing',
                     f'datagram {i} does not end with /sync id')
            else:
                els.pop()
        if len(d) > LIMIT:
            acc = 16 + sum(R.packet_size(e) for e in els)
            # what the two known size-formula defects contribute here
            src = [features(e) for e in sources[len(got):len(got) + len(els)]]
            fail(v, 'clump_over_limit',
                 f'{path}: datagram {i} of {len(cap.sent)} has {len(d)} '
                 f'bytes > {LIMIT} ({len(els)} elements, 16+sum(element '
                 f'sizes)={acc}); case {short(case)}',
                 path=path, n=len(els), acc=acc, size=len(d),
                 ndgrams=len(cap.sent),
                 bdef=sum(f['blob_deficit'] for f in src),
                 udef=sum(f['utf8_deficit'] for f in src))
        got.extend(els)
    if len(got) != len(exp):
        fail(v, 'clump_elements_differ',
             f'{path}: {len(exp)} elements in, {len(got)} out in '
             f'{len(cap.sent)} datagrams; case {short(case)}')
    else:
        for i, (g, e) in enumerate(zip(got, exp)):
            if not R.same_packet(g, e):
                fail(v, 'clump_elements_differ',
                     f'{path}: element {i} is {short(R.to_plain(g))} '
                     f'expected {short(R.to_plain(e))}')
                break
    labels.append('dgrams=1' if len(cap.sent) == 1 else
                  'dgrams=2-9' if len(cap.sent) < 10 else 'dgrams>=10')
    labels.append('elems<100' if len(exp) < 100 else
                  'elems<1000' if len(exp) < 1000 else 'elems>=1000')
    return {'nontrivial': len(cap.sent) > 1 or any(
        lb.startswith('within64') for lb in labels), 'labels': labels}


# --- SynthDef._do_send ------------------------------------------------------------

COMPLETIONS = [None, None, ['/sync', 7], ['/s_new', 'c06def', 1000, 0, 1],
               ['/n_set', 1000, 'freq', 440.0, 'x'],
               [0.0, ['/s_new', 'c06def', 1000, 0, 1]], [],
               ['/b_setn', 0, 0, 5, {'hex': '0102030405', 'w': 0}],
               ['/s_new', 'c06def', 1000, 0, 1, 'n\u00e4m', '\u20ac\u20ac\u20ac']]


@st.composite
def dsend_case(draw):
    compl = draw(st.sampled_from(COMPLETIONS))
    where = draw(st.sampled_from(['edge', 'edge', 'edge', 'small', 'huge']))
    if where == 'edge':
        # real size of ['/d_recv', blob(n), compl] as a function of n
        tb = M.TimeBase('nrt', lenient=True)
        base = R.packet_size(
            M.expect_msg(['/d_recv', b'1234', mat(compl)], tb)) - 4
        n = LIMIT - base + draw(st.integers(-9, 9))
    elif where == 'small':
        n = draw(st.integers(1, 3000))
    else:
        n = draw(st.integers(66000, 90000))
    return {'n': n, 'fill': draw(st.integers(0, 255)), 'completion': compl}


def run_dsend(case, v):
    data = pattern_bytes(case['n'], case['fill'])
    compl = mat(case['completion'])
    msg = ['/d_recv', data, compl]
    tb = M.TimeBase('rt', RT_OFFSET, float(main.current_tt._seconds),
                    lenient=True)
    exp = M.expect_msg(msg, tb)
    real = R.packet_size(exp)
    labels = [f'n%4={case["n"] % 4}',
              'compl=' + ('none' if compl is None else 'empty' if compl == []
                          else 'msg' if M.is_msg_list(compl) else 'bundle')]
    near = abs(real - LIMIT) <= 12
    labels.append('fits' if real <= LIMIT else 'too_big')
    addr = NetAddr('127.0.0.1', 57110)
    cap = Cap()
    addr._osc_interface = cap
    server = types.SimpleNamespace(addr=addr)
    old = SDEF._bytes
    SDEF._bytes = memoryview(data)
    try:
        with rt_offset():
            try:
                SDEF._do_send(server, compl)
            except Exception as e:
                if sc3_origin(e) is None:
                    raise
                fail(v, 'd_send_raised',
                     f'_do_send with {case["n"]} bytes, completion '
                     f'{compl!r}: {e!r}', exc=type(e).__name__)
                return {'nontrivial': near, 'labels': labels}
    finally:
        SDEF._bytes = old
    if len(cap.sent) != 1:
        fail(v, 'd_send_count', f'{len(cap.sent)} datagrams sent')
        return {'nontrivial': near, 'labels': labels}
    d = cap.sent[0]
    try:
        dec = R.decode_packet(d)
    except R.OscDecodeError as e:
        fail(v, 'not_osc10', f'_do_send datagram: {e}')
        return {'nontrivial': near, 'labels': labels}
    labels.append('sent=' + dec.address)
    if dec.address == '/d_recv':
        if len(d) > LIMIT:
            fail(v, 'd_recv_over_limit',
                 f'{case["n"]} definition bytes, completion {compl!r}: '
                 f'/d_recv datagram of {len(d)} bytes > {LIMIT} was sent',
                 size=len(d))
        if not R.same_packet(dec, exp):
            fail(v, 'roundtrip_differs',
                 f'/d_recv decoded {short(R.to_plain(dec))}')
    elif dec.address == '/d_load':
        if len(d) > LIMIT:
            fail(v, 'd_load_over_limit', f'{len(d)} bytes')
        ok = (dec.tags[:1] == 's' and len(dec.args) == 2
              and R.same_value(dec.args[1], M.expect_msg(
                  ['/x', compl], tb).args[0]))
        if not ok:
            fail(v, 'd_load_malformed', short(R.to_plain(dec)))
    else:
        fail(v, 'd_send_unexpected', short(R.to_plain(dec)))
    return {'nontrivial': near, 'labels': labels}


# --- NRT send path: score bytes ------------------------------------------------------

def score_case_strategy():
    msgs, bundles = make_strategies(1, 4, big=False, inj=(50, 2, 1))
    pkt = st.one_of(msgs[1], msgs[0], bundles[0], bundles[1])
    return st.fixed_dictionaries({
        'packets': st.lists(pkt, min_size=1, max_size=6),
        'tail': st.sampled_from([0, 0.5, 1, 2])})


def run_score(case, v):
    main.reset()
    try:
        return _run_score(case, v)
    finally:
        main.reset()


def _run_score(case, v):
    nrt = main._osc_interface
    sent = []
    times = []      # logical times (score priority): None/negative -> 0
    labels = []
    rich = 0
    for p in case['packets']:
        x = mat(p)
        tb = timebase('nrt')
        is_msg = M.is_msg_list(x)
        # in NRT a message is scored as a bundle at the current time
        as_bundle = [0.0, x] if is_msg else x
        exp, refuse = model('bundle', as_bundle, 'nrt')
        try:
            if is_msg:
                nrt.send_msg(None, *x)
            else:
                nrt.send_bundle(None, x[0], *x[1:])
        except Exception as e:
            if sc3_origin(e) is None:
                raise
            if refuse is None:
                fail(v, 'refused_representable', f'{short(x)} raised {e!r}')
            labels.append('refused')
            continue
        if refuse is not None and refuse.must:
            fail(v, f'unrepresentable_accepted:{refuse.reason}',
                 f'{short(x)} entered the score')
            return {'nontrivial': False, 'labels': labels}
        sent.append(exp)
        t = as_bundle[0]
        times.append(0.0 if t is None or t < 0 else float(t))
        f = features(x)
        if interesting(f):
            rich += 1
    score = main.process(case['tail'])
    raw = bytes(score.raw)
    try:
        pkts = [R.decode_packet(p) for p in R.split_size_prefixed(raw)]
    except R.OscDecodeError as e:
        fail(v, 'score_not_osc10', f'{short(case)}: {e}')
        return {'nontrivial': False, 'labels': labels}
    # the score is ordered by logical time, ties in order of arrival (C09):
    # root-node bundle first (added at reset), tail marker last added, at
    # tail seconds after the end of the run
    tb = timebase('nrt')
    tail_t = float(main.elapsed_time()) + case['tail']
    entries = [(0.0, M.expect_bundle([0.0, ['/g_new', 1, 0, 0]], tb))]
    entries += list(zip(times, sent))
    entries.append((tail_t, M.expect_bundle([tail_t, ['/c_set', 0, 0]], tb)))
    order = sorted(range(len(entries)), key=lambda i: (entries[i][0], i))
    exp_all = [entries[i][1] for i in order]
    if len(pkts) != len(exp_all):
        fail(v, 'score_count', f'{len(pkts)} bundles in the score, '
             f'{len(exp_all)} expected; case {short(case)}')
        return {'nontrivial': False, 'labels': labels}
    for i, (g, e) in enumerate(zip(pkts, exp_all)):
        if not R.same_packet(g, e):
            fail(v, 'score_roundtrip_differs',
                 f'score entry {i}: {short(R.to_plain(g), 500)} expected '
                 f'{short(R.to_plain(e), 500)}')
            break
    labels.append(f'sent={min(len(sent), 4)}')
    return {'nontrivial': len(sent) >= 2 and rich >= 1, 'labels': labels}


# --- known findings ---------------------------------------------------------------

def _payload(stage, case):
    if stage == 'msg':
        return mat(case['msg'])
    if stage == 'bundle':
        return mat(case['bundle'])
    if stage == 'dsend':
        return ['/d_recv', pattern_bytes(case['n'], case['fill']),
                mat(case['completion'])]
    return None


def classify_known(stage, case, viol):
    kind = viol.kind
    data = getattr(viol, 'data', {}) or {}
    if stage in ('msg', 'bundle'):
        x = _payload(stage, case)
        f = features(x)
        if kind == 'size_underpredicted':
            # attribute only what the two size formulas can explain
            causes = []
            if f['blob_deficit']:
                causes.append(('size_blob_padding', f['blob_deficit']))
            if f['utf8_deficit']:
                causes.append(('size_str_utf8', f['utf8_deficit']))
            active = [(k, d) for k, d in causes if k in _ACTIVE]
            if active and data.get('deficit', 1 << 30) <= sum(
                    d for _, d in active):
                return active[0][0]
            return None
        if kind == 'size_raised':
            exc = data.get('exc')
            if exc in ('TypeError', 'IndexError') and (
                    f['bundle_arg'] or f['empty_list']):
                return 'size_list_arg_raises'
            if exc == 'ValueError' and none_timed_nested(x):
                return 'size_none_time_raises'
            return None
        if kind == 'unrepresentable_accepted:nul_in_str' and f['nul']:
            return 'nul_in_string_sent'
        return None
    if stage == 'score':
        if kind == 'unrepresentable_accepted:nul_in_str':
            return 'nul_in_string_sent'
        return None
    if stage == 'clump':
        if kind == 'clump_over_limit' and 'acc' in data:
            # The datagram is attributed to known defects only if, with
            # their measured contributions removed, the clumper's own
            # invariant holds for this datagram.
            b = data['bdef'] if 'size_blob_padding' in _ACTIVE else 0
            u = data['udef'] if 'size_str_utf8' in _ACTIVE else 0
            sizekey = max((b, 'size_blob_padding'), (u, 'size_str_utf8'))
            # (a) a send whose predicted size was within the limit
            if sizekey[0] > 0 and data['size'] - b - u <= LIMIT:
                return sizekey[1]
            # (b) sync path: 16 + sum(predicted sizes) stayed below the clump
            # size, the uncounted 4-byte prefixes (+ /sync) pushed it over
            if data['path'] == 'sync' \
                    and 'clump_ignores_size_prefix' in _ACTIVE \
                    and data['acc'] - b - u < SYNC_MAX:
                return 'clump_ignores_size_prefix'
            # (c) a clump of the default size inflated by the size defects
            if data['path'] != 'sync' and data['ndgrams'] > 1 \
                    and sizekey[0] > 0 and data['acc'] - b - u < 8192:
                return sizekey[1]
            return None
        if kind == 'clump_raised' and data.get('exc') == 'ValueError' \
                and data.get('oversized') and case['path'] == 'clumped' \
                and case['time'] is not None and any(
                    g['t'][0] == 'bndl' and g['t'][1] == 0
                    for g in case['groups']):
            return 'clump_time_shift_refuses_nested'
        return None
    if stage == 'dsend':
        compl = case['completion']
        if kind == 'd_recv_over_limit':
            f = features(_payload(stage, case))
            b = f['blob_deficit'] if 'size_blob_padding' in _ACTIVE else 0
            u = f['utf8_deficit'] if 'size_str_utf8' in _ACTIVE else 0
            amount, key = max((b, 'size_blob_padding'), (u, 'size_str_utf8'))
            if amount > 0 and data.get('size', 1 << 30) - b - u <= LIMIT:
                return key
            return None
        if kind == 'd_send_raised' and data.get('exc') in (
                'TypeError', 'IndexError') and (
                    compl == [] or M.is_bundle_arg(compl)):
            return 'size_list_arg_raises'
        return None
    return None


def stages(ctx):
    return [
        Stage('msg', run_msg, msg_case_strategy(ctx.tier),
              quick=1000, thorough=30000),
        Stage('bundle', run_bundle, bundle_case_strategy(ctx.tier),
              quick=400, thorough=12000),
        Stage('clump', run_clump, clump_case(), quick=130, thorough=1500),
        Stage('dsend', run_dsend, dsend_case(), quick=120, thorough=1500),
        Stage('score', run_score, score_case_strategy(),
              quick=120, thorough=2000),
    ]
