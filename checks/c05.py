"""C05 - Logical time in routines is exact and independent of physical jitter."""

from fractions import Fraction as F

from hypothesis import strategies as st

from vlib.core import Stage, Reject
from vlib import prog, prog_model, proggen

PROPERTY = 'C05'
LEVEL = 'exploration'
MODE = 'nrt'
SHARDS = {'quick': 2, 'thorough': 16}
MANIFEST = {
    'technique': 'property-based testing: generated programs of nested '
                 'routines run in NRT mode and in RT mode under a '
                 'deterministic simulation of clock threads (virtual time, '
                 'generated schedule/jitter tape), compared with an exact '
                 'rational-arithmetic reference model; metamorphic check '
                 'that logical times do not depend on the tape',
    'category': 'exploration',
    'text': 'Programs of 1-6 nested routines with finite yield sequences on '
            'SystemClock, AppClock (NRT) and TempoClocks of fixed tempo, '
            'children started on the same or another clock with quant, are '
            'executed; the logical seconds and beats every routine observes '
            'at each resumption must equal the model (start + sum of deltas '
            'through the tempo map; child starts at parent time). In RT the '
            'same program is run under two different jitter/interleaving '
            'tapes and must give the same logical times. NRT: logical time '
            'never decreases across executed tasks and elapsed time ends at '
            'the last scheduled instant.',
    'note': 'Trusted: the reference model (vlib/prog_model.py) and the RT '
            'simulation shim (vlib/rtsim.py), which owns virtual time and '
            'the schedule at lock/condition operations; pre-emption inside '
            'unsynchronised regions is not explored.',
}
RULE = (
    'Hypothesis builds a tree of routines (depth<=3), bodies of log/wait '
    '(dyadic deltas incl. 0)/play-child ops, 0-3 TempoClocks with dyadic '
    'tempos (a labelled class uses non-dyadic tempos under 1e-9 tolerance) '
    'and quants/phases. Non-trivial = a nested spawn across two different '
    'clocks or a TempoClock with tempo != 1 is used (RT: and injected '
    'jitter > 0). Distinct by sha1 of the program (+tape).'
    ' rt_load stage: the same programs with steps that take 1/16-1/2 s of physical time; play ops use r.play, @routine.run or Routine.run; routines may end by yielding inf.')
ASSUMPTIONS = [
    'TempoClock.play without quant quantises to the next whole beat '
    '(Quant() defaults), as documented.',
    'RT stage: AppClock is excluded (documented to have no logical time).',
]

TOL_DYADIC = F(1, 2 ** 40)
TOL_FLOAT = F(1, 10 ** 9)


RT = []


def setup(ctx):
    from vlib import workers
    RT.append(workers.rtsim_worker())


def teardown(ctx):
    for w in RT:
        w.close()


def close(a, b, tol):
    a, b = F(a), F(b)
    return abs(a - b) <= tol * max(1, abs(b))


def uses_nondyadic(p):
    return any(c['tempo'] in proggen.OTHER_TEMPOS for c in p['clocks'])


def has_tempo_ops(p):
    return any(op[0] in ('tempo', 'etempo') for r in p['routines'].values()
               for op in r['body'])


def nontrivial_prog(p):
    used = set()
    cross = False

    def clocks_in(ops, parent_clock):
        nonlocal cross
        for op in ops:
            if op[0] == 'play':
                c = op[2] if op[2] is not None else parent_clock
                used.add(c)
                if parent_clock is not None and c != parent_clock:
                    cross = True
                clocks_in(p['routines'][op[1]]['body'], c)
    clocks_in(p['top'], None)
    tempo = any(isinstance(c, int) and p['clocks'][c]['tempo'] != 1
                for c in used)
    nested_cross = cross and any(
        op[0] == 'play' for r in p['routines'].values() for op in r['body'])
    return tempo or nested_cross


def compare_logs(real, model, tol, v, what, ordered=True):
    rl = [x for x in real if x['kind'] == 'log']
    ml = [x for x in model if x['kind'] == 'log']
    if ordered == 'ties_free':
        # tempo changes re-key the sleepers of a clock: the order between
        # routines of different clocks that wake at one instant is not
        # defined afterwards (each routine's own sequence and the times are)
        key = lambda x: (F(x['secs']), str(x['r']))
        rl, ml = sorted(rl, key=key), sorted(ml, key=key)
    elif not ordered:
        # inexact (non-dyadic) arithmetic: the relative order of events that
        # are simultaneous in exact arithmetic is not defined; compare each
        # routine's own sequence
        key = lambda x: (str(x['r']), x['tag'])
        rl, ml = sorted(rl, key=key), sorted(ml, key=key)
    if [(x['r'], x['tag']) for x in rl] != [(x['r'], x['tag']) for x in ml]:
        # same multiset per routine?
        per = lambda xs: {r: [x['tag'] for x in xs if x['r'] == r]
                          for r in {x['r'] for x in xs}}
        if per(rl) != per(ml):
            v.fail(what + '_resumptions',
                   f'real {[(x["r"], x["tag"], float(x["secs"])) for x in rl]}'
                   f' model {[(x["r"], x["tag"], float(x["secs"])) for x in ml]}')
            return
        v.fail(what + '_order',
               f'real {[(x["r"], x["tag"], float(x["secs"])) for x in rl]} '
               f'model {[(x["r"], x["tag"], float(x["secs"])) for x in ml]}')
        return
    for a, b in zip(rl, ml):
        if not close(a['secs'], b['secs'], tol):
            v.fail(what + '_logical_seconds',
                   f'{a["r"]} tag {a["tag"]}: {a["secs"]!r} vs model '
                   f'{float(b["secs"])!r}')
            return
        if (a['beats'] is None) != (b['beats'] is None) or (
                a['beats'] is not None and
                not close(a['beats'], b['beats'], tol)):
            v.fail(what + '_logical_beats',
                   f'{a["r"]} tag {a["tag"]}: beats {a["beats"]!r} vs model '
                   f'{b["beats"] and float(b["beats"])!r}')
            return


def run_nrt(p, v):
    try:
        # spawning a child does not influence anybody else's time; only a
        # tempo change exactly when another clock's routine wakes would
        m = prog_model.Model(p, interacting={'tempo', 'etempo'}).run()
    except prog_model.Ambiguous:
        raise Reject()
    if m.simultaneous:
        raise Reject()
    out = prog.run_nrt(p)
    tol = TOL_FLOAT if uses_nondyadic(p) else TOL_DYADIC
    compare_logs(out['trace'], m.trace, tol, v, 'nrt',
                 ordered=False if uses_nondyadic(p) else
                 'ties_free' if has_tempo_ops(p) else True)
    secs = [x['secs'] for x in out['trace'] if x['kind'] == 'log']
    # (inexact tempos: a start time converted to beats and back may come
    # out an ulp below the parent's time)
    slack = float(tol) if uses_nondyadic(p) else 0.0
    if any(b < a - slack * max(1.0, abs(a)) for a, b in zip(secs, secs[1:])):
        v.fail('nrt_time_decreases', f'{secs}')
    if not close(out['elapsed'], m.last_event, tol):
        v.fail('nrt_elapsed_end',
               f'elapsed_time() after process = {out["elapsed"]!r}, last '
               f'scheduled instant = {float(m.last_event)!r}')
    labels = []
    if uses_nondyadic(p):
        labels.append('nondyadic_tempo')
    if any(c == 'app' for r in p['routines'].values()
           for op in r['body'] if op[0] == 'play' for c in [op[2]]) or any(
            op[0] == 'play' and op[2] == 'app' for op in p['top']):
        labels.append('appclock')
    nt = nontrivial_prog(p)
    if nt:
        labels.append('tempo_or_cross_clock')
    return {'nontrivial': nt, 'labels': labels}


def run_rt(case, v):
    p = case['prog']
    inter = {'tempo', 'etempo'}
    if any(op[0] == 'beats_add' for r in p['routines'].values()
           for op in r['body']):
        # a jump of the beats is not continuous in seconds for the tasks
        # tied at that beat: the order in which two threads queued them
        # (spawning from another clock at the same instant) then matters
        inter |= {'beats_add', 'play', 'sched'}
    try:
        m = prog_model.Model(p, interacting=inter).run()
    except prog_model.Ambiguous:
        raise Reject()
    if m.simultaneous:
        raise Reject()
    load = sum(op[1] for r in p['routines'].values() for op in r['body']
               if op[0] == 'busy')
    horizon = float(m.last_event) + 1.0 + load
    tol = TOL_FLOAT if uses_nondyadic(p) else TOL_DYADIC
    jit = 0.0
    outs = []
    for tape in (case['tape_a'], case['tape_b']):
        out = RT[0].ask({'prog': p, 'tape': tape, 'horizon': horizon})
        if 'deadlock' in out:
            v.fail('rt_deadlock', out['deadlock'])
            return {'nontrivial': False, 'labels': ['deadlock']}
        if 'error' in out:
            v.fail('rt_raised', out['error'] + out.get('tb', '')[-600:])
            return {'nontrivial': False, 'labels': ['error']}
        if out['errors']:
            v.fail('rt_clock_thread_died', str(out['errors']))
        compare_logs(out['trace'], m.trace, tol, v, 'rt', ordered=False)
        jit += out['jitter']
        outs.append(out)
    if len(outs) == 2:
        la = [(x['r'], x['tag'], x['secs'], x['beats'])
              for x in outs[0]['trace'] if x['kind'] == 'log']
        lb = [(x['r'], x['tag'], x['secs'], x['beats'])
              for x in outs[1]['trace'] if x['kind'] == 'log']
        if sorted(la, key=str) != sorted(lb, key=str) and not v.items:
            v.fail('rt_depends_on_schedule', f'{la} vs {lb}')
    nt = nontrivial_prog(p) and jit > 0
    labels = ['jitter' if jit > 0 else 'no_jitter']
    if load:
        labels.append('busy_steps')
        nt = jit > 0
    if nontrivial_prog(p):
        labels.append('tempo_or_cross_clock')
    return {'nontrivial': nt, 'labels': labels}


def rt_cases(nondyadic=False, tempo_ops=False, busy=False, beats_ops=False):
    tape = st.lists(st.integers(0, 11), min_size=0, max_size=60)
    return st.fixed_dictionaries({
        'prog': proggen.timing_program(apps=False, nondyadic=nondyadic,
                                       tempo_ops=tempo_ops, busy=busy,
                                       beats_ops=beats_ops),
        'tape_a': tape, 'tape_b': tape})


def stages(ctx):
    return [
        Stage('rt', run_rt, rt_cases(), quick=150, thorough=1500),
        Stage('rt_tempo', run_rt, rt_cases(tempo_ops=True), quick=100,
              thorough=1000),
        Stage('rt_load', run_rt, rt_cases(busy=True), quick=150,
              thorough=1500),
        Stage('nrt_tempo', run_nrt, proggen.timing_program(tempo_ops=True,
                                                           etempo=True),
              quick=200, thorough=2000),
        Stage('nrt', run_nrt, proggen.timing_program(), quick=600,
              thorough=5000),
        Stage('nrt_float', run_nrt, proggen.timing_program(nondyadic=True),
              quick=150, thorough=1500),
    ]
