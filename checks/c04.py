"""C04 - Function parameters become correctly laid-out, correctly wired controls."""

import json
import math

from hypothesis import strategies as st

from vlib.core import Stage, sc3_origin
from vlib import graph as G
from vlib import scgf

PROPERTY = 'C04'
LEVEL = 'exploration'
MODE = 'nrt'
SHARDS = {'quick': 2, 'thorough': 16}
MANIFEST = {
    'technique': 'property-based testing: generated signatures (exec-compiled '
                 'functions) vs a reference control-layout model computed '
                 'from the signature alone; decoded with the independent '
                 'SCgf reader; probe outputs make the wiring observable',
    'category': 'exploration',
    'text': 'Signatures of 0-40 parameters with rate annotations, rates '
            'entries (names, lag numbers, lag lists, None), scalar/bool/None/'
            'tuple defaults, missing defaults, prepend, nested SynthDef.wrap, '
            'metadata spec defaults and variants are compiled; control array, '
            'name table, control units (class, rate, first slot, outputs, '
            'lag inputs, chunks of 16) and the per-parameter probe wiring '
            'must equal the reference layout; variant blocks and the '
            'positional/keyword mapping of calling the definition are checked '
            'too.',
    'note': 'Trusted: the reference layout model (groups ir,tr,ar,kr; '
            'declaration order; wrap appends) written from the SynthDef '
            'documentation; the SCgf reader.',
}
RULE = (
    'Hypothesis builds a tree of function signatures (outer + 0-2 levels of '
    'SynthDef.wrap), each parameter with default in {missing, None, int, '
    'float, bool, tuple of 1-6}, annotation in {none, ir, tr, ar, kr}; rates '
    'lists shorter/equal to the signature with None/0/lag/lag list/rate '
    'names; prepend 0-3; metadata specs; variants; a call with positional '
    'and keyword values. Non-trivial = at least two rate groups non-empty and '
    'an array default, or wrap depth >= 1, or more than 16 lagged slots. '
    'Distinct by sha1 of the case.')
RULE += ' ' + (
    'Prepended parameters (never controls) may carry any default (nested tuples, strings).')
ASSUMPTIONS = [
    'rates entries align with the parameters that follow the prepended ones '
    '(as in SuperCollider\'s addControlsFromArgsOfFunc).',
    'Lag lists are given only to array parameters of two or more values '
    '(a lag list for a scalar or one-element default is not a documented '
    'input; the library then multichannel-expands the whole control group).',
]

RATE_OF_GROUP = {'ir': 0, 'tr': 1, 'ar': 2, 'kr': 1}
UNIT_OF_GROUP = {'ir': 'Control', 'tr': 'TrigControl', 'ar': 'AudioControl',
                 'kr': 'Control'}
PROBE0 = 1000


def setup(ctx):
    global SynthDef, U, main
    from sc3.synth.synthdef import SynthDef
    from sc3.synth.ugens import installed_ugens as U
    from sc3.base.main import main


class Spec:
    def __init__(self, default):
        self.default = default


def spec_default(x):
    """Documented default of a spec: the number itself (duck-typed spec) or,
    for a ControlSpec [minval, maxval, default], its default, minval when
    the default is None."""
    if isinstance(x, list):
        return x[0] if x[2] is None else x[2]
    return x


def make_spec(x):
    if isinstance(x, list):
        from sc3.synth.spec import ControlSpec
        return ControlSpec(x[0], x[1], default=x[2])
    return Spec(x)


# --- reference layout ------------------------------------------------------------

class Layout:
    def __init__(self, case):
        self.case = case
        self.slot = 0
        self.defaults = []
        self.names = []       # (name, index)
        self.units = []       # dict(cls, rate, special, nout, lags)
        self.param_slots = {}  # gid -> (group, [slots])
        self.first_func_names = None
        self.process(case['func'], case['rates'], len(case['prepend']),
                     top=True)

    def value_of(self, p):
        d = p['default']
        if not p['has_default'] or d is None:
            specs = self.case.get('specs') or {}
            if p['name'] in specs:
                d = spec_default(specs[p['name']])
            else:
                d = 0.0
        return d

    def process(self, func, rates, nprepend, top=False):
        params = func['params'][nprepend:]
        rates = list(rates) + [0] * (len(params) - len(rates))
        rates = [0.0 if r is None else r for r in rates]
        cns = []
        for p, r in zip(params, rates):
            annot = p['annot']
            overridden = isinstance(r, str)
            if overridden:
                group, lag = r, 0.0
            elif annot in ('ir', 'tr', 'ar'):
                group, lag = annot, 0.0
            else:
                group, lag = 'kr', r
            cns.append(dict(p=p, group=group, lag=lag or 0.0,
                            value=self.value_of(p)))
        if top:
            self.first_func_names = [p['name'] for p in params]
        for cn in cns:
            cn['entry'] = len(self.names)
            self.names.append([cn['p']['name'], None])
        for group in ('ir', 'tr', 'ar', 'kr'):
            members = [cn for cn in cns if cn['group'] == group]
            if not members:
                continue
            flat, lags = [], []
            start = self.slot
            for cn in members:
                vals = cn['value'] if isinstance(cn['value'], list) \
                    else [cn['value']]
                self.names[cn['entry']][1] = start + len(flat)
                self.param_slots[cn['p']['gid']] = (
                    group, [start + len(flat) + k for k in range(len(vals))],
                    isinstance(cn['value'], list))
                flat.extend(vals)
                if group == 'kr':
                    lg = cn['lag']
                    if isinstance(cn['value'], list):
                        lg = lg if isinstance(lg, list) else [lg]
                        lags.extend(lg[k % len(lg)]
                                    for k in range(len(vals)))
                    else:
                        lags.append(lg)
            if group == 'kr' and any(x != 0 for x in lags):
                for c in range(0, len(flat), 16):
                    self.units.append(dict(
                        cls='LagControl', rate=1, special=start + c,
                        nout=len(flat[c:c + 16]), lags=lags[c:c + 16]))
            else:
                self.units.append(dict(
                    cls=UNIT_OF_GROUP[group], rate=RATE_OF_GROUP[group],
                    special=start, nout=len(flat), lags=None))
            self.defaults.extend(float(x) for x in flat)
            self.slot += len(flat)
        for w in func.get('wraps', []):
            self.process(w['func'], w['rates'], len(w['prepend']))


# --- building ----------------------------------------------------------------------

def fmt_default(p):
    if p.get('raw_default'):
        return p['raw_default']
    d = p['default']
    if isinstance(d, list):
        return repr(tuple(d))
    return repr(d)


def make_funcs(case, received):
    """exec-compile real functions for the signature tree."""
    counter = [0]

    def make(func, nprepend):
        k = counter[0]
        counter[0] += 1
        parts = []
        for p in func['params']:
            s = p['name']
            if p['annot']:
                s += f": '{p['annot']}'"
            if p['has_default']:
                s += ('=' if not p['annot'] else ' = ') + fmt_default(p)
            parts.append(s)
        names = ', '.join(p['name'] for p in func['params'])
        children = [(make(w['func'], len(w['prepend'])), w)
                    for w in func.get('wraps', [])]

        def body(vals):
            for p, val in list(zip(func['params'], vals))[nprepend:]:
                received[p['gid']] = val
                bus = PROBE0 + p['gid']
                grp = lay.param_slots[p['gid']][0]
                if grp == 'ar':
                    sig = [U['A2K'].kr(x) for x in val] \
                        if isinstance(val, list) else U['A2K'].kr(val)
                else:
                    sig = val
                U['Out'].kr(bus, sig)
            for fn, w in children:
                SynthDef.wrap(fn, list(w['rates']) if w['rates'] is not None
                              else None, list(w['prepend']))

        ns = {'_body': body}
        exec(f'def f{k}({", ".join(parts)}):\n    _body([{names}])\n', ns)
        return ns[f'f{k}']

    lay = Layout(case)
    return make(case['func'], len(case['prepend'])), lay


def run_case(case, v):
    received = {}
    fn, lay = make_funcs(case, received)
    kwargs = {}
    if case.get('specs'):
        kwargs['metadata'] = {'specs': {k: make_spec(x)
                                        for k, x in case['specs'].items()}}
    if case.get('variants'):
        kwargs['variants'] = case['variants']
    try:
        sd = SynthDef(case['name'], fn, list(case['rates']),
                      list(case['prepend']), **kwargs)
        data = G.def_bytes(sd)
    except Exception as e:
        where = sc3_origin(e) or (e.__cause__ is not None
                                  and sc3_origin(e.__cause__))
        if not where:
            raise
        v.fail(f'compile_raised:{type(e).__name__}@{where}', repr(e))
        return {'nontrivial': False, 'labels': ['compile_raised']}
    try:
        d = scgf.parse(data)[0]
    except scgf.FormatError as e:
        v.fail('bytes_unparseable', str(e))
        return {'nontrivial': False, 'labels': []}
    errs = scgf.structural_errors(d)
    if errs:
        v.fail('structure', '; '.join(errs[:3]))
        return {'nontrivial': False, 'labels': []}
    # control array
    exp = [G.f32(x) for x in lay.defaults]
    v.check(d['params'] == exp, 'control_defaults',
            lambda: f'emitted {d["params"]} expected {exp}')
    # name table
    expn = [(n, i) for n, i in lay.names]
    v.check(d['param_names'] == expn, 'name_table',
            lambda: f'emitted {d["param_names"]} expected {expn}')
    # control units
    ctl = {}
    for ui, u in enumerate(d['units']):
        if u['name'] in G.CONTROL_UNITS:
            ctl[(u['name'], u['special'])] = (ui, u)
    for eu in lay.units:
        got = ctl.pop((eu['cls'], eu['special']), None)
        if got is None:
            v.fail('control_unit_missing', f'{eu}; have {sorted(ctl)}')
            continue
        ui, u = got
        if u['rate'] != eu['rate'] or u['outputs'] != [eu['rate']] * eu['nout']:
            v.fail('control_unit_shape',
                   f'{eu} emitted as rate {u["rate"]} outputs {u["outputs"]}')
        if eu['lags'] is not None:
            lags = [d['constants'][b] if a == -1 else None
                    for a, b in u['inputs']]
            if lags != [G.f32(float(x)) for x in eu['lags']]:
                v.fail('lag_inputs', f'{eu} emitted lags {lags}')
        elif u['inputs']:
            v.fail('control_unit_inputs', f'{eu} has inputs {u["inputs"]}')
    for key in ctl:
        v.fail('control_unit_unexpected', f'{key}')
    # wiring of every parameter
    outs = {}
    for u in d['units']:
        if u['name'] == 'Out' and u['inputs'] and u['inputs'][0][0] == -1:
            outs[int(d['constants'][u['inputs'][0][1]])] = u
    for gid, (grp, slots, is_list) in lay.param_slots.items():
        u = outs.get(PROBE0 + gid)
        if u is None:
            v.fail('probe_missing', f'param gid {gid}')
            continue
        wires = u['inputs'][1:]
        got = []
        for a, b in wires:
            if a == -1:
                got.append(('const', d['constants'][b]))
                continue
            src = d['units'][a]
            if grp == 'ar' and src['name'] == 'A2K':
                a, b = src['inputs'][0]
                if a == -1:
                    got.append(('const', d['constants'][b]))
                    continue
                src = d['units'][a]
            if src['name'] in G.CONTROL_UNITS:
                got.append((src['name'], src['special'] + b))
            else:
                got.append((src['name'], None))
        cls = UNIT_OF_GROUP[grp]
        expw = [(cls, s) for s in slots]
        ok = len(got) == len(expw) and all(
            g[1] == e[1] and g[0] in ((e[0],) if e[0] != 'Control'
                                      else ('Control', 'LagControl'))
            for g, e in zip(got, expw))
        v.check(ok, 'parameter_wiring',
                lambda: f'param gid {gid} ({grp}) receives {got}, '
                        f'expected slots {expw}')
        val = received.get(gid)
        v.check(isinstance(val, list) == is_list, 'parameter_shape',
                lambda: f'param gid {gid}: body received {type(val).__name__}'
                        f' for {"array" if is_list else "scalar"} default')
    # variants
    if case.get('variants'):
        name_index = {n: i for n, i in lay.names}
        expv = []
        for key, pairs in case['variants'].items():
            vals = list(exp)
            for pn, x in pairs.items():
                xs = x if isinstance(x, list) else [x]
                for k, xv in enumerate(xs):
                    vals[name_index[pn] + k] = G.f32(float(xv))
            expv.append((case['name'] + '.' + key, vals))
        v.check(d['variants'] == expv, 'variants',
                lambda: f'emitted {d["variants"]} expected {expv}')
    # calling the definition
    call = case.get('call')
    labels = []
    if call is not None:
        captured = []
        iface = main._osc_interface
        old = iface.send_msg
        iface.send_msg = lambda target, *args: captured.append(list(args))
        try:
            sd(*call['pos'], **call['kw'])
        finally:
            iface.send_msg = old
        news = [m for m in captured if m and m[0] == '/s_new']
        if len(news) != 1:
            v.fail('call_s_new_count', f'{captured}')
        else:
            args = news[0][5:]
            names = lay.first_func_names
            exp_args = []
            for n, x in zip(names, call['pos']):
                exp_args += [n, x]
            for n, x in call['kw'].items():
                exp_args += [n, x]
            kind = 'call_mapping'
            if case['prepend']:
                kind += '_prepend'
            elif case['func'].get('wraps'):
                kind += '_wrap'
            v.check(args == exp_args and news[0][1] == case['name'], kind,
                    lambda: f'/s_new args {args} expected {exp_args}')
        labels.append('call')
    groups = {g for g, _, _ in lay.param_slots.values()}
    arrays = any(l for _, _, l in lay.param_slots.values())
    depth = 1 if case['func'].get('wraps') else 0
    nlag = sum(eu['nout'] for eu in lay.units if eu['cls'] == 'LagControl')
    nontrivial = (len(groups) >= 2 and arrays) or depth >= 1 or nlag > 16
    labels += [f'groups_{len(groups)}']
    if arrays:
        labels.append('array_default')
    if depth:
        labels.append('wrap')
    if nlag > 16:
        labels.append('lag_over_16')
    if case['prepend']:
        labels.append('prepend')
    if 'raw_default' in json.dumps(case):
        labels.append('prepended_param_with_odd_default')
    if case.get('variants'):
        labels.append('variants')
    if case.get('specs'):
        labels.append('specs')
    return {'nontrivial': nontrivial, 'labels': labels}


# --- strategy -----------------------------------------------------------------------

NUMS = [0, 1, -1, 0.5, 440, 0.1, 2.5, 100.0, -3, 7]


@st.composite
def cases(draw, max_params=12, big=False):
    gid = [0]
    used = set()

    def fresh_name():
        base = draw(st.sampled_from(['freq', 'amp', 'gate', 'pan', 'out',
                                     'x', 'y', 'cut', 'res', 'mix', 'a',
                                     'b', 't_trig', 'buf']))
        n = base
        k = 0
        while n in used:
            k += 1
            n = f'{base}{k}'
        used.add(n)
        return n

    def param(allow_missing):
        kind = draw(st.sampled_from(
            ['num', 'num', 'num', 'none', 'bool', 'tuple', 'missing']))
        if kind == 'missing' and not allow_missing:
            kind = 'none'
        p = {'name': fresh_name(), 'gid': gid[0], 'has_default': True,
             'annot': draw(st.sampled_from(
                 [None, None, None, 'ir', 'tr', 'ar', 'kr']))}
        gid[0] += 1
        if kind == 'num':
            p['default'] = draw(st.sampled_from(NUMS))
        elif kind == 'none':
            p['default'] = None
        elif kind == 'bool':
            p['default'] = draw(st.booleans())
        elif kind == 'tuple':
            p['default'] = draw(st.lists(st.sampled_from(NUMS), min_size=1,
                                         max_size=6))
        else:
            p['default'] = None
            p['has_default'] = False
        return p

    def func(depth, nmax):
        n = draw(st.integers(0, nmax))
        params = []
        allow_missing = True
        for _ in range(n):
            p = param(allow_missing)
            if p['has_default']:
                allow_missing = False   # Python: no bare param after default
            params.append(p)
        nprep = draw(st.integers(0, min(3, len(params)))) \
            if draw(st.integers(0, 3)) == 0 else 0
        prepend = [draw(st.sampled_from(NUMS)) for _ in range(nprep)]
        for p in params[:nprep]:
            # a prepended parameter never becomes a control: its default is
            # the function's own business, whatever it is
            if p['has_default'] and draw(st.integers(0, 2)) == 0:
                p['raw_default'] = draw(st.sampled_from(
                    ['((1, 1.0),)', "('a', 'b')", '((1, 2), (3, 4))',
                     "'name'", '(None, 2)']))
        rest = params[nprep:]
        nr = draw(st.integers(0, len(rest)))
        rates = []
        for p in rest[:nr]:
            choices = [None, 0, 'ir', 'tr', 'ar', 'kr', 0.1, 0.5, 2]
            r = draw(st.sampled_from(choices))
            if isinstance(p['default'], list) and p['has_default'] \
                    and len(p['default']) >= 2 and draw(st.booleans()):
                r = draw(st.lists(st.sampled_from([0, 0.1, 0.25, 1]),
                                  min_size=1, max_size=4))
            rates.append(r)
        if big and depth == 0:
            # many lagged control-rate slots (more than one LagControl chunk)
            for p, i in zip(rest, range(len(rest))):
                if i < len(rates) and rates[i] in (None, 0):
                    rates[i] = 0.2
        f = {'params': params}
        if depth < 2 and draw(st.integers(0, 3)) == 0:
            f['wraps'] = [func(depth + 1, 4)
                          for _ in range(draw(st.integers(1, 2)))]
        return {'func': f, 'rates': rates, 'prepend': prepend}

    top = func(0, max_params)
    case = {'name': 'c4', 'func': top['func'], 'rates': top['rates'],
            'prepend': top['prepend']}
    # metadata specs for default-less / None parameters
    allp = []

    def collect(f, nprep):
        for p in f['params'][nprep:]:
            allp.append(p)
        for w in f.get('wraps', []):
            collect(w['func'], len(w['prepend']))
    collect(case['func'], len(case['prepend']))
    specs = {}
    for p in allp:
        # a spec default stands in for a missing / None default only: specs
        # are also given to parameters with explicit (also zero/False)
        # defaults, which must win
        if draw(st.integers(0, 2)) == 0:
            if draw(st.booleans()):
                specs[p['name']] = draw(st.sampled_from(NUMS))
            else:
                # a real ControlSpec: [minval, maxval, default | None]
                lo, hi = draw(st.sampled_from(
                    [[-1, 1], [0, 1], [20, 20000], [-20, 20], [0.5, 2]]))
                specs[p['name']] = [lo, hi, draw(st.sampled_from(
                    [None, 0, 0.0, lo, hi, 1]))]
    if specs:
        case['specs'] = specs
    if allp and draw(st.integers(0, 2)) == 0:
        variants = {}
        for key in draw(st.lists(st.sampled_from(['lo', 'hi', 'alt']),
                                 min_size=1, max_size=3, unique=True)):
            pairs = {}
            for p in draw(st.lists(st.sampled_from(allp), min_size=1,
                                   max_size=3,
                                   unique_by=lambda p: p['name'])):
                if isinstance(p['default'], list) and p['has_default']:
                    k = draw(st.integers(1, len(p['default'])))
                    pairs[p['name']] = [draw(st.sampled_from(NUMS))
                                        for _ in range(k)]
                else:
                    pairs[p['name']] = draw(st.sampled_from(NUMS))
            variants[key] = pairs
        case['variants'] = variants
    top_params = case['func']['params'][len(case['prepend']):]
    if draw(st.booleans()):
        # (sometimes more values than the function has free parameters:
        # the surplus maps to no name - in particular not to the names of
        # a wrapped function)
        npos = draw(st.integers(0, len(top_params) + (
            2 if draw(st.integers(0, 2)) == 0 else 0)))
        pos = [draw(st.sampled_from(NUMS)) for _ in range(npos)]
        kwn = draw(st.lists(st.sampled_from([p['name'] for p in allp]
                                            or ['zz']), max_size=3,
                            unique=True)) if allp else []
        case['call'] = {'pos': pos,
                        'kw': {n: draw(st.sampled_from(NUMS)) for n in kwn}}
    return case


def stages(ctx):
    return [
        Stage('layout', run_case, cases(max_params=10), quick=2500,
              thorough=8000),
        Stage('layout_wide', run_case, cases(max_params=40, big=True),
              quick=300, thorough=1500),
    ]
