"""C15 - Operators lift uniformly over functions, streams, patterns, lists,
operands; the numeric kernels satisfy their range and inverse laws.

Stage `lift`: generated operator expressions over every operand kind are
built with the library and evaluated; the oracle is vlib.ops_model.lift
(the operator applied to the *evaluated* operands, written from the
statement, no sc3 code).  Stage `laws`: range / idempotence / multiple /
inverse laws of the numeric kernels on generated int/float arguments.
See DESIGN.md C15.
"""

import builtins as pybuiltins
import inspect
import json
import math
import operator
import re
import signal
from fractions import Fraction

from hypothesis import strategies as st

from vlib.core import Stage, Reject
from vlib import ops_model as M
from vlib.ops_model import Seq, Lst, Opd, Err, CAP

PROPERTY = 'C15'
LEVEL = 'exploration'
MODE = 'nrt'
SHARDS = {'quick': 2, 'thorough': 16}
MANIFEST = {
    'technique': 'property-based testing: generated operator expressions '
                 'over all operand kinds evaluated against a reference '
                 'denotational model (operator table by introspection), '
                 'plus algebraic laws of the numeric kernels on generated '
                 'int/float arguments',
    'category': 'exploration',
    'text': 'table: every row of the operator table x spelling x '
            'receiver kind is applied once to fixed operands (bounded-'
            'exhaustive). lift: an operator table is built by introspection (public '
            'methods and dunders of AbstractObject incl. reflected forms, '
            'every @scbuiltin of sc3.base.builtins); Hypothesis draws an '
            'operator, a spelling (method, Python operator, number on the '
            'left, builtins function, utils.list_* call) and operand trees '
            'over number / Function / composed function / Routine / '
            'FunctionStream / pattern stream / Pseq / @pattern / ChannelList '
            '/ arrayed tuple / nested list+tuple / Operand / Rest; the '
            'composed object is called / next-ed / iterated / embedded / '
            'indexed and compared, exactly and NaN-aware or by exception '
            'class, with the same-named numeric operator applied to the '
            'evaluated operands (streams item-wise to the shortest, lists '
            'with a reference wrap-extend, random operators under a '
            're-seeded generator). laws: wrap/fold/wrap2/fold2/clip2 stay '
            'inside their bounds, clip is idempotent, round/roundup/trunc '
            'give the nearest multiple on the correct side, mod lies in '
            '[0, b) for b > 0, midi/cps, ratio/midi, oct/cps, amp/db invert '
            'each other; exact (Fraction) checks on dyadic inputs, 1e-9 '
            'relative tolerance elsewhere.',
    'note': 'Trusted: vlib/ops_model.py (receiver-first nesting of mixed '
            'operand kinds, wrap-extend, zip-to-shortest), the name -> '
            'numeric operator table (method foo <-> builtins.foo or the '
            'Python operator of that name). Not asserted: ChannelList + '
            'Stream (one stream shared by all channels), list-valued extra '
            'arguments of n-ary operators, result container types.',
}
RULE = (
    'table: enumeration of every operator row x spelling x receiver kind '
    'with two fixed operand sets (never counted as non-trivial). '
    'lift: composite strategy picks arity class (unary 25 / binary 50 / '
    'n-ary 25 %), an operator row of the introspected table, one of its '
    'spellings, operand kinds (kind+number, number+kind, kind+kind, two '
    'different kinds 50 % of binaries) and operand trees (leaf, or with '
    '35 % a composed operand of the same kind); numbers are ints in '
    '[-8, 8], dyadic floats k/4, and 6 % specials (inf, nan, -0.0, 1e6, '
    '0.1). Non-trivial = at least two non-number operands and (two '
    'different kinds, or a composed operand, or lists/streams of unequal '
    'length, or a nested list). laws: law name uniform, argument flavour '
    '(all int / all dyadic float / int receiver with float arguments / '
    'float receiver with int arguments / arbitrary floats) uniform, 40 % of '
    'the cases place the receiver on a boundary (lo, hi, lo-range, k*q, '
    'k*q+q/2, int32 limits). Non-trivial = mixed int/float arguments or a '
    'boundary value. Distinct by sha1 of the canonical case JSON.')
ASSUMPTIONS = [
    'Mixed operand kinds nest receiver-first (Function transparent, number '
    'on the left yields to the right operand), as in sclang; ChannelList '
    'op Stream is not generated (the channels would share one stream).',
    'An operator name a kind overrides with another meaning (Operand.__eq__, '
    'ChannelList.clip/fold/wrap/blend UGen conveniences) is exercised on '
    'that kind only through the builtins function, not through the method '
    '- except the n-ary names of ChannelList on flat channel lists of plain '
    'numbers with every argument given, where the unit-generator meaning is '
    'the numeric operator per channel.',
    'Domain errors must agree in exception class only; when a stream could '
    'either end or raise at the same position both outcomes are accepted.',
    'wrap/fold: the bounds law is asserted for every argument mix; the '
    'definitional clauses (congruence modulo the range, triangle '
    'reflection) only for homogeneous dyadic arguments; negative quanta '
    'and moduli, lo > hi and q = 0 are not generated.',
    'Random operators are compared under main._m_rgen re-seeded before each '
    'side, and only at the root of an expression.',
]


# ===========================================================================
# setup: sc3 names and the operator table
# ===========================================================================

def setup(ctx):
    global bi, utl, aob, main, Function, AbstractFunction, Routine
    global FunctionStream, Stream, stream_fn, StopStream, Pattern, Pseq
    global pattern_deco, ChannelList, arrayed_param, Operand, Rest, pvals
    global TABLE, ROWS, OVERRIDDEN
    from sc3.base import builtins as bi
    from sc3.base import utils as utl
    from sc3.base import absobject as aob
    from sc3.base.main import main
    from sc3.base.functions import Function, AbstractFunction
    from sc3.base import functions as fnmod
    from sc3.base import stream as stmod
    from sc3.base.stream import (Routine, FunctionStream, Stream, StopStream)
    from sc3.base.stream import stream as stream_fn
    from sc3.seq.pattern import Pattern
    from sc3.seq import pattern as ptmod
    from sc3.seq.pattern import pattern as pattern_deco
    from sc3.seq.patterns.listpatterns import Pseq
    from sc3.seq.eventstream import PatternValueStream
    from sc3.synth.ugen import ChannelList
    from sc3.seq.event import arrayed_param, Rest
    from sc3.base.operand import Operand

    @pattern_deco
    def pvals(vals):
        for v in vals:
            yield v

    kind_classes = {
        'fn': [Function, fnmod.UnopFunction, fnmod.BinopFunction,
               fnmod.NaropFunction],
        'st': [Routine, FunctionStream, PatternValueStream,
               stmod.UnopStream, stmod.BinopStream, stmod.NaropStream],
        'pat': [Pseq, pvals, ptmod.Punop, ptmod.Pbinop, ptmod.Pnarop],
        'lst': [ChannelList, arrayed_param],
        'opd': [Operand, Rest],
    }
    TABLE = build_table(ctx)
    ROWS = sorted(TABLE)
    OVERRIDDEN = {}
    base = aob.AbstractObject
    for kind, classes in kind_classes.items():
        s = set()
        for name, fn in vars(base).items():
            if not inspect.isfunction(fn) or name.startswith('_compose') \
               or name.startswith('_rcompose'):
                continue
            for c in classes:
                if getattr(c, name, None) is not fn:
                    s.add(name)
        OVERRIDDEN[kind] = s


class Row:
    def __init__(self, key, arity, params, oracle, invoke, reflected=False):
        self.key = key
        self.src, self.name = key.split(':', 1)
        self.arity = arity          # 'un' | 'bin' | 'nar'
        self.params = params        # [(name, required)] beyond the receiver
        self.oracle = oracle        # numeric operator on plain values
        self.invoke = invoke        # spelling through the library
        self.reflected = reflected
        self.random = False
        self.related = {self.name}  # attribute names Python may dispatch to
        self.defaults = {}          # param name -> documented default

    @property
    def nreq(self):
        return sum(1 for _, r in self.params if r)

    @property
    def nopt(self):
        n = 0
        for p, r in self.params:
            if r:
                continue
            if p in ('range', 'range2'):   # precomputed hints of the C code
                break
            n += 1
        return n

    @property
    def forms(self):
        if self.src == 'm':
            return ['method']
        if self.src == 'b':
            return ['builtin']
        return ['dunder', 'rdunder'] if self.reflected else ['dunder']


DUNDER_INVOKE = {
    '__neg__': operator.neg, '__pos__': operator.pos, '__abs__': abs,
    '__invert__': operator.invert, '__ceil__': math.ceil,
    '__floor__': math.floor, '__trunc__': math.trunc, '__round__': round,
}
COMPARISONS = {'__lt__': '__gt__', '__le__': '__ge__', '__gt__': '__lt__',
               '__ge__': '__le__', '__eq__': '__eq__', '__ne__': '__ne__'}
# methods whose name is the sclang spelling of a Python operator
ALIASES = {'not_': operator.not_, 'abs': operator.abs, 'neg': operator.neg,
           'bitnot': operator.invert, 'bitand': operator.and_,
           'bitor': operator.or_, 'bitxor': operator.xor,
           'pow': operator.pow, 'lshift': operator.lshift,
           'rshift': operator.rshift}
RANDOM_SEED_NAMES = {'rand', 'rand2', 'linrand', 'bilinrand', 'sum3rand',
                     'coin', 'rrand', 'exprand', 'xrand', 'xrand2', 'gauss'}
DANGER = {'pow', '__pow__', 'lshift', '__lshift__'}   # int results explode
INTISH = {'__invert__', '__lshift__', '__rshift__', '__and__', '__or__',
          '__xor__', 'bitnot', 'bitand', 'bitor', 'bitxor', 'lshift',
          'rshift', 'lcm', 'gcd', 'graycode', 'even', 'odd', 'xrand',
          'urshift'}


def scbuiltin_inner(wrapper):
    for cell in wrapper.__closure__ or ():
        try:
            c = cell.cell_contents
        except ValueError:
            continue
        if inspect.isfunction(c) and c is not wrapper and \
           c.__name__ == wrapper.__name__:
            return c
    return None


def build_table(ctx):
    """Operator table by introspection of the tree under test."""
    rows = {}
    base = aob.AbstractObject

    class Sent:
        def __init__(self, i):
            self.i = i

    class Probe(base):
        def _compose_unop(self, sel):
            return ('un', sel)

        def _compose_binop(self, sel, other):
            return ('bin', sel, other)

        def _rcompose_binop(self, sel, other):
            return ('rbin', sel, other)

        def _compose_narop(self, sel, *args):
            return ('nar', sel, args)

    reflected = set()
    for name, fn in vars(base).items():
        if not inspect.isfunction(fn) or name.startswith('_compose') \
           or name.startswith('_rcompose') or name == '__hash__':
            continue
        ps = list(inspect.signature(fn).parameters.values())[1:]
        if any(p.kind is not p.POSITIONAL_OR_KEYWORD for p in ps):
            ctx.notes.append(f'operator table: {name} skipped (signature)')
            continue
        params = [(p.name, p.default is p.empty) for p in ps]
        sent = [Sent(i) for i, (_, req) in enumerate(params) if req]
        try:
            res = fn(Probe(), *sent)
        except Exception:
            res = None
        if not (isinstance(res, tuple) and res and
                res[0] in ('un', 'bin', 'rbin', 'nar')):
            # every public method of AbstractObject is an operator: keep the
            # row (arity from the signature) so that the cases expose it
            ctx.notes.append(f'operator table: {name} does not compose')
            res = ('un' if not params else 'bin' if len(params) == 1
                   else 'nar', None, Sent(0))
        # a reflected dunder is recognised by its name (Python's data
        # model decides when it is called), not by what it composes
        if res[0] == 'rbin' or (
                re.fullmatch(r'__r\w+__', name) and
                '__' + name[3:] in vars(base) and
                hasattr(operator, '__' + name[3:]) and len(params) == 1):
            reflected.add(name)
            continue
        if res[0] == 'un' or (res[0] == 'bin' and not params):
            arity = 'un'
        elif res[0] == 'bin':
            arity = 'bin'
        else:
            arity = 'nar'
        if name.startswith('__'):
            inv = DUNDER_INVOKE.get(name) or getattr(operator, name, None)
            if inv is None:
                ctx.notes.append(f'operator table: no spelling for {name}')
                continue
            orc = inv
            if name == '__mod__':
                orc = bi.mod
            elif name == '__round__':
                orc = (lambda x, n=1: bi.round(x, n))
            elif name == '__trunc__':
                orc = (lambda x: bi.trunc(x, 1))
            elif name == '__ceil__':
                orc = bi.ceil
            elif name == '__floor__':
                orc = bi.floor
            rows['d:' + name] = Row('d:' + name, arity, params, orc, inv)
        else:
            orc = ALIASES.get(name) or getattr(bi, name, None)
            if orc is None:
                ctx.notes.append(f'operator table: no numeric {name}')
                continue
            rows['m:' + name] = Row(
                'm:' + name, arity, params, orc,
                (lambda a, *r, _n=name: getattr(a, _n)(*r)))
            rows['m:' + name].defaults = {
                p.name: p.default for p in ps if p.default is not p.empty}
    for key, row in rows.items():
        if row.src != 'd':
            continue
        rname = '__r' + row.name[2:]
        if rname in reflected:
            row.reflected = True
            row.related.add(rname)
        if row.name in COMPARISONS:
            row.reflected = True
            row.related.add(COMPARISONS[row.name])
    # every @scbuiltin of sc3.base.builtins
    sources = {}
    for name, fn in vars(bi).items():
        q = getattr(fn, '__qualname__', '')
        m = re.match(r'scbuiltin\.(unop|binop|narop)\.<locals>\.scbuiltin_',
                     q)
        if not (inspect.isfunction(fn) and m):
            continue
        inner = scbuiltin_inner(fn)
        if inner is None:
            ctx.notes.append(f'operator table: builtins.{name} opaque')
            continue
        ps = list(inspect.signature(inner).parameters.values())[1:]
        params = [(p.name, p.default is p.empty) for p in ps]
        arity = {'unop': 'un', 'binop': 'bin', 'narop': 'nar'}[m.group(1)]
        rows['b:' + name] = Row('b:' + name, arity, params, fn, fn)
        try:
            sources[name] = inspect.getsource(inner)
        except OSError:
            sources[name] = ''
    rnd = {n for n, s in sources.items() if '_rgen' in s} | \
        (RANDOM_SEED_NAMES & set(sources))
    grew = True
    while grew:
        grew = False
        for n, s in sources.items():
            if n not in rnd and any(
                    re.search(r'(?<![\w.])%s\(' % r, s) for r in rnd):
                rnd.add(n)
                grew = True
    for row in rows.values():
        row.random = row.name in rnd and (
            row.src == 'b' or row.oracle is getattr(bi, row.name, None))
    return rows


# ===========================================================================
# numbers
# ===========================================================================

def num(v):
    return float(v) if isinstance(v, str) else v


# ===========================================================================
# expressions: kinds, building with sc3, modelling
# ===========================================================================

def kind_of(e):
    k = e['k']
    if k in ('num', 'lit'):
        return 'num'
    if k == 'op':
        ks = [kind_of(a) for a in e['args']]
        nn = [x for x in ks if x != 'num']
        if not nn:
            return 'num'
        if 'st' in nn and all(x in ('st', 'pat') for x in nn):
            return 'st'
        return nn[0] if len(set(nn)) == 1 else 'mixed'
    return k


def nested_py(item, top=False):
    if isinstance(item, list):
        tag, xs = item
        ys = [nested_py(x) for x in xs]
        return tuple(ys) if tag == 't' else ys
    return num(item)


def nested_model(item):
    if isinstance(item, list):
        return Lst([nested_model(x) for x in item[1]])
    return num(item)


class Env:
    def __init__(self, case):
        self.x = num(case['x'])
        self.pmode = case['pmode']
        # streams are pulled with input values x, x + 1, ... when a leaf
        # depends on them (then never through the plain iterator protocol)
        self.invals = 'pfunc' in json.dumps(case['expr'])
        if self.invals and self.pmode == 'iter':
            self.pmode = 'embed'


def make_leaf(e, env):
    """The sc3 object of a leaf spec (harness code: must not fail)."""
    k = e['k']
    if k == 'num':
        return num(e['v'])
    if k == 'lit':
        return e['v']
    if k == 'fn':
        m, c = num(e['m']), num(e['c'])
        if e['nargs']:
            return Function(lambda x: m * x + c)
        return Function(lambda: c)
    if k == 'st':
        vals = [num(v) for v in e['vals']]
        if e['impl'] == 'routine':
            def gen():
                for v in vals:
                    yield v
            return Routine(gen)
        if e['impl'] == 'fstream':
            state = [0]

            def nxt():
                v = vals[state[0] % len(vals)]
                state[0] += 1
                return v
            return FunctionStream(nxt)
        return stream_fn(Pseq(vals, 1))
    if k == 'pat':
        vals = [num(v) for v in e['vals']]
        if e['impl'] == 'pfunc':
            from sc3.seq.patterns.funcpatterns import Pfunc
            m, c = vals[0], vals[-1]
            return Pfunc(lambda inval: m * inval + c)
        return Pseq(vals, 1) if e['impl'] == 'pseq' else pvals(vals)
    if k == 'lst':
        items = [nested_py(i) for i in e['items']]
        top = e['top']
        if top == 'chl':
            return ChannelList(items)
        if top == 'ap':
            return arrayed_param(items)
        return tuple(items) if top == 't' else items
    if k == 'opd':
        return (Rest if e['cls'] == 'Rest' else Operand)(num(e['v']))
    raise AssertionError(k)


def model_leaf(e, env):
    k = e['k']
    if k == 'num':
        return num(e['v'])
    if k == 'lit':
        return e['v']
    if k == 'fn':
        m, c = num(e['m']), num(e['c'])
        return m * env.x + c if e['nargs'] else c
    if k == 'st':
        vals = [num(v) for v in e['vals']]
        if e['impl'] == 'fstream':
            return Seq([vals[i % len(vals)] for i in range(CAP)], False)
        return Seq(vals, True)
    if k == 'pat':
        if e['impl'] == 'pfunc':
            m, c = num(e['vals'][0]), num(e['vals'][-1])
            # the i-th next() is given the input value x + i
            return Seq([m * (env.x + i) + c for i in range(CAP)], False)
        return Seq([num(v) for v in e['vals']], True)
    if k == 'lst':
        return Lst([nested_model(i) for i in e['items']])
    if k == 'opd':
        return Opd(num(e['v']))
    raise AssertionError(k)


class Raised(Exception):
    def __init__(self, exc):
        self.exc = exc


def invoke(row, form, objs):
    if form == 'listfn':
        if row.arity == 'un':
            return utl.list_unop(row.oracle, objs[0])
        if row.arity == 'bin' and len(objs) == 2:
            return utl.list_binop(row.oracle, objs[0], objs[1])
        return utl.list_narop(row.oracle, objs[0], *objs[1:])
    return row.invoke(*objs)


def build(e, env):
    if e['k'] != 'op':
        return make_leaf(e, env)
    objs = [build(a, env) for a in e['args']]
    row = TABLE[e['op']]
    try:
        return invoke(row, e['form'], objs)
    except Raised:
        raise
    except Exception as exc:        # composing raised (eager kinds compute)
        raise Raised(exc) from None


def model(e, env):
    if e['k'] != 'op':
        return model_leaf(e, env)
    row = TABLE[e['op']]
    args = [model(a, env) for a in e['args']]
    if e['form'] == 'method':   # omitted arguments: the method's defaults
        for pname, _ in row.params[len(args) - 1:]:
            args.append(row.defaults[pname])
    return M.lift(row.oracle, args)


def to_stream(p, pmode):
    if pmode == 'iter':
        return iter(p)
    if pmode == 'embed':
        return stream_fn(Pseq([p], 1))
    return stream_fn(p)


def denote(obj, env):
    """Evaluate whatever the library built, down to plain values."""
    if isinstance(obj, Operand):
        return Opd(denote(obj.value, env))
    if isinstance(obj, AbstractFunction):
        try:
            r = obj(env.x)
        except Exception as exc:
            return Err(type(exc).__name__)
        return denote(r, env)
    if isinstance(obj, Pattern):
        try:
            obj = to_stream(obj, env.pmode)
        except Exception as exc:
            return Err(type(exc).__name__)
    if isinstance(obj, Stream):
        items = []
        done = False
        for i in range(CAP):
            try:
                v = obj.next(env.x + i) if env.invals else obj.next()
            except StopIteration:       # StopStream is a StopIteration
                done = True
                break
            except Exception as exc:
                items.append(Err(type(exc).__name__))
                break
            items.append(denote(v, env))
        return Seq(items, done)
    if isinstance(obj, (list, tuple)):
        return Lst([denote(i, env) for i in obj])
    return obj


class Hang(BaseException):
    """Evaluation exceeded the CPU budget (passes `except Exception`)."""


CPU_LIMIT = 1.0     # seconds of process CPU time; a case needs about 1 ms


class cpu_limit:
    def __enter__(self):
        def on_alarm(signum, frame):
            raise Hang()
        self.old = signal.signal(signal.SIGVTALRM, on_alarm)
        signal.setitimer(signal.ITIMER_VIRTUAL, CPU_LIMIT, 1.0)

    def __exit__(self, *exc):
        signal.setitimer(signal.ITIMER_VIRTUAL, 0)
        signal.signal(signal.SIGVTALRM, self.old)
        return False


def leaves(e):
    if e['k'] == 'op':
        for a in e['args']:
            yield from leaves(a)
    else:
        yield e


def has_nested(e):
    return any(isinstance(i, list) for i in e['items'])


def run_lift(case, v):
    env = Env(case)
    root = case['expr']
    row = TABLE.get(root['op'])
    if any(n['op'] not in TABLE for n in nodes(root)):
        raise Reject()      # a replayed case naming an operator not present
    kinds = [kind_of(a) for a in root['args']]
    if row.random:
        main._m_rgen.seed(case['seed'])
    try:
        with cpu_limit():
            got = denote(build(root, env), env)
    except Raised as r:
        got = Err(type(r.exc).__name__)
    except Hang:
        v.fail(f'does_not_terminate:{row.arity}:' + '-'.join(kinds[:2]),
               f'{render(root)} at x={env.x!r} pmode={env.pmode}: still '
               f'evaluating after {CPU_LIMIT} s of CPU time')
        got = None
    if row.random:
        main._m_rgen.seed(case['seed'])
    exp = model(root, env)
    res = M.compare(got, exp) if got is not None or not v.items else None
    if res:
        clause, msg = res
        outer = '-'.join(kinds[:2])
        v.fail(f'{clause}:{row.arity}:{outer}',
               f'{render(root)} at x={env.x!r} pmode={env.pmode}: {msg}')
    # classification
    lv = [l for l in leaves(root) if l['k'] not in ('num', 'lit')]
    nn = [k for k in kinds if k != 'num']
    labels = {'arity:' + row.arity, 'form:' + root['form'],
              'src:' + row.src, 'kinds:' + '-'.join(sorted(set(nn)))}
    composed = any(a['k'] == 'op' for a in root['args'])
    lens = [len(l['items']) for l in lv if l['k'] == 'lst']
    slens = [len(l['vals']) for l in lv if l['k'] in ('st', 'pat')]
    wrapx = len(set(lens)) > 1
    uneq = len(set(slens)) > 1
    nest = any(has_nested(l) for l in lv if l['k'] == 'lst')
    if composed:
        labels.add('composed_operand')
    if wrapx:
        labels.add('wrap_extend')
    if uneq:
        labels.add('streams_unequal')
    if nest:
        labels.add('nested_list')
    if row.random:
        labels.add('random')
    if M.errs(exp):
        labels.add('exception_expected')
    if kinds and kinds[0] == 'num':
        labels.add('number_left')
    if len(set(nn)) > 1:
        labels.add('mixed_kinds')
    for l in lv:
        labels.add('leaf:' + l['k'] + ':' +
                   str(l.get('impl') or l.get('top') or l.get('cls') or ''))
    if any(l['k'] == 'pat' for l in lv):
        labels.add('pmode:' + env.pmode)
    nontrivial = len(lv) >= 2 and (
        len(set(nn)) > 1 or composed or wrapx or uneq or nest)
    return {'nontrivial': nontrivial, 'labels': sorted(labels)}


def nodes(e):
    if e['k'] == 'op':
        yield e
        for a in e['args']:
            yield from nodes(a)


def render(e):
    k = e['k']
    if k == 'op':
        return (f"{e['op']}/{e['form']}(" +
                ', '.join(render(a) for a in e['args']) + ')')
    if k in ('num', 'lit'):
        return repr(e['v'])
    if k == 'fn':
        return (f"fn(x->{e['m']!r}*x+{e['c']!r})" if e['nargs']
                else f"fn(->{e['c']!r})")
    if k in ('st', 'pat'):
        return f"{e['impl']}{e['vals']!r}"
    if k == 'lst':
        return f"{e['top']}{e['items']!r}"
    return f"{e['cls']}({e['v']!r})"


# ===========================================================================
# lift strategies
# ===========================================================================

KINDS = ['fn', 'st', 'pat', 'lst', 'opd']
CLIPMODES = ['minmax', 'min', 'max', None]


def num_st(flav):
    ints = st.integers(-8, 8)
    dy = st.integers(-32, 32).map(lambda k: k / 4)
    special = st.sampled_from(['inf', '-inf', 'nan', 1e6, -0.0, 0.1, 2.5e-7,
                               0, 1, -1, 0.5])
    if flav == 'int':
        small = st.integers(-3, 8)
        return st.one_of(small, small, small, small, small, dy, ints)
    if flav == 'small':
        return st.one_of(st.integers(-6, 6),
                         st.integers(-12, 12).map(lambda k: k / 4))
    return st.one_of(ints, ints, ints, ints, dy, dy, dy, dy, dy, dy,
                     special)


def plain_st(flav):
    """Finite numbers only (function slopes, the call argument)."""
    if flav == 'int':
        return st.one_of(st.integers(-3, 6), st.integers(-3, 6),
                         st.integers(-12, 12).map(lambda k: k / 4))
    if flav == 'small':
        return st.one_of(st.integers(-3, 3),
                         st.integers(-8, 8).map(lambda k: k / 4))
    return st.one_of(st.integers(-6, 6), st.integers(-6, 6),
                     st.integers(-24, 24).map(lambda k: k / 4))


def nested_st(flav, depth):
    n = num_st(flav)
    if depth <= 0:
        return n
    sub = st.tuples(st.sampled_from(['l', 'l', 't']),
                    st.lists(nested_st(flav, depth - 1), min_size=1,
                             max_size=3)).map(list)
    return st.one_of(n, n, n, sub)


def leaf_st(kind, flav, plain_list=False):
    n = num_st(flav)
    if kind == 'num':
        return st.builds(lambda v: {'k': 'num', 'v': v}, n)
    if kind == 'fn':
        return st.builds(lambda m, c, a: {'k': 'fn', 'm': m, 'c': c,
                                          'nargs': a},
                         plain_st(flav), n, st.sampled_from([1, 1, 1, 0]))
    vals = st.lists(n, min_size=1, max_size=4)
    if kind == 'st':
        return st.builds(lambda i, vs: {'k': 'st', 'impl': i, 'vals': vs},
                         st.sampled_from(['routine', 'routine', 'fstream',
                                          'pstream']), vals)
    if kind == 'pat':
        # 'pfunc': an endless pattern whose value depends on the input
        # value of each next() call (m * inval + c, m = first, c = last)
        return st.builds(lambda i, vs: {'k': 'pat', 'impl': i, 'vals': vs},
                         st.sampled_from(['pseq', 'pseq', 'deco', 'pfunc']),
                         vals)
    if kind == 'lst':
        tops = ['l', 'l', 't'] if plain_list else ['chl', 'chl', 'chl', 'ap']
        return st.builds(lambda t, xs: {'k': 'lst', 'top': t, 'items': xs},
                         st.sampled_from(tops),
                         st.lists(nested_st(flav, 2), min_size=1,
                                  max_size=4))
    if kind == 'opd':
        return st.builds(lambda c, x: {'k': 'opd', 'cls': c, 'v': x},
                         st.sampled_from(['Operand', 'Operand', 'Rest']), n)
    raise AssertionError(kind)


def blocked(row, kind):
    """The kind's class gives this operator name another meaning."""
    return row.src in ('m', 'd') and kind in OVERRIDDEN and \
        bool(row.related & OVERRIDDEN[kind])


def flavour(row):
    if row.name in DANGER:
        return 'small'
    return 'int' if row.name in INTISH else 'any'


@st.composite
def node_st(draw, row, kinds, depth, listfn=False, root=False):
    """One operator application: receiver/operand kinds are given for the
    required positions (len(kinds) == 1 + row.nreq at least)."""
    flav = flavour(row)
    danger = row.name in DANGER
    if listfn:
        form = 'listfn'
    else:
        forms = [f for f in row.forms
                 if not (f in ('method', 'dunder') and kinds[0] == 'num')
                 and not (f == 'rdunder' and kinds[0] != 'num')]
        form = draw(st.sampled_from(forms))
    args = []
    for i, k in enumerate(kinds):
        pname = row.params[i - 1][0] if i > 0 and i - 1 < len(row.params) \
            else None
        if pname == 'clip' and row.arity == 'nar':
            args.append({'k': 'lit', 'v': draw(st.sampled_from(CLIPMODES))})
            continue
        args.append(draw(expr_st(k, flav, 0 if danger else depth,
                                 plain_list=listfn)))
    return {'k': 'op', 'op': row.key, 'form': form, 'args': args}


_inner_cache = {}


def inner_rows(kind):
    if kind not in _inner_cache:
        _inner_cache[kind] = [
            TABLE[k] for k in ROWS
            if not TABLE[k].random and not blocked(TABLE[k], kind)]
    return _inner_cache[kind]


@st.composite
def expr_st(draw, kind, flav, depth, plain_list=False):
    if kind == 'num' or depth <= 0 or plain_list or \
       draw(st.integers(0, 99)) >= 35:
        return draw(leaf_st(kind, flav, plain_list))
    # a composed operand of the same kind
    row = draw(st.sampled_from(inner_rows(kind)))
    if row.arity == 'un':
        kinds = [kind]
    elif row.arity == 'bin':
        other = draw(st.sampled_from(
            ['num', 'num', kind] + (['pat'] if kind == 'st' else [])))
        left_num = other == 'num' and (
            row.src == 'b' or (row.src == 'd' and row.reflected)) and \
            draw(st.booleans())
        kinds = ['num', kind] if left_num else [kind, other]
        if row.nopt and not row.nreq and draw(st.integers(0, 3)) == 0 \
           and not left_num:
            kinds = [kind]
    else:
        n = row.nreq + draw(st.integers(0, row.nopt))
        kinds = [kind] + ['num'] * n
    return draw(node_st(row, kinds, depth - 1))


# which second kinds may follow a first kind at the root of a mixed case
def mixed_ok(a, b):
    return a != b and not (a == 'lst' and b == 'st')


@st.composite
def lift_case(draw):
    arity = draw(st.sampled_from(['un', 'bin', 'bin', 'nar']))
    # spelling family first, so that the 26 Python-operator rows are not
    # drowned by the 200 named ones
    src = draw(st.sampled_from(['d', 'd', 'm', 'm', 'b', 'b'] if arity != 'nar'
                               else ['m', 'b']))
    rows = [TABLE[k] for k in ROWS
            if TABLE[k].arity == arity and TABLE[k].src == src]
    row = draw(st.sampled_from(rows))
    listfn = draw(st.integers(0, 99)) < 8
    if arity == 'nar' and src == 'm' and blocked(row, 'lst') and \
       draw(st.integers(0, 2)) == 0:
        # ChannelList gives these names a unit-generator meaning; on a flat
        # channel list of plain numbers, with every argument spelled out
        # (the defaults differ), that meaning is the numeric operator
        # applied to each channel
        flav = flavour(row)
        recv = {'k': 'lst', 'top': 'chl',
                'items': draw(st.lists(num_st(flav), min_size=1,
                                       max_size=3))}
        args = [recv]
        # (positive bounds keep the exponential mappings inside their domain)
        positive = draw(st.booleans())
        for pname, *_ in row.params[:row.nreq + row.nopt]:
            if pname == 'clip':
                args.append({'k': 'lit', 'v': draw(st.sampled_from(CLIPMODES))})
            elif positive:
                args.append({'k': 'num', 'v': draw(st.sampled_from(
                    [0.5, 1, 2, 4, 8, 3]))})
            else:
                args.append({'k': 'num', 'v': draw(num_st(flav))})
        return {'expr': {'k': 'op', 'op': row.key, 'form': 'method',
                         'args': args, 'chl_numbers': True},
                'x': draw(plain_st(flav)), 'pmode': 'stream',
                'seed': draw(st.integers(0, 65535))}
    if listfn:
        if row.arity == 'un':
            kinds = ['lst']
        elif row.arity == 'bin':
            kinds = draw(st.sampled_from(
                [['lst', 'num'], ['num', 'lst'], ['lst', 'lst'],
                 ['lst', 'lst']]))
        else:
            n = row.nreq + draw(st.integers(0, row.nopt))
            kinds = ['lst'] + ['num'] * n
        expr = draw(node_st(row, kinds, 0, listfn=True))
    else:
        ok = [k for k in KINDS if not blocked(row, k)]
        k1 = draw(st.sampled_from(ok))
        if row.arity == 'un':
            kinds = [k1]
        elif row.arity == 'bin':
            shape = draw(st.sampled_from(
                ['kn', 'nk', 'nk', 'nk', 'kk', 'kk', 'mix', 'mix', 'mix',
                 'mix', 'mix', 'mix'] +
                (['kk', 'kk', 'kk'] if k1 == 'lst' else [])))
            can_left = row.src == 'b' or (row.src == 'd' and row.reflected)
            if shape == 'nk' and not can_left:
                shape = 'kn'
            if shape == 'kn':
                kinds = [k1, 'num']
                if row.nopt and not row.nreq and draw(st.booleans()):
                    kinds = [k1]
            elif shape == 'nk':
                kinds = ['num', k1]
            elif shape == 'kk':
                kinds = [k1, k1]
            else:
                k2s = [k for k in ok if mixed_ok(k1, k)]
                kinds = [k1, draw(st.sampled_from(k2s))] if k2s \
                    else [k1, k1]
        else:
            n = row.nreq + draw(st.integers(0, row.nopt))
            extra = {'fn': ['num', 'fn', 'fn'], 'st': ['num', 'st', 'pat'],
                     'pat': ['num', 'pat', 'pat'], 'lst': ['num'],
                     'opd': ['num', 'num', 'opd']}[k1]
            kinds = [k1] + [draw(st.sampled_from(extra)) for _ in range(n)]
        expr = draw(node_st(row, kinds, 1, root=True))
    return {'expr': expr,
            'x': draw(plain_st(flavour(row))),
            'pmode': draw(st.sampled_from(['stream', 'iter', 'embed'])),
            'seed': draw(st.integers(0, 65535))}


# ===========================================================================
# table stage: every operator row x spelling x receiver kind, fixed operands
# ===========================================================================

FIXED = [
    {'fn': {'k': 'fn', 'm': 2, 'c': 1, 'nargs': 1},
     'st': {'k': 'st', 'impl': 'routine', 'vals': [1, 2, 3]},
     'pat': {'k': 'pat', 'impl': 'pseq', 'vals': [2, 5]},
     'lst': {'k': 'lst', 'top': 'chl',
             'items': [1, ['l', [2, ['t', [3, 4]]]], 5]},
     'opd': {'k': 'opd', 'cls': 'Operand', 'v': 3},
     'nums': [2, 1, 3, 4, 5, 6, 7], 'x': 3},
    {'fn': {'k': 'fn', 'm': 0.5, 'c': -0.25, 'nargs': 1},
     'st': {'k': 'st', 'impl': 'fstream', 'vals': [0.5, -1.5]},
     'pat': {'k': 'pat', 'impl': 'deco', 'vals': [0.25, 3.0, -2.0]},
     'lst': {'k': 'lst', 'top': 'ap', 'items': [0.5, ['t', [1.5, -2.0]]]},
     'opd': {'k': 'opd', 'cls': 'Rest', 'v': 0.75},
     'nums': [0.5, 0.25, 2.0, 1.5, 4.0, 3.0, 8.0], 'x': 1.5},
]
EXHAUSTIVE_SCOPE = (
    'table stage: every row of the introspected operator table x every '
    'spelling of the row (method / Python operator / number on the left / '
    'builtins function) x every receiver kind that does not override the '
    'name x 2 fixed operand sets (ints, dyadic floats), other operands plain '
    'numbers, optional arguments once omitted and once given')


def table_cases(ctx):
    k = 0
    for key in ROWS:
        row = TABLE[key]
        for form in row.forms:
            for kind in KINDS:
                if blocked(row, kind):
                    continue
                for fi, fx in enumerate(FIXED):
                    nums = [{'k': 'num', 'v': n} for n in fx['nums']]
                    for nextra in sorted({row.nreq, row.nreq + row.nopt}):
                        extra = []
                        for i in range(nextra):
                            if row.params[i][0] == 'clip' and \
                               row.arity == 'nar':
                                extra.append({'k': 'lit',
                                              'v': CLIPMODES[(k + i) % 4]})
                            else:
                                extra.append(nums[i])
                        if form == 'rdunder':
                            if nextra != 1:
                                continue
                            args = [extra[0], fx[kind]]
                        else:
                            args = [fx[kind]] + extra
                        k += 1
                        if k % ctx.nshards != ctx.shard:
                            continue
                        yield {'expr': {'k': 'op', 'op': key, 'form': form,
                                        'args': args},
                               'x': fx['x'],
                               'pmode': ['stream', 'iter', 'embed'][k % 3],
                               'seed': 1}
    # the n-ary names ChannelList overrides, as methods of a flat channel
    # list of plain numbers with every argument given: channels below,
    # inside and above the input range, every clip mode
    bounds = [1, 4, 2, 8, 3, 16, 5]
    for key in ROWS:
        row = TABLE[key]
        if not (row.arity == 'nar' and row.src == 'm' and
                blocked(row, 'lst')):
            continue
        names = [p for p, *_ in row.params[:row.nreq + row.nopt]]
        for mode in (CLIPMODES if 'clip' in names else [None]):
            for items in ([-3.0, 2.5, 9.0], [0.25], [4, 1, 6.5]):
                k += 1
                if k % ctx.nshards != ctx.shard:
                    continue
                args = [{'k': 'lst', 'top': 'chl', 'items': items}]
                nums = iter(bounds)
                for pname in names:
                    args.append({'k': 'lit', 'v': mode} if pname == 'clip'
                                else {'k': 'num', 'v': next(nums)})
                yield {'expr': {'k': 'op', 'op': key, 'form': 'method',
                                'args': args, 'chl_numbers': True},
                       'x': 0, 'pmode': 'stream', 'seed': 1}


# ===========================================================================
# laws
# ===========================================================================

INT32 = [2 ** 31 - 1, -2 ** 31, 2 ** 31 - 2, 65536, -65537]
INVERSES = {
    # name: (outer, inner, domain of the argument)
    'cpsmidi_midicps': ('cpsmidi', 'midicps', 'midi'),
    'midicps_cpsmidi': ('midicps', 'cpsmidi', 'freq'),
    'ratiomidi_midiratio': ('ratiomidi', 'midiratio', 'midi'),
    'midiratio_ratiomidi': ('midiratio', 'ratiomidi', 'ratio'),
    'cpsoct_octcps': ('cpsoct', 'octcps', 'oct'),
    'octcps_cpsoct': ('octcps', 'cpsoct', 'freq'),
    'dbamp_ampdb': ('dbamp', 'ampdb', 'amp'),
    'ampdb_dbamp': ('ampdb', 'dbamp', 'db'),
}
RANGE_LAWS = ['wrap', 'fold', 'wrap2', 'fold2', 'clip2', 'clip']
QUANT_LAWS = ['round', 'roundup', 'trunc']
LAWS = RANGE_LAWS + QUANT_LAWS + ['mod'] + sorted(INVERSES)
TOL = 1e-9


def dyadic(v):
    """Exactly representable with a short mantissa: Fraction checks and
    the float kernels agree bit for bit on such inputs."""
    if isinstance(v, int):
        return abs(v) < 2 ** 40
    f = Fraction(v)
    return f.denominator <= 1024 and abs(f) < 2 ** 30


def run_law(case, v):
    law = case['law']
    a = [num(x) for x in case['args']]
    exact = all(dyadic(x) for x in a)
    mixed = len({type(x) for x in a}) > 1
    labels = ['law:' + law, 'flavour:' + case['flavour'],
              'exact' if exact else 'tolerance']
    if case.get('boundary'):
        labels.append('boundary:' + case['boundary'])
    scale = max([1.0] + [abs(x) for x in a])
    tol = 0 if exact else TOL * scale

    def info(r):
        return f'{law}{tuple(a)!r} = {r!r}'

    if law in ('wrap', 'fold'):
        x, lo, hi = a
        r = getattr(bi, law)(x, lo, hi)
        v.check(lo - tol <= r <= hi + tol, f'{law}_out_of_bounds',
                lambda: info(r))
        homog = exact and (not mixed or type(x) is float)
        if homog and not v.items and hi > lo:
            if law == 'wrap':
                period = hi - lo + 1 if type(x) is int and not mixed \
                    else hi - lo
                v.check(M.is_multiple(Fraction(x) - Fraction(r), period),
                        'wrap_not_congruent',
                        lambda: info(r) + f', period {period!r}')
                # wrapping is periodic: x and its representative inside the
                # bounds (x shifted by whole periods into [lo, lo + period))
                # wrap to the same value
                x0 = Fraction(lo) + (Fraction(x) - Fraction(lo)) % period
                x0 = type(x)(x0)
                if Fraction(x0) == Fraction(lo) + (
                        Fraction(x) - Fraction(lo)) % period:
                    r0 = bi.wrap(x0, lo, hi)
                    v.check(r0 == r, 'wrap_not_periodic',
                            lambda: info(r) + f' but wrap({x0!r}, ...) = '
                            f'{r0!r}')
            else:
                ref = M.fold_ref(x, lo, hi)
                v.check(Fraction(r) == ref, 'fold_not_reflection',
                        lambda: info(r) + f', reflection gives {ref}')
    elif law in ('wrap2', 'fold2', 'clip2'):
        x, b = a
        r = getattr(bi, law)(x, b)
        v.check(-b - tol <= r <= b + tol, f'{law}_out_of_bounds',
                lambda: info(r))
    elif law == 'clip':
        x, lo, hi = a
        r1 = bi.clip(x, lo, hi)
        r2 = bi.clip(r1, lo, hi)
        v.check(r1 == r2, 'clip_not_idempotent',
                lambda: info(r1) + f', again {r2!r}')
    elif law in QUANT_LAWS:
        x, q = a
        r = getattr(bi, law)(x, q)
        if exact:
            v.check(M.is_multiple(r, q), f'{law}_not_multiple',
                    lambda: info(r))
        else:
            k = pybuiltins.round(r / q)
            v.check(abs(r - k * q) <= TOL * scale, f'{law}_not_multiple',
                    lambda: info(r))
        if law == 'round':
            v.check(abs(r - x) <= q / 2 + tol, 'round_not_nearest',
                    lambda: info(r))
        elif law == 'roundup':
            v.check(r >= x - tol, 'roundup_below', lambda: info(r))
            v.check(r - x < q + tol or (tol and r - x <= q + tol),
                    'roundup_not_nearest', lambda: info(r))
        else:
            v.check(r <= x + tol, 'trunc_above', lambda: info(r))
            v.check(x - r < q + tol or (tol and x - r <= q + tol),
                    'trunc_not_nearest', lambda: info(r))
    elif law == 'mod':
        x, b = a
        r = bi.mod(x, b)
        # exact on dyadic arguments; elsewhere a - b*floor(a/b) may miss by
        # a rounding error of the size of an ulp of a (mod(63693.0, 1.8) =
        # -7.3e-12), which the stated tolerance absorbs
        v.check(r >= -tol, 'mod_negative', lambda: info(r))
        v.check(r < b if exact else r <= b + tol, 'mod_not_below_modulus',
                lambda: info(r))
        if exact and not v.items:
            v.check(M.is_multiple(Fraction(x) - Fraction(r), b),
                    'mod_not_congruent', lambda: info(r))
    else:
        outer, inner, _ = INVERSES[law]
        x, = a
        y = getattr(bi, inner)(x)
        r = getattr(bi, outer)(y)
        v.check(abs(r - x) <= TOL * max(1.0, abs(x)),
                f'{law}_not_inverse',
                lambda: f'{outer}({inner}({x!r}) = {y!r}) = {r!r}')
    return {'nontrivial': mixed or bool(case.get('boundary')),
            'labels': labels}


def law_pool(kind):
    """kind: 'i' int, 'd' dyadic float, 'g' arbitrary float."""
    if kind == 'i':
        return st.one_of(st.integers(-20, 20), st.integers(-20, 20),
                         st.integers(-1000, 1000), st.sampled_from(INT32))
    if kind == 'd':
        return st.one_of(
            st.integers(-160, 160).map(lambda k: k / 8),
            st.integers(-160, 160).map(lambda k: k / 8),
            st.integers(-4096, 4096).map(lambda k: k / 1024),
            st.integers(-2 ** 24, 2 ** 24).map(lambda k: k / 2.0))
    return st.floats(-1e6, 1e6, allow_nan=False, allow_infinity=False)


def pos(strategy, kind):
    """Strictly positive variant for quanta / moduli / half-ranges."""
    if kind == 'i':
        return st.one_of(st.integers(1, 12), st.integers(1, 12),
                         st.integers(13, 1000), st.sampled_from(
                             [2 ** 31 - 1, 65536]))
    if kind == 'd':
        return st.one_of(st.integers(1, 64).map(lambda k: k / 8),
                         st.integers(1, 64).map(lambda k: k / 8),
                         st.integers(1, 4096).map(lambda k: k / 1024),
                         st.integers(1, 2 ** 16).map(lambda k: k / 2.0))
    return st.floats(1e-3, 1e4, allow_nan=False)


FLAVOURS = {  # receiver kind, argument kind
    'ii': ('i', 'i'), 'dd': ('d', 'd'), 'id': ('i', 'd'), 'di': ('d', 'i'),
    'gg': ('g', 'g'), 'ig': ('i', 'g'),
}


def conv(val, kind):
    """A boundary value computed from the arguments, as receiver kind."""
    if kind == 'i':     # ints stay inside int32
        return int(max(-2.0 ** 31, min(2.0 ** 31 - 1, math.floor(val))))
    return float(val)


@st.composite
def law_case(draw):
    law = draw(st.sampled_from(LAWS))
    if law in INVERSES:
        dom = INVERSES[law][2]
        fl = draw(st.sampled_from(['i', 'd', 'g']))
        lo, hi, bnd = {
            'midi': (-120, 260, [69, 0, 60, 127]),
            'oct': (-12, 16, [4.75, 0, 4, 3]),
            'db': (-200, 200, [0, -6, -90, 20]),
            'freq': (1e-3, 1e6, [440, 1, 261.6255653005986, 22050]),
            'ratio': (1e-6, 1e6, [1, 2, 0.5, 1.0594630943592953]),
            'amp': (1e-9, 1e6, [1, 0.5, 1e-5, 2]),
        }[dom]
        boundary = None
        if draw(st.integers(0, 99)) < 25:
            x = draw(st.sampled_from(bnd))
            boundary = 'reference'
        elif fl == 'i':
            x = draw(st.integers(max(1, math.ceil(lo)), int(hi)) if lo > 0
                     else st.integers(int(lo), int(hi)))
        elif fl == 'd':
            x = draw(st.integers(int(max(lo, 1 / 64) * 64),
                                 int(hi) * 64).map(lambda k: k / 64)
                     if lo > 0 else
                     st.integers(int(lo) * 64, int(hi) * 64).map(
                         lambda k: k / 64))
        else:
            x = draw(st.floats(lo, hi, allow_nan=False))
            if lo > 0 and draw(st.booleans()):   # spread over the decades
                x = math.exp(draw(st.floats(math.log(lo), math.log(hi))))
        return {'law': law, 'flavour': fl, 'args': [x],
                'boundary': boundary}
    flav = draw(st.sampled_from(sorted(FLAVOURS)))
    rk, ak = FLAVOURS[flav]
    boundary = None
    if law in ('wrap', 'fold', 'clip'):
        lo = draw(law_pool(ak))
        if law == 'clip' and draw(st.integers(0, 9)) == 0:
            hi = draw(law_pool(ak))          # any order for clip
        else:
            width = draw(st.one_of(pos(None, ak), pos(None, ak),
                                   st.just(0 if ak == 'i' else 0.0)))
            hi = lo + width
        x = draw(law_pool(rk))
        if draw(st.integers(0, 99)) < 40:
            r = hi - lo
            boundary, val = draw(st.sampled_from([
                ('lo', lo), ('hi', hi), ('lo-range', lo - r),
                ('hi+range', hi + r), ('lo-2range', lo - 2 * r),
                ('hi+2range', hi + 2 * r), ('mid', lo + r / 2),
                ('far', lo + 7 * r + r / 4), ('far-', lo - 9 * r - r / 4),
                ('int32', draw(st.sampled_from(INT32)))]))
            x = conv(val, rk)
        args = [x, lo, hi]
    elif law in ('wrap2', 'fold2', 'clip2'):
        b = draw(st.one_of(pos(None, ak), pos(None, ak),
                           st.just(0 if ak == 'i' else 0.0)))
        x = draw(law_pool(rk))
        if draw(st.integers(0, 99)) < 40:
            boundary, val = draw(st.sampled_from([
                ('b', b), ('-b', -b), ('3b', 3 * b), ('-3b', -3 * b),
                ('b+', b + b / 4), ('far', 7 * b + b / 4),
                ('int32', draw(st.sampled_from(INT32)))]))
            x = conv(val, rk)
        args = [x, b]
    else:   # round, roundup, trunc, mod
        q = draw(pos(None, ak))
        x = draw(law_pool(rk))
        if draw(st.integers(0, 99)) < 40:
            k = draw(st.one_of(st.integers(-9, 9), st.integers(-9, 9),
                               st.integers(-2000, 2000)))
            boundary, val = draw(st.sampled_from([
                ('multiple', k * q), ('tie', k * q + q / 2),
                ('just_above', k * q + q / 8), ('just_below', k * q - q / 8),
                ('zero', 0), ('int32', draw(st.sampled_from(INT32)))]))
            x = conv(val, rk)
        args = [x, q]
    return {'law': law, 'flavour': flav, 'args': args, 'boundary': boundary}


# ===========================================================================
# known findings
# ===========================================================================

def _holds(law, a):
    """Would the stated law hold for these arguments (all dyadic)?"""
    from vlib.core import V
    vv = V()
    try:
        run_law({'law': law, 'flavour': '', 'args': a}, vv)
    except Exception:
        return False
    return not vv.items


def classify_known(stage, case, viol):
    kind = viol.kind
    if stage == 'laws':
        law = case['law']
        a = [num(x) for x in case['args']]
        if law in ('cpsoct_octcps', 'octcps_cpsoct') and \
           kind.endswith('_not_inverse'):
            # exactly the misplaced parenthesis: cpsoct(f) is
            # log2(f/440 + 4.75) while octcps is the documented formula
            f = a[0] if law == 'octcps_cpsoct' else bi.octcps(a[0])
            o = a[0] if law == 'cpsoct_octcps' else 3.0
            good_octcps = math.isclose(bi.octcps(o), 440. * 2. ** (o - 4.75),
                                       rel_tol=1e-12)
            wrong = math.log2(f / 440. + 4.75)
            if good_octcps and math.isclose(bi.cpsoct(f), wrong,
                                            rel_tol=1e-12, abs_tol=1e-12):
                return 'cpsoct_formula'
            return None
        base = kind.split('_')[0]
        if base in ('wrap', 'fold', 'wrap2', 'fold2', 'round', 'roundup',
                    'trunc') and base == law and type(a[0]) is int and \
           any(type(x) is float and x != int(x) for x in a[1:]):
            # exactly the truncation: the result is what the operator gives
            # for int()-truncated arguments, and the float receiver obeys
            try:
                got = getattr(bi, law)(*a)
                trunc = getattr(bi, law)(a[0], *[int(x) for x in a[1:]])
            except Exception:
                return None
            if got == trunc and _holds(law, [float(a[0])] + a[1:]):
                return 'int_receiver_truncates_float_args'
        return None
    if stage in ('lift', 'table'):
        root = case['expr']
        row = TABLE.get(root['op'])
        clause = kind.split(':')[0]
        if row is None or clause not in (
                'value_mismatch', 'unexpected_exception', 'shape_mismatch',
                'wrong_exception_class', 'missing_exception',
                'stream_too_short', 'stream_too_long',
                'list_length_mismatch', 'does_not_terminate'):
            return None
        if row.arity == 'bin' and root['form'] == 'builtin' and \
           len(root['args']) == 2:
            ka, kb = (kind_of(a) for a in root['args'])
            if 'num' not in (ka, kb) and ka != kb and \
               not {ka, kb} <= {'st', 'pat'}:
                # the lazily applied selector is the raw kernel and meets
                # an operand of another kind
                return 'builtin_function_composes_raw_kernel'
            return None
        if row.arity != 'nar' or root['form'] not in ('method', 'builtin'):
            return None
        recv, extra = root['args'][0], root['args'][1:]
        if kind_of(recv) == 'fn' and any(
                e['k'] == 'op' and kind_of(e) == 'fn' for e in extra):
            return 'narop_function_ignores_composed_args'
        if kind_of(recv) == 'opd' and any(
                kind_of(e) == 'opd' for e in extra):
            return 'operand_narop_args_not_dereferenced'
    return None


def stages(ctx):
    return [
        Stage('table', run_lift, cases=table_cases, exhaustive=True),
        Stage('lift', run_lift, lift_case(), quick=2000, thorough=40000),
        Stage('laws', run_law, law_case(), quick=2500, thorough=40000),
    ]
