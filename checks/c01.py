"""C01 - SynthDef compilation preserves the meaning of the graph function."""

from collections import Counter

from hypothesis import strategies as st

from vlib.core import Stage, sc3_origin
from vlib import graph as G
from vlib import graphgen, scgf

PROPERTY = 'C01'
LEVEL = 'exploration'
MODE = 'nrt'
SHARDS = {'quick': 4, 'thorough': 16}
MANIFEST = {
    'technique': 'property-based testing: generated graph specs compiled by '
                 'SynthDef, bytes decoded by an independent SCgf reader and '
                 'compared with the source through a ring-identity normal '
                 'form (translation-validation style oracle)',
    'category': 'exploration',
    'text': 'Each generated graph function (units of 33 classes at ar/kr/ir, '
            'controls of four rates, all unary/binary operators, madd, '
            'MulAdd/Sum3/Sum4, channel-list sums, shared and dead '
            'sub-expressions, 1-4 output units) is compiled; the emitted '
            'definition is parsed independently and every tagged unit must '
            'occur the right number of times, with inputs equal to the source '
            'expressions modulo the ring identities named in the property, '
            'opcodes from a hand-transcribed Opcodes.h table, and rates '
            'following the max-rate rule.',
    'note': 'Trusted: the SCgf reader, the normaliser (only true identities '
            'of real arithmetic, applied to both sides), the hand-written '
            'catalogue of unit signatures/purity, Opcodes.h transcription. '
            'Demand-rate units are outside the generated domain.',
}
RULE = (
    'Hypothesis composite strategy builds SSA graph specs bottom-up from a '
    'typed pool (consts incl. 0/1/-1/+-0.0, controls ir/tr/ar/kr, 33 tagged '
    'unit classes, 54 unary + 61 binary operator spellings incl. reflected '
    'forms, madd, MulAdd/Sum3/Sum4.new, ChannelList.sum, optimiser-shape '
    'macros: +chains, a*b+c, a+(-b), (-a)+b, a-(-b), op(x,x), inner node '
    'shared, *0/*1/+0/-0//1). Non-trivial = a fused unit (Sum3/Sum4/MulAdd) '
    'was emitted, or the number of emitted operator units differs from the '
    'number of operator nodes in the source (a shortcut or rewrite fired), or '
    'the source has a unit or operator node nothing references (dead code). '
    'Distinct by sha1 of the spec.')
RULE += ' ' + (
    'Unary operators are also spelled through the Python protocols (-x, abs(x), ~x, math.ceil(x), math.floor(x)).')
ASSUMPTIONS = [
    'Inputs to a unit are never faster than the unit (well-formed graphs).',
    'Operator units carry no identity: an extra unreferenced arithmetic unit '
    'is not reported (it cannot change the signal graph).',
]


def setup(ctx):
    pass


def operator_node(n):
    return n['k'] in ('un', 'bin', 'madd', 'muladd', 'sum3', 'sum4', 'sum')


def referenced(spec):
    refs = set()
    for n in spec['nodes']:
        for key in ('a', 'b', 'm', 'd'):
            if key in n and isinstance(n[key], int):
                refs.add(n[key])
        for x in n.get('xs', []):
            refs.add(x)
        for a in n.get('args', []):
            if isinstance(a, int):
                refs.add(a)
    for s in spec['sinks']:
        for a in s['args']:
            if isinstance(a, int):
                refs.add(a)
        for x in s.get('xs', []):
            if isinstance(x, int):
                refs.add(x)
    return refs


def check_spec(spec, v, data=None):
    """Shared with C02/C20: compile (unless bytes are given) and run the C01
    oracle. Returns (info, decoded definition or None)."""
    sem = G.SpecSemantics(spec)
    if data is None:
        try:
            data = G.Builder(spec).build()
        except Exception as e:
            where = sc3_origin(e)
            cause = e.__cause__
            if where is None and cause is not None:
                where = sc3_origin(cause)
            if where is None:
                raise
            v.fail(f'compile_raised:{type(e).__name__}@{where}', repr(e))
            return {'nontrivial': False, 'labels': ['compile_raised']}, None
    try:
        defs = scgf.parse(data)
    except scgf.FormatError as e:
        v.fail('bytes_unparseable', str(e))
        return {'nontrivial': False, 'labels': []}, None
    if len(defs) != 1:
        v.fail('not_one_definition', len(defs))
        return {'nontrivial': False, 'labels': []}, None
    d = defs[0]
    errs = scgf.structural_errors(d)
    if errs:
        v.fail('structure', '; '.join(errs[:3]))
        return {'nontrivial': False, 'labels': []}, d
    dec = G.Decoded(d)
    units = d['units']
    nodes = spec['nodes']
    params = spec['params']
    slots = sem.slots
    slot_param = {s: i for i, s in slots.items()}
    seen = Counter()
    where = {}
    n_ops = 0
    fused = 0
    for ui, u in enumerate(units):
        name = u['name']
        if name in G.OPERATOR_UNITS:
            n_ops += 1
            fused += name in ('Sum3', 'Sum4', 'MulAdd')
            # (4) opcode range, (5) rate = highest input rate
            t = dec.unit_term(ui, 0)
            if t[0] == 'bad':
                v.fail('bad_operator_unit', f'unit {ui} {u}')
                continue
            exp = max(dec.input_rate(p) for p in u['inputs'])
            if u['rate'] != exp or u['outputs'] != [u['rate']]:
                v.fail('operator_rate',
                       f'unit {ui} {name} special={u["special"]} rate byte '
                       f'{u["rate"]} outputs {u["outputs"]}, inputs run at '
                       f'{[dec.input_rate(p) for p in u["inputs"]]}')
            continue
        if name in G.CONTROL_UNITS:
            for o in range(len(u['outputs'])):
                slot = u['special'] + o
                pi = slot_param.get(slot)
                if pi is None:
                    v.fail('control_slot', f'unit {ui} {name} slot {slot}')
                    continue
                p = params[pi]
                if name != G.PARAM_UNIT[p['rate']] or \
                        u['outputs'][o] != G.RATE_NUM[G.PARAM_RATE[p['rate']]]:
                    v.fail('control_unit_kind',
                           f'param {p} is served by {name} output rate '
                           f'{u["outputs"][o]}')
            continue
        if name == 'DC':
            if all(a == -1 and d['constants'][b] == 0.0
                   for a, b in u['inputs']) and u['rate'] == 2:
                continue   # audio-rate silence standing for a literal zero
            v.fail('unjustified_unit', f'unit {ui} DC {u}')
            continue
        tag = dec.tag_of(ui)
        if tag is None and name == 'LocalOut':
            js = [j for j, sk in enumerate(spec['sinks'])
                  if sk['cls'] == 'LocalOut']
            tag = G.SINKTAG0 + js[0] if js else None
        if tag is None:
            v.fail('unjustified_unit', f'unit {ui} {name} carries no tag: {u}')
            continue
        seen[tag] += 1
        where[tag] = ui
    # (2) occurrences
    keep = sem.must_keep()
    for i, n in enumerate(nodes):
        if n['k'] != 'u':
            continue
        tag = G.TAG0 + i
        ent = G.CATALOGUE[n['cls']]
        c = seen.pop(tag, 0)
        if c > 1:
            v.fail('unit_duplicated', f'{n} occurs {c} times')
        elif c == 0 and (not ent['pure'] or tag in keep):
            v.fail('unit_dropped',
                   f'node {i} {n} is '
                   f'{"side-effecting" if not ent["pure"] else "referenced"}'
                   ' but absent from the definition')
        if c >= 1:
            ui = where[tag]
            u = units[ui]
            rate = ent.get('rate') or G.RATE_LONG[n['rate']]
            nout = ent.get('nout', 1)
            if u['name'] != n['cls']:
                v.fail('unit_class', f'tag {tag}: {u["name"]} vs {n["cls"]}')
                continue
            if u['rate'] != G.RATE_NUM[rate] or \
                    u['outputs'] != [u['rate']] * nout:
                v.fail('unit_rate',
                       f'{n["cls"]}.{n["rate"]} emitted with rate byte '
                       f'{u["rate"]} outputs {u["outputs"]}')
            exp = sem.unit_inputs(i)
            got = [dec.wire(p) for p in u['inputs']]
            if got != exp:
                v.fail('unit_inputs',
                       f'node {i} {n["cls"]}.{n["rate"]}: emitted inputs '
                       f'{got} != source {exp}')
    for j, s in enumerate(spec['sinks']):
        tag = G.SINKTAG0 + j
        c = seen.pop(tag, 0)
        if c != 1:
            v.fail('unit_dropped' if c == 0 else 'unit_duplicated',
                   f'sink {j} {s} occurs {c} times')
            continue
        u = units[where[tag]]
        nout = G.SINKS[s['cls']].get('nout', 0)
        if u['name'] != s['cls'] or u['rate'] != G.RATE_NUM[s['rate']] \
                or u['outputs'] != [u['rate']] * nout:
            v.fail('unit_rate', f'sink {s} emitted as {u}')
        exp = sem.sink_inputs(j)
        got = [dec.wire(p) for p in u['inputs']]
        if got != exp:
            v.fail('unit_inputs',
                   f'sink {j} {s["cls"]}.{s["rate"]}: emitted inputs {got} '
                   f'!= source {exp}')
    for tag, c in seen.items():
        v.fail('unjustified_unit', f'tag {tag} x{c} not in the source')
    # classification
    n_src_ops = sum(1 for n in nodes if operator_node(n))
    refs = referenced(spec)
    dead = [i for i, n in enumerate(nodes)
            if (n['k'] == 'u' or operator_node(n)) and i not in refs
            and not (n['k'] == 'u' and G.CATALOGUE[n['cls']].get('nout', 1) > 1
                     and any(m['k'] == 'ch' and m['a'] == i for m in nodes))]
    labels = list(spec.get('gen_labels', []))
    if fused:
        labels.append('fused_unit_emitted')
    if n_ops != n_src_ops:
        labels.append('rewrite_or_shortcut')
    if dead:
        labels.append('dead_code')
    nontrivial = bool(fused or n_ops != n_src_ops or dead)
    return {'nontrivial': nontrivial, 'labels': labels}, d


def run_case(spec, v):
    info, _ = check_spec(spec, v)
    return info


def stages(ctx):
    big = ctx.tier == 'thorough'
    return [
        Stage('graph', run_case, graphgen.graph_spec(max_steps=25),
              quick=1200, thorough=6000),
        Stage('graph_large', run_case, graphgen.graph_spec(max_steps=120),
              quick=80, thorough=500),
    ]
