"""C07 - Bundles are stamped with logical time plus latency; scores are ordered."""

from fractions import Fraction as F

from hypothesis import strategies as st

from vlib.core import Stage, Reject
from vlib import prog, prog_model, proggen, osc_ref

PROPERTY = 'C07'
LEVEL = 'exploration'
MODE = 'nrt'
SHARDS = {'quick': 2, 'thorough': 16}
MANIFEST = {
    'technique': 'property-based testing: generated programs of routines '
                 'sending messages and (nested) bundles with generated '
                 'latencies, run in NRT mode (score list + binary score '
                 'decoded/re-encoded with an independent OSC codec) and in '
                 'simulated RT mode (captured datagrams, two jitter tapes), '
                 'against an exact reference model of send times',
    'category': 'exploration',
    'text': 'For every generated program the NRT score must list exactly the '
            'model\'s bundles at logical time + latency (None/negative = '
            'immediately; nested bundles relative to the same send instant; '
            'a nested bundle preceding its parent is refused), sorted by '
            'time with send order among equal times, closed by the tail '
            'marker, and score.raw must be the concatenation of the '
            'length-prefixed reference encodings in that order. In RT every '
            'captured datagram must carry timetag = logical send time + '
            'latency (not the jittered physical time), identically under '
            'two different schedule tapes, also when steps take physical '
            'time (system load) and when a routine is stepped by hand from '
            'the main thread (its bundles carry the caller\'s logical time, '
            'i.e. the physical time of the call, plus latency).',
    'note': 'Trusted: the reference model, the independent OSC codec '
            '(vlib/osc_ref.py), the RT simulation shim.',
}
RULE = (
    'Programs from the C05 generator with send ops: send_msg, send_bundle '
    'with latency in {None, -1, 0, dyadic}, nested bundles one or two levels '
    '(valid, and sometimes preceding the parent), from routines on every '
    'clock kind and from the top level. Non-trivial = two bundles with equal '
    'time from different routines, or a nested bundle, or a positive latency '
    'inside a routine on a clock with tempo != 1. Distinct by sha1.'
    ' RT programs include busy steps and routines stepped by hand from the main thread (next); nrt_close stage: top-level bundles at absolute times closer than 2**-32 s.')
ASSUMPTIONS = [
    'RT timetags are compared up to timetag resolution (2**-32 s, one unit '
    'of slack for float truncation).',
]

RT = []
TWO32 = 2 ** 32


def setup(ctx):
    from vlib import workers
    RT.append(workers.rtsim_worker())


def teardown(ctx):
    for w in RT:
        w.close()


def lat_time(now, lat, in_routine):
    base = F(now) if in_routine else F(0)
    return base + (F(lat) if lat is not None and lat >= 0 else 0)


def resolve_nrt(now, lat, elems, in_routine):
    out = [lat_time(now, lat, in_routine)]
    for e in elems:
        if isinstance(e[0], str):
            out.append(list(e))
        else:
            out.append(resolve_nrt(now, e[0], e[1:], in_routine))
    return out


def same_entry(real, exp):
    if len(real) != len(exp):
        return False
    if F(real[0]) != exp[0]:
        return False
    for a, b in zip(real[1:], exp[1:]):
        if isinstance(b[0], str):
            if list(a) != list(b):
                return False
        elif isinstance(a[0], str) or not same_entry(a, b):
            return False
    return True


def encode_entry(e, embed_base=None):
    """Reference encoding of a score entry. A bundle-shaped list inside a
    message (completion message) travels as a blob whose timetag is the send
    instant `embed_base` plus its own latency."""
    tt = int(e[0] * TWO32)
    elems = []
    for x in e[1:]:
        if isinstance(x[0], str):
            args = []
            for a in x[1:]:
                if isinstance(a, list):
                    inner = resolve_nrt(embed_base[0], a[0], a[1:],
                                        embed_base[1])
                    args.append(encode_entry(inner, embed_base))
                else:
                    args.append(a)
            elems.append(osc_ref.encode_message(x[0], args))
        else:
            elems.append(encode_entry(x, embed_base))
    return osc_ref.encode_bundle(tt, elems)


def classify(p, m):
    times = {}
    for b in m.bundles:
        t = lat_time(b['time'], b['lat'], True)
        times.setdefault(t, set()).add(b['who'])
    tie = any(len(w) >= 2 for w in times.values())
    nested = any(any(not isinstance(e[0], str) for e in b['elems'])
                 for b in m.bundles)
    labels = []
    if tie:
        labels.append('equal_time_two_senders')
    if nested:
        labels.append('nested_bundle')
    if any(b['who'] is None for b in m.bundles):
        labels.append('top_level_send')
    if any(x['kind'] == 'refused' for x in m.trace):
        labels.append('nested_precedes_parent')
    tempo_lat = False
    for b in m.bundles:
        if b['who'] and b['lat'] and b['lat'] > 0:
            # clock of the sender at that moment is in the trace records
            tempo_lat = tempo_lat or any(
                c['tempo'] != 1 for c in p['clocks'])
    if tempo_lat:
        labels.append('latency_on_tempo_clock')
    return bool(tie or nested or tempo_lat), labels


def run_nrt(p, v):
    try:
        m = prog_model.Model(p).run()
    except prog_model.Ambiguous:
        raise Reject()
    out = prog.run_nrt(p)
    exp = [(F(0), 0, [F(0), ['/g_new', 1, 0, 0]], None)]
    for i, b in enumerate(m.bundles):
        elems = b['elems']
        if b.get('embed') is not None:
            elems = [elems[0] + [b['embed']]]
        e = resolve_nrt(b['time'], b['lat'], elems, b['who'] is not None)
        exp.append((e[0], i + 1, e, (b['time'], b['who'] is not None)))
    tend = m.last_event + F(p.get('tail', 0))
    exp.append((tend, len(exp), [tend, ['/c_set', 0, 0]], None))
    exp.sort(key=lambda x: (x[0], x[1]))
    bases = [x[3] for x in exp]
    exp = [e for _, _, e, _ in exp]
    real = out['score']
    # refused sends
    rr = [x for x in out['trace'] if x['kind'] == 'refused']
    mr = [x for x in m.trace if x['kind'] == 'refused']
    if len(rr) != len(mr):
        v.fail('nested_before_parent_refusal',
               f'library refused {len(rr)} bundles, model {len(mr)}')
    if len(real) != len(exp):
        v.fail('score_entries',
               f'{len(real)} entries vs {len(exp)} expected: {real} vs '
               f'{[[float(e[0])] + e[1:] for e in exp]}')
    else:
        for k, (a, b) in enumerate(zip(real, exp)):
            if not same_entry(a, b):
                kind = 'score_time_or_order'
                if sorted(map(repr, [x[1:] for x in real])) != sorted(
                        map(repr, [e[1:] for e in exp])):
                    kind = 'score_contents'
                v.fail(kind, f'entry {k}: {a} vs expected '
                       f'{[float(b[0])] + b[1:]}; score {real}')
                break
    if real and real[-1][1:] != [['/c_set', 0, 0]] and not any(
            F(e[0]) > tend for e in real):
        v.fail('tail_marker_not_last', f'{real[-3:]}')
    # binary score
    try:
        packets = osc_ref.split_size_prefixed(out['raw'])
    except osc_ref.OscError as e:
        v.fail('raw_score_framing', str(e))
        packets = None
    if packets is not None and not v.items:
        want = [encode_entry(e, b) for e, b in zip(exp, bases)]
        if packets != want:
            k = next((i for i, (a, b) in enumerate(zip(packets, want))
                      if a != b), min(len(packets), len(want)))
            v.fail('raw_score_bytes',
                   f'packet {k} of {len(packets)}/{len(want)}: '
                   f'{packets[k].hex() if k < len(packets) else None} vs '
                   f'{want[k].hex() if k < len(want) else None}')
    nt, labels = classify(p, m)
    return {'nontrivial': nt, 'labels': labels}


def decode_times(pkt, osc_offset, t0):
    """Bundle -> nested [secs or 'imm', elems...] with times relative to the
    program start; blobs inside messages are decoded as embedded bundles."""
    if isinstance(pkt, osc_ref.Message):
        return [pkt.address] + [
            decode_times(osc_ref.decode_packet(a), osc_offset, t0)
            if isinstance(a, bytes) else a for a in pkt.args]
    if pkt.timetag == osc_ref.IMMEDIATELY:
        t = 'imm'
    else:
        t = F(pkt.timetag - osc_offset, TWO32) - F(t0)
    return [t] + [decode_times(e, osc_offset, t0) for e in pkt.elements]


def expected_rt(now, lat, elems):
    t = 'imm' if lat is None or lat < 0 else F(now) + F(lat)
    out = [t]
    for e in elems:
        if isinstance(e[0], str):
            out.append(list(e))
        else:
            out.append(expected_rt(now, e[0], e[1:]))
    return out


def same_rt(a, b):
    if isinstance(b[0], str):
        if len(a) != len(b) or not isinstance(a[0], str):
            return False
        return all(same_rt(x, y) if isinstance(y, list) else x == y
                   for x, y in zip(a, b))
    if isinstance(a[0], str) or len(a) != len(b):
        return False
    if b[0] == 'imm' or a[0] == 'imm':
        if a[0] != b[0]:
            return False
    elif abs(a[0] - b[0]) > F(2, TWO32):
        return False
    return all(same_rt(x, y) for x, y in zip(a[1:], b[1:]))


def run_rt(case, v):
    p = case['prog']
    try:
        m = prog_model.Model(p).run()
    except prog_model.Ambiguous:
        raise Reject()
    load = sum(op[1] for r in p['routines'].values() for op in r['body']
               if op[0] == 'busy')
    horizon = float(m.last_event) + 1.0 + load
    jit = 0.0
    hand = any(op[0] == 'next' for op in p['top'])
    for tape in (case['tape_a'], case['tape_b']):
        out = RT[0].ask({'prog': p, 'tape': tape, 'horizon': horizon})
        if 'deadlock' in out or 'error' in out:
            v.fail('rt_run_failed', str(out)[:800])
            break
        jit += out['jitter']
        if hand:
            # routines stepped by hand run at the caller's logical time:
            # for the main thread the physical time of the call, which the
            # simulation owns (read back from the run)
            calls = [x for x in out['trace'] if x['kind'] == 'next_call']
            for x in calls:
                if abs(x['secs'] - x['phys']) > 1e-9:
                    v.fail('main_thread_logical_time',
                           f'next() called at physical {x["phys"]}, main '
                           f'thread logical time {x["secs"]}')
            m = prog_model.Model(
                p, hand_times=[F(x['phys']) for x in calls]).run()
        got = []
        for hx, target in out['dgrams']:
            try:
                pkt = osc_ref.decode_packet(bytes.fromhex(hx))
            except osc_ref.OscError as e:
                v.fail('rt_datagram_malformed', str(e))
                continue
            got.append(decode_times(pkt, out['osc_offset'], out['t0']))
        exp = []
        for b in m.bundles:
            if b['msg']:
                e = list(b['elems'][0])
                if b.get('embed') is not None:
                    e.append(expected_rt(b['time'], b['embed'][0],
                                         b['embed'][1:]))
                exp.append(e)
            else:
                exp.append(expected_rt(b['time'], b['lat'], b['elems']))
        # datagrams of different clocks interleave freely: compare as
        # multisets keyed by the (unique) tag carried in the first message
        def key(x):     # the unique tag of the (first) message
            is_msg = isinstance(x[0], str) and x[0].startswith('/')
            return x[1] if is_msg else x[1][1]
        got.sort(key=key)
        exp.sort(key=key)
        if len(got) != len(exp):
            v.fail('rt_datagram_count', f'{len(got)} sent, {len(exp)} '
                   f'expected: {got} vs {exp}')
            break
        for a, b in zip(got, exp):
            if not same_rt(a, b):
                fl = lambda x: [float(y) if isinstance(y, F) else
                                (fl(y) if isinstance(y, list) else y)
                                for y in x]
                v.fail('rt_timetag', f'sent {fl(a)} expected {fl(b)}')
                break
        if v.items:
            break
    nt, labels = classify(p, m)
    labels.append('jitter' if jit > 0 else 'no_jitter')
    if load:
        labels.append('busy_steps')
    if hand:
        labels.append('stepped_by_hand')
    return {'nontrivial': nt and jit > 0, 'labels': labels}


def rt_cases():
    tape = st.lists(st.integers(0, 11), min_size=0, max_size=60)
    return st.fixed_dictionaries({
        'prog': proggen.timing_program(apps=False, sends=True, busy=True,
                                       hand=True),
        'tape_a': tape, 'tape_b': tape})


# times that differ by less than the timetag resolution (2**-32 s): the
# score is ordered by time, send order only breaks exact ties
CLOSE = [0.3, 0.30000000000000004, 0.7999999999999999, 0.8, 1.0,
         1.0000000000000002, 0.1 + 0.2, 0.25 + 0.05, 2.0, 1.9999999999999998]


def close_programs():
    def mk(lats):
        top = [['bundle', lat, [['/b', i]]] for i, lat in enumerate(lats)]
        return {'clocks': [], 'routines': {}, 'top': top, 'tail': 0}
    return st.lists(st.sampled_from(CLOSE), min_size=2, max_size=6).map(mk)


def run_close(p, v):
    res = run_nrt(p, v)
    lats = [op[1] for op in p['top']]
    near = any(a != b and abs(a - b) < 2.0 ** -32 for a in lats for b in lats)
    res['nontrivial'] = near
    res['labels'] = list(res.get('labels', [])) + (
        ['times_closer_than_timetag_resolution'] if near else [])
    return res


def stages(ctx):
    return [
        Stage('nrt_close', run_close, close_programs(), quick=100,
              thorough=1000),
        Stage('nrt', run_nrt, proggen.timing_program(sends=True, hand=True),
              quick=600,
              thorough=5000),
        Stage('rt', run_rt, rt_cases(), quick=150, thorough=1500),
    ]
