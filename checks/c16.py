"""C16 - Bus, buffer and node-id allocation is safe and complete.

Oracle (DESIGN.md C16): reference = set of live intervals inside the client's
partition [offset+pos, offset+size).  Every range handed out lies in the
partition and overlaps no live range; "no space" (None / the constructor's
exception) is answered iff the reference has no free run of the requested
length (free runs are computed on the reference, which embodies "freed ranges
merge with free neighbours"); double free, stale free and free(None) change
nothing.  Node ids: client prefix, lower bound, pairwise distinct inside the
id window.

The allocator draws its tie-breaks with ``bi.choice`` (``bi`` being the
``sc3.base.builtins`` module bound in ``sc3.synth._engine``); the module
attribute ``_engine.bi`` is replaced by a shim whose ``choice`` sorts the
candidates by address and takes the index from the tape of the case, so a
history is deterministic and the tie-breaks are part of the generated domain.
"""

import functools
import itertools

from hypothesis import strategies as st

from vlib.core import Stage, Reject, Violation, HarnessError

PROPERTY = 'C16'
LEVEL = 'exploration'
MODE = 'nrt'
SHARDS = {'quick': 2, 'thorough': 16}
RULE = (
    'alloc stage: Hypothesis histories (<=60 ops) over '
    'ContiguousBlockAllocator(size 1-64, pos 0-4, addr_offset = client*size '
    '+ io offset) of alloc(n) n in 1..size-pos+1, free of a live block, free '
    'of a stale address (any address inside any range ever returned), '
    'free(None), fill (alloc(n) until refused) and drain (free every live '
    'block ascending/descending/interleaved, then alloc the whole partition); '
    'the internal bi.choice tie-break is drawn from the tape of the case; '
    'after every step the answer is compared with a set-of-live-intervals '
    'reference. alloc_enum stage: every history over the alphabet '
    '{alloc(1..size-pos), free(each partition address)} up to the stated '
    'depth, every tie-break branch explored, plus two probes at the end of '
    'each history (largest free run + 1 must be refused, largest free run '
    'must be granted). public stage: the same histories through '
    'AudioBus/ControlBus/Buffer/Buffer.new_consecutive constructors, .free() '
    'and Buffer.free_all on an NRT Server configured with max_logins 1-4 and '
    'every client id (via _set_client_id or the login reply handler), '
    'reserved offsets and io channel counts. nodeid stage: '
    'NodeIDAllocator(user 0-31, init_temp) direct or through '
    'Server._next_node_id, counter started near the top of the 26-bit window '
    'so that it wraps. Non-trivial (alloc/alloc_enum/public) = some granted '
    'range spans a boundary at which a freed block met a free neighbour (the '
    'freed ranges had to be merged to grant it), or "no space" was answered '
    'although at least n addresses were free but fragmented; nodeid: the '
    'counter wrapped or user > 0. Distinct by sha1 of the canonical case '
    'JSON.')
ASSUMPTIONS = [
    'Sequential use only (allocators are not documented as thread safe).',
    'free(addr) is only called with addresses inside the partition (None, '
    'live starts, stale starts, interior addresses as Buffer groups do); an '
    'address outside the partition is a caller error and is not generated.',
    'Buffer groups from new_consecutive are freed as a group (documented).',
    'public stage: one Server object per process is re-configured per case '
    '(options.* then _set_client_id / _handle_login_done); for the direct '
    'path the watcher\'s _max_logins is reset to None as after quit.',
    'nodeid: the counter is fast-forwarded by assigning _temp (equivalent to '
    'having performed that many allocations; alloc has no other state).',
    'Not asserted (outside the statement): default-group ids are computed '
    'with num_ids = (2**31-1)//64 per client while temporary ids use a '
    '2**26 window (user << 26), so default groups of clients >= 1 lie '
    'inside the temporary-id window of a lower client.',
]
EXHAUSTIVE_SCOPE = (
    'ContiguousBlockAllocator(size, pos, off) for size 1..5, off in {0, size, '
    '2*size+3}: every history over {alloc(n) n=1..size-pos, free(a) for each '
    'partition address a} with all internal tie-breaks; depth by size '
    '(pos=0): quick {1:6, 2:7, 3:5, 4:5, 5:4}, thorough {1:10, 2:9, 3:8, '
    '4:6, 5:6}; pos=1 for size 2..5 with depth one less; free(None) and '
    'oversize alloc only as end-of-history probes')

MANIFEST = {
    'technique': 'model-based property testing (Hypothesis op histories with '
                 'tie-break tape vs reference interval model) + '
                 'bounded-exhaustive enumeration incl. all tie-breaks',
    'category': 'exploration',
    'text': 'Generated histories of alloc/free/double free/stale free/'
            'free(None)/fill/drain are run against ContiguousBlockAllocator '
            'for sizes 1-64, reserved offsets and client offsets, with the '
            'allocator\'s random tie-break driven from the case; every answer '
            'is compared with a set-of-live-intervals reference (partition, '
            'no overlap, "no space" iff no free run). All histories up to '
            'depth 6-10 (quick 4-6) for size <= 5 are enumerated with every '
            'tie-break. '
            'The same histories go through AudioBus/ControlBus/Buffer on an '
            'NRT Server for every client id with max_logins 1-4; '
            'NodeIDAllocator is checked for prefix, bounds and distinctness '
            'across a forced wrap.',
    'note': 'Trusted: the interval reference model and the partition '
            'arithmetic (client c of m gets [c*(total//m), (c+1)*(total//m)) '
            'plus io offset). Sequential use only.',
}

TOP = 0x03FFFFFF
KNOWN_KEY = 'find_next_bound_ignores_offset'


# --- tie-break shim ----------------------------------------------------------

class Tape:
    def __init__(self, draws):
        self.draws = draws
        self.i = 0
        self.ks = []

    def pick(self, lst):
        cands = sorted(lst, key=_blk_key)
        k = len(cands)
        if k == 0:
            raise IndexError('Cannot choose from an empty sequence')
        d = self.draws[self.i] % k if self.i < len(self.draws) else 0
        self.i += 1
        self.ks.append(k)
        return cands[d]


def _blk_key(b):
    return (getattr(b, 'start', 0), getattr(b, 'size', 0))


class BiShim:
    """Stands in for the builtins module inside sc3.synth._engine."""

    def __init__(self, real):
        self._real = real
        self.tape = None

    def __getattr__(self, name):
        return getattr(self._real, name)

    def choice(self, lst):
        if self.tape is None:
            return self._real.choice(lst)
        return self.tape.pick(lst)


SHIM = None


def setup(ctx):
    global eng, SHIM, Server, AudioBus, ControlBus, BusException, Buffer
    global SERVER, main
    from sc3.synth import _engine as eng
    from sc3.synth.server import Server, ServerOptions
    from sc3.synth.bus import AudioBus, ControlBus, BusException
    from sc3.synth.buffer import Buffer
    from sc3.base.netaddr import NetAddr
    from sc3.base.main import main
    if not isinstance(eng.bi, BiShim):
        SHIM = BiShim(eng.bi)
        eng.bi = SHIM
    else:
        SHIM = eng.bi
    SERVER = Server.named.get('c16') or Server(
        'c16', NetAddr('127.0.0.1', 57916), ServerOptions())


# --- reference model -----------------------------------------------------------

class Ref:
    def __init__(self, lo, hi):
        self.lo = lo
        self.hi = hi
        self.live = {}   # start -> length

    def runs(self):
        out = []
        cur = self.lo
        live = self.live
        for a in sorted(live):
            if a > cur:
                out.append((cur, a))
            e = a + live[a]
            if e > cur:
                cur = e
        if cur < self.hi:
            out.append((cur, self.hi))
        return out

    def is_free(self, x):
        if x < self.lo or x >= self.hi:
            return False
        for a, n in self.live.items():
            if a <= x < a + n:
                return False
        return True

    def overlapping(self, r, n):
        return [(a, m) for a, m in self.live.items() if a < r + n and r < a + m]


def _explained(run, n, seams):
    """The known _find_next defect leaves exactly the boundaries in `seams`
    unmerged; it explains a refusal iff every piece between them is < n."""
    a, b = run
    prev = a
    for e in sorted(x for x in seams if a < x < b) + [b]:
        if e - prev >= n:
            return False
        prev = e
    return True


class Session:
    """Interprets ops against a driver and the reference."""

    def __init__(self, driver, lo, hi, bound, v):
        self.d = driver
        self.ref = Ref(lo, hi)
        self.v = v
        self.bound = bound      # allocator.size: the defect's wrong bound
        self.seams = set()      # boundaries the known defect leaves unmerged
        self.joins = set()      # boundaries where a freed block met a free one
        self.joins_desc = set()
        self.handles = {}       # live start -> driver handle
        self.ever = []          # every (start, n) ever granted
        self.freed_handles = []
        self.labels = set()
        self.nontrivial = False
        self.dead = False
        self.step = 0

    # -- alloc ----------------------------------------------------------------

    def alloc(self, n):
        ref = self.ref
        r, handle = self.d.alloc(n)
        if r is None:
            runs = ref.runs()
            fits = [ru for ru in runs if ru[1] - ru[0] >= n]
            if fits:
                expl = all(_explained(ru, n, self.seams) for ru in fits)
                viol = Violation(
                    'no_space_but_free_run',
                    f'step {self.step}: alloc({n}) refused, free runs '
                    f'{runs}, live {sorted(ref.live.items())}, partition '
                    f'[{ref.lo},{ref.hi}), seams {sorted(self.seams)}')
                viol.seam_explained = expl
                self.v.items.append(viol)
                self.labels.add('refused_known_seam' if expl
                                else 'refused_wrongly')
            else:
                total = sum(b - a for a, b in runs)
                if total >= n:
                    self.labels.add('refused_fragmented')
                    self.nontrivial = True
                elif n > ref.hi - ref.lo:
                    self.labels.add('refused_oversize')
                else:
                    self.labels.add('refused_full')
            return None
        if type(r) is not int:
            self.v.fail('alloc_bad_type',
                        f'step {self.step}: alloc({n}) -> {r!r}')
            self.dead = True
            return None
        if r < ref.lo or r + n > ref.hi:
            self.v.fail('out_of_partition',
                        f'step {self.step}: alloc({n}) -> {r}, partition '
                        f'[{ref.lo},{ref.hi}), live '
                        f'{sorted(ref.live.items())}')
            self.dead = True
            return None
        ov = ref.overlapping(r, n)
        if ov:
            self.v.fail('overlaps_live',
                        f'step {self.step}: alloc({n}) -> [{r},{r + n}) '
                        f'overlaps live {sorted(ov)}')
            self.dead = True
            return None
        # granted
        if self.joins:
            for e in range(r + 1, r + n):
                if e in self.joins:
                    self.labels.add('granted_across_merge')
                    self.nontrivial = True
                    if e in self.joins_desc:
                        self.labels.add('granted_across_right_merge')
            for e in range(r, r + n + 1):
                self.seams.discard(e)
                self.joins.discard(e)
                self.joins_desc.discard(e)
        ref.live[r] = n
        self.handles[r] = handle
        self.ever.append((r, n))
        return r

    # -- free -------------------------------------------------------------------

    def _model_free(self, a):
        ref = self.ref
        n = ref.live.pop(a)
        e = a + n
        h = self.handles.pop(a)
        self.freed_handles.append(h)
        if a > ref.lo and ref.is_free(a - 1):
            self.joins.add(a)
        if e < ref.hi and ref.is_free(e):
            self.joins.add(e)
            self.joins_desc.add(e)
            if e >= self.bound:
                self.seams.add(e)
        return h

    def free_live(self, i):
        if not self.ref.live:
            self.labels.add('free_live_none_live')
            return
        starts = sorted(self.ref.live)
        a = starts[i % len(starts)]
        h = self.handles[a]
        self._model_free(a)
        self.d.free(h)
        self.labels.add('free_live')

    def free_addr(self, addr):
        """Raw driver only: free by address (live start, stale or interior)."""
        if addr in self.ref.live:
            self._model_free(addr)
            self.d.free(addr)
            self.labels.add('free_live')
        else:
            self.d.free(addr)
            self.labels.add('free_noop_interior' if not self.ref.is_free(addr)
                            else 'free_noop_stale')

    def free_again(self, i):
        if not self.freed_handles:
            return
        h = self.freed_handles[i % len(self.freed_handles)]
        self.d.free_again(h)
        self.labels.add('double_free')

    def fill(self, n):
        guard = self.ref.hi - self.ref.lo + 2
        while guard > 0 and not self.dead:
            guard -= 1
            if self.alloc(n) is None:
                break
        self.labels.add('fill')

    def drain(self, mode):
        starts = sorted(self.ref.live)
        if mode == 1:
            starts.reverse()
        elif mode == 2:
            starts = starts[::2] + starts[1::2]
        elif mode == 3:
            starts = starts[1::2][::-1] + starts[::2][::-1]
        for a in starts:
            h = self.handles[a]
            self._model_free(a)
            self.d.free(h)
            self.observe()
            if self.dead:
                return
        full = self.ref.hi - self.ref.lo
        r = self.alloc(full)
        self.labels.add('drain')
        if r is not None and not self.dead:
            self.free_live(0)

    def free_all(self):
        # Buffer.free_all frees the allocator's blocks() in table (ascending
        # address) order; the order only matters for the bookkeeping that
        # classifies the known defect, the oracle itself is order-free
        handles = []
        for a in sorted(self.ref.live):
            handles.append(self._model_free(a))
        self.d.free_all()
        self.labels.add('free_all')

    # -- observation --------------------------------------------------------------

    def observe(self):
        got = self.d.blocks()
        if got is None:
            return
        exp = sorted(self.ref.live.items())
        if got != exp:
            self.v.fail('blocks_disagree',
                        f'step {self.step}: blocks() = {got}, live = {exp}')
            self.dead = True

    def run(self, ops):
        for i, op in enumerate(ops):
            self.step = i
            name = op[0]
            if name == 'a':
                self.alloc(op[1])
            elif name == 'fl':
                self.free_live(op[1])
            elif name == 'fa':
                self.free_addr(self.d.off + op[1])
            elif name == 'fh':
                if self.ever:
                    r, n = self.ever[op[1] % len(self.ever)]
                    self.free_addr(r + op[2] % n)
            elif name == 'fn':
                self.d.free(None)
                self.labels.add('free_none')
            elif name == 'fd':
                self.free_again(op[1])
            elif name == 'fill':
                self.fill(op[1])
            elif name == 'drain':
                self.drain(op[1])
            elif name == 'free_all':
                self.free_all()
            else:
                raise HarnessError(f'unknown op {op!r}')
            if self.dead:
                break
            self.observe()
            if self.dead:
                break


# --- raw allocator driver --------------------------------------------------------

class RawDriver:
    def __init__(self, size, pos, off):
        self.A = eng.ContiguousBlockAllocator(size, pos, off)
        self.off = off

    def alloc(self, n):
        r = self.A.alloc(n)
        return r, r

    def free(self, addr):
        self.A.free(addr)

    free_again = free

    def blocks(self):
        return sorted((b.start, b.size) for b in self.A.blocks())


def _run_raw_once(case, draws, v, probes=False):
    size, pos, off = case['size'], case['pos'], case['off']
    tape = Tape(draws)
    SHIM.tape = tape
    try:
        drv = RawDriver(size, pos, off)
        s = Session(drv, off + pos, off + size, size, v)
        s.run(case['ops'])
        if probes and not s.dead:
            s.step = len(case['ops'])
            drv.free(None)
            s.observe()
            runs = s.ref.runs()
            big = max([b - a for a, b in runs], default=0)
            s.alloc(big + 1)
            if big and not s.dead:
                s.step += 1
                s.alloc(big)
                if not s.dead:
                    s.observe()
    finally:
        SHIM.tape = None
    if max(tape.ks, default=1) > 1:
        s.labels.add('tiebreak_k>1')
    if off:
        s.labels.add('offset>0')
    if off + size > size and off < size:
        s.labels.add('offset_straddles_size')
    if pos:
        s.labels.add('pos>0')
    return s, tape


def run_alloc(case, v):
    size, pos = case['size'], case['pos']
    if not (0 <= pos < size) or case['off'] < 0:
        raise Reject()
    s, _ = _run_raw_once(case, case.get('tape', []), v)
    return {'nontrivial': s.nontrivial, 'labels': sorted(s.labels)}


MAX_BRANCHES = 20000


def run_alloc_all_ties(case, v):
    """Every tie-break branch of one op history (depth-first over the tape)."""
    size, pos = case['size'], case['pos']
    if not (0 <= pos < size):
        raise Reject()
    stack = [[]]
    labels = set()
    nontrivial = False
    branches = 0
    while stack:
        pre = stack.pop()
        branches += 1
        if branches > MAX_BRANCHES:
            raise HarnessError('tie-break tree larger than MAX_BRANCHES')
        before = len(v.items)
        s, tape = _run_raw_once(case, pre, v, probes=True)
        for viol in v.items[before:]:
            viol.detail += f' [tape {pre}]'
        labels |= s.labels
        nontrivial = nontrivial or s.nontrivial
        ks = tape.ks
        chosen = pre + [0] * (len(ks) - len(pre))
        for j in range(len(pre), len(ks)):
            for alt in range(1, ks[j]):
                stack.append(chosen[:j] + [alt])
    if branches > 1:
        labels.add('tie_branches>1')
    if branches > 3:
        labels.add('tie_branches>3')
    return {'nontrivial': nontrivial, 'labels': sorted(labels)}


# --- strategies ------------------------------------------------------------------

@functools.lru_cache(maxsize=None)
def _ops_strategy(span, raw):
    """span = number of allocatable addresses."""
    small = st.integers(1, max(1, span // 3))
    anyn = st.integers(1, span + 1)
    n = st.one_of(small, small, anyn)
    idx = st.integers(0, 15)
    alts = [
        st.tuples(st.just('a'), n),
        st.tuples(st.just('a'), n),
        st.tuples(st.just('a'), n),
        st.tuples(st.just('fl'), idx),
        st.tuples(st.just('fl'), idx),
        st.tuples(st.just('fill'), small),
        st.tuples(st.just('drain'), st.integers(0, 3)),
    ]
    if raw:
        alts += [
            st.tuples(st.just('fh'), idx, st.integers(0, 7)),
            st.tuples(st.just('fn')),
        ]
    else:
        alts += [st.tuples(st.just('fd'), idx)]
    op = st.one_of(*alts).map(list)
    free_run = st.lists(st.tuples(st.just('fl'), idx).map(list),
                        min_size=2, max_size=6)
    # scenario: fill with equal small blocks, free several, ask for more
    scenario = st.tuples(
        st.tuples(st.just('fill'), small).map(list),
        free_run,
        st.lists(op, min_size=1, max_size=20),
    ).map(lambda t: [t[0]] + t[1] + t[2])
    free_form = st.lists(op, min_size=2, max_size=50)
    tail = st.sampled_from([[], [['drain', 1]], [['drain', 0]],
                            [['fill', 1], ['drain', 1]],
                            [['fill', 1], ['drain', 3]]])
    return st.tuples(st.one_of(free_form, scenario, scenario), tail).map(
        lambda t: t[0] + t[1])


@st.composite
def alloc_strategy(draw):
    size = draw(st.one_of(st.integers(1, 12), st.integers(1, 12),
                          st.sampled_from([16, 24, 32, 48, 64]),
                          st.integers(1, 64)))
    pos = draw(st.integers(0, min(4, size - 1)))
    cid = draw(st.sampled_from([0, 0, 1, 1, 2, 3]))
    io = draw(st.sampled_from([0, 0, 0, 1, 2, 4, 8]))
    off = cid * size + io
    ops = draw(_ops_strategy(size - pos, True))
    tape = draw(st.lists(st.integers(0, 7), max_size=24))
    return {'size': size, 'pos': pos, 'off': off, 'ops': ops, 'tape': tape}


# --- bounded exhaustive ------------------------------------------------------------

DEPTH_QUICK = {1: 6, 2: 7, 3: 5, 4: 5, 5: 4}
DEPTH_THOROUGH = {1: 10, 2: 9, 3: 8, 4: 6, 5: 6}


def enum_cases(ctx):
    depth = DEPTH_THOROUGH if ctx.tier == 'thorough' else DEPTH_QUICK
    k = 0
    nsh, sh = ctx.nshards, ctx.shard
    for size in range(1, 6):
        for pos in (0, 1):
            if pos >= size:
                continue
            dmax = depth[size] - pos
            letters = [['a', n] for n in range(1, size - pos + 1)]
            letters += [['fa', rel] for rel in range(pos, size)]
            for off in (0, size, 2 * size + 3):
                for d in range(1, dmax + 1):
                    for h in itertools.product(letters, repeat=d):
                        if k % nsh == sh:
                            yield {'size': size, 'pos': pos, 'off': off,
                                   'ops': list(h), 'tape': 'all'}
                        k += 1


# --- public layer ------------------------------------------------------------------

class PublicDriver:
    def __init__(self, case):
        srv = SERVER
        o = srv.options
        kind = case['kind']
        m, c, per = case['max_logins'], case['cid'], case['per']
        total = per * m + case['slack']
        p = case['reserved']
        ins, outs = case['io']
        # defaults for what is not under test
        o.control_buses, o.audio_buses, o.buffers = 16384, 1024, 1024
        o.reserved_control_buses = o.reserved_audio_buses = 0
        o.reserved_buffers = 0
        o.input_channels, o.output_channels = ins, outs
        o.initial_node_id = case.get('init_temp', 1000)
        o.max_logins = m
        off = per * c
        if kind == 'control':
            o.control_buses = total
            o.reserved_control_buses = p
        elif kind == 'audio':
            o.audio_buses = total + ins + outs
            o.reserved_audio_buses = p
            off += ins + outs
        elif kind == 'buffer':
            o.buffers = total
            o.reserved_buffers = p
        if case['via'] == 'login':
            srv._status_watcher._handle_login_done(c, m)
        else:
            srv._status_watcher._max_logins = None
            srv._set_client_id(c)
        if srv.client_id != c:
            raise HarnessError(f'client id {c} not accepted')
        self.srv = srv
        self.kind = kind
        self.off = off
        self.lo = off + p
        self.hi = off + per
        self.per = per

    def alloc(self, n):
        srv = self.srv
        if self.kind == 'buffer':
            try:
                if n == 1:
                    objs = [Buffer(8, 1, srv)]
                else:
                    objs = Buffer.new_consecutive(n, 8, 1, srv)
            except Exception as e:
                if type(e) is Exception and e.args and (
                        str(e.args[0]).startswith('No block of')
                        or str(e.args[0]).startswith('No more buffer')):
                    return None, None
                raise
            nums = [b.bufnum for b in objs]
            if len(nums) != n or any(type(x) is not int for x in nums) or \
                    nums != list(range(nums[0], nums[0] + n)):
                raise Violation('group_not_consecutive',
                                f'new_consecutive({n}) -> bufnums {nums}')
            return nums[0], objs
        cls = AudioBus if self.kind == 'audio' else ControlBus
        try:
            bus = cls(n, srv)
        except BusException:
            return None, None
        if bus.channels != n:
            raise Violation('bus_channels', f'{cls.__name__}({n}) has '
                            f'channels {bus.channels}')
        return bus.index, [bus]

    def free(self, objs):
        for x in objs:
            x.free()

    free_again = free

    def free_all(self):
        Buffer.free_all(self.srv)

    def blocks(self):
        return None


def run_public(case, v):
    m, c, per, p = (case['max_logins'], case['cid'], case['per'],
                    case['reserved'])
    if not (0 <= c < m and 0 <= p < per):
        raise Reject()
    main.reset()
    tape = Tape(case.get('tape', []))
    SHIM.tape = tape
    try:
        drv = PublicDriver(case)
        s = Session(drv, drv.lo, drv.hi, per, v)
        s.run(case['ops'])
    finally:
        SHIM.tape = None
    s.labels.add(case['kind'])
    s.labels.add(f'cid{"0" if c == 0 else ">0"}')
    s.labels.add(f'max_logins{m}')
    s.labels.add('via_' + case['via'])
    if max(tape.ks, default=1) > 1:
        s.labels.add('tiebreak_k>1')
    return {'nontrivial': s.nontrivial, 'labels': sorted(s.labels)}


@st.composite
def public_strategy(draw):
    kind = draw(st.sampled_from(['audio', 'control', 'buffer']))
    m = draw(st.sampled_from([1, 2, 2, 3, 4]))
    c = draw(st.integers(0, m - 1))
    per = draw(st.one_of(st.integers(1, 10), st.integers(1, 24)))
    p = draw(st.integers(0, min(3, per - 1)))
    slack = draw(st.integers(0, m - 1))
    io = draw(st.sampled_from([[2, 2], [2, 2], [0, 0], [0, 2], [8, 8],
                               [1, 2]]))
    via = draw(st.sampled_from(['direct', 'login']))
    base = _ops_strategy(per - p, False)
    if kind == 'buffer':
        base = st.tuples(
            base, st.sampled_from([[], [], [['free_all'], ['fill', 1]],
                                   [['free_all'], ['drain', 0]]])
        ).map(lambda t: t[0] + t[1])
    ops = draw(base)
    tape = draw(st.lists(st.integers(0, 7), max_size=24))
    return {'kind': kind, 'max_logins': m, 'cid': c, 'per': per,
            'slack': slack, 'reserved': p, 'io': io, 'via': via,
            'ops': ops, 'tape': tape}


# --- node ids ------------------------------------------------------------------------

def run_nodeid(case, v):
    user, init, back, count = (case['user'], case['init_temp'], case['back'],
                               case['count'])
    if not (0 <= user <= 31 and 0 <= init <= TOP):
        raise Reject()
    window = TOP - init + 1
    if case['via'] == 'server':
        srv = SERVER
        o = srv.options
        o.control_buses, o.audio_buses, o.buffers = 16384, 1024, 1024
        o.reserved_control_buses = o.reserved_audio_buses = 0
        o.reserved_buffers = 0
        o.input_channels = o.output_channels = 2
        o.max_logins = max(user + 1, case['max_logins'])
        o.initial_node_id = init
        srv._status_watcher._max_logins = None
        srv._set_client_id(user)
        if srv.client_id != user:
            raise HarnessError('client id not accepted')
        A = srv._node_allocator
        alloc = srv._next_node_id
    else:
        A = eng.NodeIDAllocator(user, init)
        alloc = A.alloc
    start = init
    if back is not None:
        start = max(init, TOP - back)
        A._temp = start
    last = {}
    wrapped = False
    for i in range(count):
        x = alloc()
        if type(x) is not int:
            v.fail('id_bad_type', f'alloc #{i} -> {x!r}')
            break
        low = x & TOP
        if (x >> 26) != user:
            v.fail('id_outside_client_range',
                   f'alloc #{i} -> {x} (prefix {x >> 26}, user {user})')
            break
        if low < init:
            v.fail('id_below_init_temp',
                   f'alloc #{i} -> {x} (low {low} < init_temp {init})')
            break
        j = last.get(x)
        if j is not None and i - j < window:
            v.fail('id_repeated_in_window',
                   f'alloc #{i} -> {x} also alloc #{j}; window {window}')
            break
        last[x] = i
        if i and low == init:
            wrapped = True
    labels = ['via_' + case['via']]
    if wrapped:
        labels.append('wrapped')
    if user:
        labels.append('user>0')
    if window <= count:
        labels.append('window<=count')
    return {'nontrivial': wrapped or user > 0, 'labels': labels}


@st.composite
def nodeid_strategy(draw):
    user = draw(st.one_of(st.integers(0, 31), st.sampled_from([0, 1, 31])))
    init = draw(st.one_of(
        st.sampled_from([1000, 1000, 2, 1, 1001, 4096, 1 << 20]),
        st.integers(1, 50).map(lambda w: TOP - w + 1),
        st.integers(1, TOP)))
    back = draw(st.one_of(st.none(), st.integers(0, 120)))
    count = draw(st.integers(1, 260))
    via = draw(st.sampled_from(['direct', 'direct', 'server']))
    ml = draw(st.integers(1, 32))
    return {'user': user, 'init_temp': init, 'back': back, 'count': count,
            'via': via, 'max_logins': ml}


# --- known finding -------------------------------------------------------------------

def classify_known(stage_name, case, viol):
    """find_next_bound_ignores_offset: ContiguousBlockAllocator._find_next
    compares the absolute address of the right neighbour with the partition
    size, so a freed block whose end address is >= size never merges with a
    free right neighbour.  Exactly this: a refusal although a free run exists,
    in a partition that reaches absolute addresses >= size, where every
    sufficiently long free run is cut into too-short pieces by boundaries at
    which such a blocked right-merge happened (tracked by the executor from
    the history, not from the allocator's state)."""
    if viol.kind != 'no_space_but_free_run':
        return None
    if not getattr(viol, 'seam_explained', False):
        return None
    if stage_name in ('alloc', 'alloc_enum'):
        reaches = case['off'] > 0
    elif stage_name == 'public':
        reaches = case['cid'] > 0 or (
            case['kind'] == 'audio' and sum(case['io']) > 0)
    else:
        return None
    return KNOWN_KEY if reaches else None


def stages(ctx):
    return [
        Stage('alloc', run_alloc, alloc_strategy(),
              quick=3000, thorough=12000),
        Stage('alloc_enum', run_alloc_all_ties, cases=enum_cases,
              exhaustive=True),
        Stage('public', run_public, public_strategy(),
              quick=1500, thorough=6000),
        Stage('nodeid', run_nodeid, nodeid_strategy(),
              quick=300, thorough=2000),
    ]
